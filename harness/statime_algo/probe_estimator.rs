#[cfg(any(not(verif_select), verif_gp))] #[path = "/verif/harness/statime_algo/gp_probe_estimator.rs"] pub(crate) mod gp;
