#[cfg(any(not(verif_select), verif_gp))] #[path = "/verif/harness/statime_algo/gp_probe_filter.rs"] pub(crate) mod gp;
