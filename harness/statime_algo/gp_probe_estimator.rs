//! Group gp probe (C42/C43): read-only views of `EstimatorState`'s private bookkeeping.
//! Child of `crate::estimator::verif_probe`, so `estimator`'s private fields are visible.
//! Nothing here changes behaviour: it only reads and copies.
extern crate std;
use std::prelude::v1::*;
use std::vec::Vec;

use statime_base::{ClockId, LinkId};

use crate::estimator::EstimatorState;
use crate::storage::KalmanStorageBase;

/// (id, base_index, wander) of every internal clock, in list order.
pub(crate) fn clocks<S: KalmanStorageBase>(e: &EstimatorState<S>) -> Vec<(ClockId, usize, f64)> {
    e.clock_info
        .iter()
        .map(|c| (c.id, c.base_index, c.wander))
        .collect()
}

/// External clock ids in list order.
pub(crate) fn externals<S: KalmanStorageBase>(e: &EstimatorState<S>) -> Vec<ClockId> {
    e.external_clocks.0.iter().copied().collect()
}

/// (id, index, decay_rate) of every link known to the estimator, in list order.
pub(crate) fn links<S: KalmanStorageBase>(e: &EstimatorState<S>) -> Vec<(LinkId, usize, f64)> {
    e.link_info
        .iter()
        .map(|l| (l.id, l.index, l.decay_rate))
        .collect()
}

/// Raw state vector.
pub(crate) fn state_vec<S: KalmanStorageBase>(e: &EstimatorState<S>) -> Vec<f64> {
    (0..e.state.rows()).map(|r| e.state[(r, 0)]).collect()
}

/// (rows, cols) of the state vector and of the covariance.
pub(crate) fn dims<S: KalmanStorageBase>(e: &EstimatorState<S>) -> (usize, usize, usize, usize) {
    (
        e.state.rows(),
        e.state.cols(),
        e.uncertainty.rows(),
        e.uncertainty.cols(),
    )
}

/// Raw covariance matrix, row major.
pub(crate) fn cov<S: KalmanStorageBase>(e: &EstimatorState<S>) -> Vec<f64> {
    let mut v = Vec::with_capacity(e.uncertainty.rows() * e.uncertainty.cols());
    for r in 0..e.uncertainty.rows() {
        for c in 0..e.uncertainty.cols() {
            v.push(e.uncertainty[(r, c)]);
        }
    }
    v
}
