//! C42: not implemented yet.
