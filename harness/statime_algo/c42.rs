//! C42 — The multi-clock estimator keeps unrelated estimates intact.
//!
//! Engine E-SEQ (explicit-state breadth-first search over the REAL objects, clones as
//! successors, de-duplication on exact f64 bit patterns + structure).
//!
//! (a) `EstimatorState<StdKalmanStorage<()>>` driven directly (this is where the index
//!     bookkeeping and the splice/extend code lives);
//! (b) the public `KalmanController<StdKalmanStorage<MockClock>, MockClock>` with
//!     `KalmanLink`s and a mock clock (also used by C43, see `c43.rs`).
//!
//! Oracle (from the statement): a structural operation (add/remove clock, external clock,
//! link) leaves the (value, uncertainty) of every OTHER clock's offset and frequency and of
//! every OTHER link's delay bit-identical; operations on unknown / duplicate / stale
//! identifiers fail and (controller) leave the complete state identical; a progression to an
//! earlier time fails with `NonMonotonicTimeProgression` and changes nothing; estimator time
//! never decreases (the deliberate shift when a system-clock step is absorbed is excluded).
//! Time steps come from a boundary alphabet (1 unit of the 2^-64 s fixed point, 1e-17 s, 1e-12 s,
//! 1 ns, 1 s, 2^40 s, both signs) and the estimator time is read back exactly; a derived macro
//! runs 1000 tiny backward steps from one state so accumulated drift is visible.
extern crate std;
use std::prelude::v1::*;
use std::{format, println, vec};

use core::hash::{Hash, Hasher};
use core::marker::PhantomData;
use std::collections::{BTreeMap, HashSet};
use std::sync::{Arc, Mutex, RwLock};

use statime_base::{
    Clock, ClockError, ClockId, Direction, Duration, LeapStatus, LinkId, TAI, Timestamp,
};

use super::common::{self, Ctx};
use crate::estimator::verif_probe::gp as pe;
use crate::estimator::{EstimatorState, UncertainValue};
use crate::filter::verif_probe::gp as pf;
use crate::filter::{LinkFilter, LinkFilterConfig};
use crate::storage::StateMutex;
use crate::{
    AlgoError, ClockInfo as CtlClockInfo, KalmanController, KalmanControllerState, KalmanLink,
    Measurement, StdKalmanStorage,
};

// =====================================================================================
// small utilities
// =====================================================================================

struct Cap(Vec<u8>);
impl Hasher for Cap {
    fn finish(&self) -> u64 {
        0
    }
    fn write(&mut self, b: &[u8]) {
        self.0.extend_from_slice(b);
    }
}

/// Exact raw value (2^-64 s since the epoch) of a timestamp, read through its `Hash` impl
/// (the inner integer is private to statime-base).
pub(super) fn ts_raw(t: Timestamp<TAI>) -> u128 {
    let mut c = Cap(Vec::new());
    t.hash(&mut c);
    let mut a = [0u8; 16];
    a.copy_from_slice(&c.0[..16]);
    u128::from_ne_bytes(a)
}

/// Exact raw value (2^-64 s) of a duration.
pub(super) fn dur_raw(d: Duration) -> i128 {
    let mut c = Cap(Vec::new());
    d.hash(&mut c);
    let mut a = [0u8; 16];
    a.copy_from_slice(&c.0[..16]);
    i128::from_ne_bytes(a)
}

pub(super) fn err_name(e: &AlgoError) -> &'static str {
    match e {
        AlgoError::UnknownClock(_) => "UnknownClock",
        AlgoError::ClockAlreadyExists(_) => "ClockAlreadyExists",
        AlgoError::UnknownLink(_) => "UnknownLink",
        AlgoError::LinkAlreadyExists(_) => "LinkAlreadyExists",
        AlgoError::LinkNotExternal(_) => "LinkNotExternal",
        AlgoError::BothClocksExternal(_, _) => "BothClocksExternal",
        AlgoError::ClocksEqual(_) => "ClocksEqual",
        AlgoError::NonMonotonicTimeProgression { .. } => "NonMonotonicTimeProgression",
        AlgoError::CannotRemoveSystemClock(_) => "CannotRemoveSystemClock",
        AlgoError::MatrixError(_) => "MatrixError",
        AlgoError::ClockError(_) => "ClockError",
        AlgoError::NotEnoughMeasurements(_) => "NotEnoughMeasurements",
        AlgoError::ClockInUse(_, _) => "ClockInUse",
    }
}

/// Canonical-key builder: a word vector hashed to 128 bits by two unrelated mixers.
#[derive(Default)]
pub(super) struct KB {
    w: Vec<u64>,
}
impl KB {
    pub fn u(&mut self, x: u64) {
        self.w.push(x);
    }
    pub fn f(&mut self, x: f64) {
        self.w.push(x.to_bits());
    }
    pub fn u128(&mut self, x: u128) {
        self.w.push(x as u64);
        self.w.push((x >> 64) as u64);
    }
    pub fn sep(&mut self) {
        self.w.push(0xffff_ffff_ffff_fff1);
    }
    pub fn s(&mut self, s: &str) {
        self.w.push(s.len() as u64 ^ 0x5555_0000_0000_0000);
        for ch in s.as_bytes().chunks(8) {
            let mut a = [0u8; 8];
            a[..ch.len()].copy_from_slice(ch);
            self.w.push(u64::from_le_bytes(a));
        }
    }
    pub fn finish(&self) -> u128 {
        let mut h1: u64 = 0xcbf29ce484222325;
        let mut h2: u64 = 0x9e3779b97f4a7c15;
        for &x in &self.w {
            for b in x.to_le_bytes() {
                h1 ^= b as u64;
                h1 = h1.wrapping_mul(0x100000001b3);
            }
            let mut z = h2 ^ x;
            z = (z ^ (z >> 30)).wrapping_mul(0xbf58476d1ce4e5b9);
            z = (z ^ (z >> 27)).wrapping_mul(0x94d049bb133111eb);
            h2 = (z ^ (z >> 31)).wrapping_add(0x9e3779b97f4a7c15);
        }
        ((h1 as u128) << 64) | h2 as u128
    }
}

/// Per-worker tally merged into the `Ctx` once per expanded state (keeps lock traffic low).
#[derive(Default)]
pub(super) struct Tally {
    c: BTreeMap<String, u64>,
    d: Vec<u64>,
}
impl Tally {
    pub fn inc(&mut self, k: &str) {
        self.add(k, 1);
    }
    pub fn add(&mut self, k: &str, n: u64) {
        if let Some(v) = self.c.get_mut(k) {
            *v += n;
        } else {
            self.c.insert(k.to_string(), n);
        }
    }
    pub fn distinct(&mut self, h: u64) {
        self.d.push(h);
    }
    pub fn flush(self, ctx: &Ctx) {
        for (k, v) in self.c {
            ctx.add(&k, v);
        }
        ctx.distinct_many(self.d);
    }
}

/// Worker-local tally that is merged into the `Ctx` when the worker finishes.
pub(super) struct TallyGuard<'a>(pub Tally, pub &'a Ctx);
impl Drop for TallyGuard<'_> {
    fn drop(&mut self) {
        core::mem::take(&mut self.0).flush(self.1);
    }
}

pub(super) struct Explored {
    pub states: u64,
    pub depth_done: u64,
    pub fixpoint: bool,
    pub per_level: Vec<u64>,
}

/// Level-synchronous BFS. `succ` returns the successors whose key differs from the parent
/// (self-loops are evaluated and counted inside `succ`). Workers only partition the
/// frontier; the merge into `seen` is sequential in parent order, so the search (and the
/// representative history kept for every state) is deterministic.
pub(super) fn explore<S: Send + Sync>(
    ctx: &Ctx,
    tag: &str,
    init: Vec<(u128, S)>,
    succ: &(dyn Fn(&mut Tally, &S, u64) -> Vec<(u128, S)> + Sync),
    max_depth: u64,
    deadline_s: f64,
) -> Explored {
    let mut seen: HashSet<u128> = HashSet::new();
    let mut frontier: Vec<S> = Vec::new();
    for (k, s) in init {
        if seen.insert(k) {
            frontier.push(s);
        }
    }
    let mut per_level = vec![frontier.len() as u64];
    let mut depth = 0u64;
    let mut last_level_s = 0.0f64;
    let mut fixpoint = false;
    while depth < max_depth {
        if frontier.is_empty() {
            fixpoint = true;
            break;
        }
        // never start a level that cannot finish inside the budget (estimate: the level
        // before took `last_level_s` for a frontier `growth` times smaller)
        let n = per_level.len();
        let growth = if n >= 2 && per_level[n - 2] > 0 {
            per_level[n - 1] as f64 / per_level[n - 2] as f64
        } else {
            1.0
        };
        if ctx.elapsed_s() > deadline_s || ctx.elapsed_s() + last_level_s * growth > deadline_s {
            ctx.cap_hit(&format!(
                "{tag}: depth {} not started (budget); depth<={} complete",
                depth + 1,
                depth
            ));
            break;
        }
        let t0 = ctx.elapsed_s();
        let results: Mutex<Vec<(u64, Vec<(u128, Option<S>)>)>> = Mutex::new(Vec::new());
        {
            let seen_ref = &seen;
            let fr = &frontier;
            let last = depth + 1 == max_depth;
            common::par_for_with(fr.len() as u64, 8, || TallyGuard(Tally::default(), ctx), |tg, i| {
                // states of the last level are never expanded: keep only their keys
                let out: Vec<(u128, Option<S>)> = succ(&mut tg.0, &fr[i as usize], depth)
                    .into_iter()
                    .filter(|(k, _)| !seen_ref.contains(k))
                    .map(|(k, s)| (k, if last { None } else { Some(s) }))
                    .collect();
                if !out.is_empty() {
                    results.lock().unwrap().push((i, out));
                }
            });
        }
        let mut r = results.into_inner().unwrap();
        r.sort_by_key(|x| x.0);
        let mut next = Vec::new();
        let mut new_states = 0u64;
        for (_, out) in r {
            for (k, s) in out {
                if seen.insert(k) {
                    new_states += 1;
                    if let Some(s) = s {
                        next.push(s);
                    }
                }
            }
        }
        depth += 1;
        per_level.push(new_states);
        frontier = next;
        last_level_s = ctx.elapsed_s() - t0;
    }
    if per_level.last() == Some(&0) {
        fixpoint = true;
    }
    Explored {
        states: seen.len() as u64,
        depth_done: depth,
        fixpoint,
        per_level,
    }
}

/// Time-step alphabet. 0: none, +-1: 1 s, +-2: one unit of the fixed-point Duration (2^-64 s),
/// +-3: 1e-17 s, +-4: 1e-12 s, +-5: 1 ns, +-6: 2^40 s.
pub(super) const STEP_MAX: i8 = 6;
pub(super) fn step_dur(c: i8) -> Duration {
    let d = match c.abs() {
        0 => Duration::ZERO,
        1 => Duration::from_seconds_nanos(1, 0),
        2 => Duration::from_f64_seconds(1.0 / 18446744073709551616.0),
        3 => Duration::from_f64_seconds(1e-17),
        4 => Duration::from_f64_seconds(1e-12),
        5 => Duration::from_seconds_nanos(0, 1),
        _ => Duration::from_seconds_nanos(1i64 << 40, 0),
    };
    if c < 0 { Duration::ZERO - d } else { d }
}
pub(super) fn step_code(c: i8) -> String {
    let sign = if c > 0 { "+" } else if c < 0 { "-" } else { "0" };
    let mag = match c.abs() {
        0 | 1 => "",
        2 => "u",
        3 => "a",
        4 => "p",
        5 => "n",
        _ => "G",
    };
    format!("{sign}{mag}")
}
pub(super) fn step_parse(s: &str) -> Option<i8> {
    (-STEP_MAX..=STEP_MAX).find(|c| step_code(*c) == s)
}
const RUN_LEN: u32 = 1000;
/// BFS levels whose states get the RUN_LEN-step backward runs (quick: 0..=2, thorough: 0..=3).
fn run_levels() -> u64 {
    if common::tier() == common::Tier::Quick { 2 } else { 3 }
}

#[derive(Clone, Copy, Debug, PartialEq, Eq)]
pub(super) enum Who {
    P(u8),
    Unknown,
    Stale,
}
impl Who {
    fn code(self) -> String {
        match self {
            Who::P(p) => format!("{p}"),
            Who::Unknown => "u".into(),
            Who::Stale => "s".into(),
        }
    }
    fn parse(s: &str) -> Option<Who> {
        match s {
            "u" => Some(Who::Unknown),
            "s" => Some(Who::Stale),
            _ => s.parse::<u8>().ok().map(Who::P),
        }
    }
}

pub(super) type Est4 = Result<[u64; 4], String>;
pub(super) type Est2 = Result<[u64; 2], String>;

fn uv_bits(v: UncertainValue) -> [u64; 2] {
    [v.value.to_bits(), v.uncertainty.to_bits()]
}

pub(super) fn fmt4(e: &Est4) -> String {
    match e {
        Ok(b) => format!(
            "off={:e}±{:e} freq={:e}±{:e}",
            f64::from_bits(b[0]),
            f64::from_bits(b[1]),
            f64::from_bits(b[2]),
            f64::from_bits(b[3])
        ),
        Err(s) => format!("<{s}>"),
    }
}
pub(super) fn fmt2(e: &Est2) -> String {
    match e {
        Ok(b) => format!("delay={:e}±{:e}", f64::from_bits(b[0]), f64::from_bits(b[1])),
        Err(s) => format!("<{s}>"),
    }
}

// =====================================================================================
// (a) EstimatorState driven directly
// =====================================================================================

type Est = EstimatorState<StdKalmanStorage<()>>;

#[derive(Clone)]
struct AClock {
    id: ClockId,
    ext: bool,
    slot: u8,
}
#[derive(Clone)]
struct ALink {
    id: LinkId,
    slot: u8,
}
#[derive(Clone)]
struct AState {
    est: Est,
    clocks: Vec<AClock>,
    links: Vec<ALink>,
    unknown: ClockId,
    stale_clock: Option<ClockId>,
    stale_link: Option<LinkId>,
    hist: Vec<AOp>,
}

#[derive(Clone, Copy, Debug, PartialEq, Eq)]
enum AOp {
    AddClock,
    AddExt,
    AddClockDup(u8),
    AddExtDup(u8),
    RemClock(Who),
    RemExt(Who),
    AddLink(u8, u8),
    AddLinkDup(u8),
    AddLinkUnk(bool),
    RemLink(Who),
    Meas(u8, bool),
    MeasPair(u8, u8),
    MeasUnkLink,
    MeasUnkClock,
    Prog(i8),
    /// derived macro: RUN_LEN consecutive progressions by the (negative) step
    RunBack(i8),
}

impl AOp {
    fn code(self) -> String {
        match self {
            AOp::AddClock => "ac".into(),
            AOp::AddExt => "ae".into(),
            AOp::AddClockDup(p) => format!("acd{p}"),
            AOp::AddExtDup(p) => format!("aed{p}"),
            AOp::RemClock(w) => format!("rc{}", w.code()),
            AOp::RemExt(w) => format!("re{}", w.code()),
            AOp::AddLink(i, j) => format!("al{i}{j}"),
            AOp::AddLinkDup(k) => format!("ald{k}"),
            AOp::AddLinkUnk(first) => format!("alu{}", if first { 0 } else { 1 }),
            AOp::RemLink(w) => format!("rl{}", w.code()),
            AOp::Meas(k, f) => format!("m{k}{}", if f { "f" } else { "r" }),
            AOp::MeasPair(i, j) => format!("mp{i}{j}"),
            AOp::MeasUnkLink => "mul".into(),
            AOp::MeasUnkClock => "muc".into(),
            AOp::Prog(d) => format!("p{}", step_code(d)),
            AOp::RunBack(d) => format!("pr{}", step_code(d)),
        }
    }
    fn parse(s: &str) -> Option<AOp> {
        let d = |c: &str| c.parse::<u8>().ok();
        Some(match s {
            "ac" => AOp::AddClock,
            "ae" => AOp::AddExt,
            "mul" => AOp::MeasUnkLink,
            "muc" => AOp::MeasUnkClock,
            _ if s.starts_with("pr") => AOp::RunBack(step_parse(&s[2..])?),
            _ if s.starts_with('p') => AOp::Prog(step_parse(&s[1..])?),
            _ if s.starts_with("acd") => AOp::AddClockDup(d(&s[3..])?),
            _ if s.starts_with("aed") => AOp::AddExtDup(d(&s[3..])?),
            _ if s.starts_with("ald") => AOp::AddLinkDup(d(&s[3..])?),
            _ if s.starts_with("alu") => AOp::AddLinkUnk(&s[3..] == "0"),
            _ if s.starts_with("al") && s.len() == 4 => AOp::AddLink(d(&s[2..3])?, d(&s[3..4])?),
            _ if s.starts_with("rc") => AOp::RemClock(Who::parse(&s[2..])?),
            _ if s.starts_with("re") => AOp::RemExt(Who::parse(&s[2..])?),
            _ if s.starts_with("rl") => AOp::RemLink(Who::parse(&s[2..])?),
            _ if s.starts_with("mp") && s.len() == 4 => AOp::MeasPair(d(&s[2..3])?, d(&s[3..4])?),
            _ if s.starts_with('m') && s.len() == 3 => AOp::Meas(d(&s[1..2])?, &s[2..] == "f"),
            _ => return None,
        })
    }
}

const A_MAX_CLOCKS: usize = 3;
const A_MAX_LINKS: usize = 2;

// pairwise distinct initial values per value slot
fn a_clock_init(slot: u8) -> (UncertainValue, UncertainValue, f64) {
    let k = slot as f64 + 1.0;
    (
        UncertainValue { value: 0.125 * k, uncertainty: 0.01 * k },
        UncertainValue { value: 1.5e-6 * k, uncertainty: 1e-7 * k },
        1e-8 * k,
    )
}
fn a_link_init(slot: u8) -> (UncertainValue, f64) {
    let k = slot as f64;
    (
        UncertainValue { value: 0.5 + 0.25 * k, uncertainty: 0.2 + 0.1 * k },
        0.05 * k, // slot 0: no decay, slot 1: decaying
    )
}
fn a_meas_value(sel: u8, fwd: bool) -> UncertainValue {
    let k = sel as f64 + 1.0;
    UncertainValue {
        value: if fwd { 0.3 * k } else { -0.2 * k + 0.05 },
        uncertainty: 0.02 * k,
    }
}

fn a_t0() -> Timestamp<TAI> {
    Timestamp::UNIX_EPOCH + Duration::from_seconds_nanos(1000, 0)
}

fn a_new() -> AState {
    AState {
        est: Est::empty(a_t0()),
        clocks: Vec::new(),
        links: Vec::new(),
        unknown: ClockId::new(),
        stale_clock: None,
        stale_link: None,
        hist: Vec::new(),
    }
}

fn free_slot(used: impl Iterator<Item = u8>) -> u8 {
    let u: Vec<u8> = used.collect();
    (0u8..).find(|s| !u.contains(s)).unwrap()
}

fn a_ops(s: &AState) -> Vec<AOp> {
    let n = s.clocks.len() as u8;
    let l = s.links.len() as u8;
    let mut v = Vec::new();
    if (n as usize) < A_MAX_CLOCKS {
        v.push(AOp::AddClock);
        v.push(AOp::AddExt);
    }
    for p in 0..n {
        v.push(AOp::AddClockDup(p));
        v.push(AOp::AddExtDup(p));
        v.push(AOp::RemClock(Who::P(p)));
        v.push(AOp::RemExt(Who::P(p)));
    }
    v.push(AOp::RemClock(Who::Unknown));
    v.push(AOp::RemExt(Who::Unknown));
    if s.stale_clock.is_some() {
        v.push(AOp::RemClock(Who::Stale));
        v.push(AOp::RemExt(Who::Stale));
    }
    if (l as usize) < A_MAX_LINKS {
        for i in 0..n {
            for j in 0..n {
                if i != j {
                    v.push(AOp::AddLink(i, j));
                }
            }
        }
    }
    if n >= 1 {
        v.push(AOp::AddLinkUnk(true));
        v.push(AOp::AddLinkUnk(false));
        v.push(AOp::MeasUnkClock);
    }
    for k in 0..l {
        v.push(AOp::AddLinkDup(k));
        v.push(AOp::RemLink(Who::P(k)));
        v.push(AOp::Meas(k, true));
        v.push(AOp::Meas(k, false));
    }
    if n >= 2 {
        v.push(AOp::RemLink(Who::Unknown));
        v.push(AOp::MeasUnkLink);
    }
    if s.stale_link.is_some() {
        v.push(AOp::RemLink(Who::Stale));
    }
    for i in 0..n {
        for j in 0..n {
            if i != j {
                v.push(AOp::MeasPair(i, j));
            }
        }
    }
    v.push(AOp::Prog(0));
    v.push(AOp::Prog(1));
    // every backward step of the boundary alphabet: must be rejected (self-loop); if one is
    // accepted the resulting state is explored like any other
    for c in 1..=STEP_MAX {
        v.push(AOp::Prog(-c));
    }
    v
}

/// Ops evaluated (with the oracle) on every expanded state but whose successors are not
/// enqueued: the forward boundary steps occupy only the last position of a word, and the
/// RUN_LEN-step backward runs are tried from every state of BFS level <= run_levels() (cost).
fn a_leaf_ops(_s: &AState, level: u64) -> Vec<AOp> {
    let mut v = Vec::new();
    for c in 2..=STEP_MAX {
        v.push(AOp::Prog(c));
    }
    if level <= run_levels() {
        v.push(AOp::RunBack(-2));
        v.push(AOp::RunBack(-3));
    }
    v
}

struct ASnap {
    time: u128,
    clocks: Vec<(ClockId, Est4)>,
    links: Vec<(LinkId, Est2)>,
}

fn a_read_clock(e: &Est, id: ClockId) -> Est4 {
    match common::catch(|| (e.clock_offset(id), e.clock_frequency(id))) {
        Ok((Ok(o), Ok(f))) => {
            let (a, b) = (uv_bits(o), uv_bits(f));
            Ok([a[0], a[1], b[0], b[1]])
        }
        Ok((o, f)) => Err(format!(
            "offset:{} frequency:{}",
            o.as_ref().err().map(err_name).unwrap_or("ok"),
            f.as_ref().err().map(err_name).unwrap_or("ok")
        )),
        Err(p) => Err(format!("panic {p}")),
    }
}
fn a_read_link(e: &Est, id: LinkId) -> Est2 {
    match common::catch(|| e.link_delay(id)) {
        Ok(Ok(d)) => Ok(uv_bits(d)),
        Ok(Err(x)) => Err(err_name(&x).to_string()),
        Err(p) => Err(format!("panic {p}")),
    }
}

fn a_snap(s: &AState) -> ASnap {
    ASnap {
        time: ts_raw(s.est.current_time()),
        clocks: s
            .clocks
            .iter()
            .filter(|c| !c.ext)
            .map(|c| (c.id, a_read_clock(&s.est, c.id)))
            .collect(),
        links: s.links.iter().map(|l| (l.id, a_read_link(&s.est, l.id))).collect(),
    }
}

/// Raw estimator content with identifiers replaced by harness positions.
fn raw_est_key<S: crate::storage::KalmanStorageBase>(
    kb: &mut KB,
    e: &EstimatorState<S>,
    cpos: &dyn Fn(ClockId) -> u64,
    lpos: &dyn Fn(LinkId) -> u64,
) {
    kb.u128(ts_raw(e.current_time()));
    let d = pe::dims(e);
    kb.u(d.0 as u64);
    kb.u(d.1 as u64);
    kb.u(d.2 as u64);
    kb.u(d.3 as u64);
    for (id, base, wander) in pe::clocks(e) {
        kb.u(cpos(id));
        kb.u(base as u64);
        kb.f(wander);
    }
    kb.sep();
    for id in pe::externals(e) {
        kb.u(cpos(id));
    }
    kb.sep();
    for (id, idx, decay) in pe::links(e) {
        kb.u(lpos(id));
        kb.u(idx as u64);
        kb.f(decay);
    }
    kb.sep();
    for x in pe::state_vec(e) {
        kb.f(x);
    }
    kb.sep();
    for x in pe::cov(e) {
        kb.f(x);
    }
    kb.sep();
}

fn a_key(s: &AState) -> u128 {
    let mut kb = KB::default();
    let cpos = |id: ClockId| -> u64 {
        s.clocks.iter().position(|c| c.id == id).map(|p| p as u64).unwrap_or(99)
    };
    let lpos = |id: LinkId| -> u64 {
        s.links.iter().position(|l| l.id == id).map(|p| p as u64).unwrap_or(99)
    };
    raw_est_key(&mut kb, &s.est, &cpos, &lpos);
    for c in &s.clocks {
        kb.u(c.ext as u64);
        kb.u(c.slot as u64);
    }
    kb.sep();
    for l in &s.links {
        kb.u(l.slot as u64);
        kb.u(cpos(l.id.first_clock()));
        kb.u(cpos(l.id.second_clock()));
    }
    kb.sep();
    kb.u(s.stale_clock.is_some() as u64);
    kb.u(s.stale_link.is_some() as u64);
    kb.finish()
}

fn a_trace(s: &AState, op: Option<AOp>) -> String {
    let mut v: Vec<String> = s.hist.iter().map(|o| o.code()).collect();
    if let Some(o) = op {
        v.push(o.code());
    }
    format!("a;{}", v.join(","))
}

#[derive(Clone, Copy, PartialEq, Eq, Debug)]
enum Expect {
    Any,
    FailUnknown,
    FailDuplicate,
    FailBackward,
}

enum AKind {
    Structural { skip_clock: Option<ClockId>, skip_link: Option<LinkId> },
    Measure,
    Progress,
}

/// Apply one op to a clone of `p`. Returns the successor (a stutter copy when the op
/// failed) and an outcome label.
fn a_apply(ctx: &Ctx, t: &mut Tally, p: &AState, pk: u128, before: &ASnap, op: AOp) -> (Option<AState>, String) {
    let mut n: Option<AState> = None;
    
    let e = p.est.clone();
    let cid = |pos: u8| p.clocks[pos as usize].id;
    let who = |w: Who, stale: Option<ClockId>| match w {
        Who::P(i) => cid(i),
        Who::Unknown => p.unknown,
        Who::Stale => stale.unwrap_or(p.unknown),
    };
    let mut expect = Expect::Any;
    let mut kind = AKind::Measure;
    // model update to perform on success
    enum Upd {
        None,
        AddClock(AClock),
        RemClock(ClockId),
        AddLink(ALink),
        RemLink(LinkId),
    }
    let mut upd = Upd::None;
    let mut prog_target: Option<Timestamp<TAI>> = None;
    let res: Result<Result<Est, AlgoError>, String> = match op {
        AOp::AddClock | AOp::AddExt => {
            let id = ClockId::new();
            let slot = free_slot(p.clocks.iter().map(|c| c.slot));
            let ext = op == AOp::AddExt;
            kind = AKind::Structural { skip_clock: Some(id), skip_link: None };
            upd = Upd::AddClock(AClock { id, ext, slot });
            let (o, f, w) = a_clock_init(slot);
            common::catch(move || if ext { e.add_external_clock(id) } else { e.add_clock(id, o, f, w) })
        }
        AOp::AddClockDup(pos) => {
            let id = cid(pos);
            expect = Expect::FailDuplicate;
            kind = AKind::Structural { skip_clock: None, skip_link: None };
            let (o, f, w) = a_clock_init(3);
            common::catch(move || e.add_clock(id, o, f, w))
        }
        AOp::AddExtDup(pos) => {
            let id = cid(pos);
            expect = Expect::FailDuplicate;
            kind = AKind::Structural { skip_clock: None, skip_link: None };
            common::catch(move || e.add_external_clock(id))
        }
        AOp::RemClock(w) => {
            let id = who(w, p.stale_clock);
            let valid = matches!(w, Who::P(i) if !p.clocks[i as usize].ext);
            if valid {
                upd = Upd::RemClock(id);
                kind = AKind::Structural { skip_clock: Some(id), skip_link: None };
            } else {
                expect = Expect::FailUnknown;
                kind = AKind::Structural { skip_clock: None, skip_link: None };
            }
            common::catch(move || e.remove_clock(id))
        }
        AOp::RemExt(w) => {
            let id = who(w, p.stale_clock);
            let valid = matches!(w, Who::P(i) if p.clocks[i as usize].ext);
            if valid {
                upd = Upd::RemClock(id);
                kind = AKind::Structural { skip_clock: Some(id), skip_link: None };
            } else {
                expect = Expect::FailUnknown;
                kind = AKind::Structural { skip_clock: None, skip_link: None };
            }
            common::catch(move || e.remove_external_clock(id))
        }
        AOp::AddLink(i, j) => {
            let id = LinkId::new(cid(i), cid(j)).unwrap();
            let slot = free_slot(p.links.iter().map(|l| l.slot));
            upd = Upd::AddLink(ALink { id, slot });
            kind = AKind::Structural { skip_clock: None, skip_link: Some(id) };
            let (d, r) = a_link_init(slot);
            common::catch(move || e.add_link(id, d, r))
        }
        AOp::AddLinkDup(k) => {
            let id = p.links[k as usize].id;
            expect = Expect::FailDuplicate;
            kind = AKind::Structural { skip_clock: None, skip_link: None };
            let (d, r) = a_link_init(2);
            common::catch(move || e.add_link(id, d, r))
        }
        AOp::AddLinkUnk(first) => {
            let known = cid(0);
            let id = if first { LinkId::new(p.unknown, known) } else { LinkId::new(known, p.unknown) }.unwrap();
            expect = Expect::FailUnknown;
            kind = AKind::Structural { skip_clock: None, skip_link: None };
            let (d, r) = a_link_init(2);
            common::catch(move || e.add_link(id, d, r))
        }
        AOp::RemLink(w) => {
            let id = match w {
                Who::P(k) => p.links[k as usize].id,
                Who::Stale => p.stale_link.unwrap(),
                Who::Unknown => LinkId::new(cid(0), cid(1)).unwrap(),
            };
            if let Who::P(_) = w {
                upd = Upd::RemLink(id);
                kind = AKind::Structural { skip_clock: None, skip_link: Some(id) };
            } else {
                expect = Expect::FailUnknown;
                kind = AKind::Structural { skip_clock: None, skip_link: None };
            }
            common::catch(move || e.remove_link(id))
        }
        AOp::Meas(k, fwd) => {
            let l = &p.links[k as usize];
            let id = l.id;
            let present = |c: ClockId| p.clocks.iter().any(|x| x.id == c);
            if !present(id.first_clock()) || !present(id.second_clock()) {
                expect = Expect::FailUnknown; // orphaned link: an endpoint was removed
            }
            let d = if fwd { id.forward() } else { id.reverse() };
            let v = a_meas_value(l.slot, fwd);
            common::catch(move || e.measurement(d, v, true))
        }
        AOp::MeasPair(i, j) => {
            let d = LinkId::new(cid(i), cid(j)).unwrap().forward();
            let v = a_meas_value(2 + i * 3 + j, true);
            common::catch(move || e.measurement(d, v, false))
        }
        AOp::MeasUnkLink => {
            expect = Expect::FailUnknown;
            let d = LinkId::new(cid(0), cid(1)).unwrap().forward();
            let v = a_meas_value(0, true);
            common::catch(move || e.measurement(d, v, true))
        }
        AOp::MeasUnkClock => {
            expect = Expect::FailUnknown;
            let d = LinkId::new(cid(0), p.unknown).unwrap().forward();
            let v = a_meas_value(0, true);
            common::catch(move || e.measurement(d, v, false))
        }
        AOp::Prog(dt) => {
            kind = AKind::Progress;
            if dt < 0 {
                expect = Expect::FailBackward;
            }
            let target = p.est.current_time() + step_dur(dt);
            prog_target = Some(target);
            common::catch(move || e.progress_time(target))
        }
        AOp::RunBack(dt) => {
            // RUN_LEN consecutive backward progressions from this state: each must fail, the
            // exact estimator time must not have moved at the end
            kind = AKind::Progress;
            let d = step_dur(dt);
            let start = ts_raw(p.est.current_time());
            let r = common::catch(move || {
                let mut cur = e;
                let mut accepted = 0u32;
                let mut wrong_err = 0u32;
                for _ in 0..RUN_LEN {
                    let target = cur.current_time() + d;
                    match cur.clone().progress_time(target) {
                        Ok(nx) => {
                            accepted += 1;
                            cur = nx;
                        }
                        Err(AlgoError::NonMonotonicTimeProgression { from, to })
                            if from == cur.current_time() && to == target => {}
                        Err(_) => wrong_err += 1,
                    }
                }
                (cur, accepted, wrong_err)
            });
            t.add("a_transitions", RUN_LEN as u64 - 1);
            t.inc("a_backward_runs");
            match r {
                Ok((cur, accepted, wrong_err)) => {
                    let end = ts_raw(cur.current_time());
                    if accepted > 0 {
                        ctx.violation(
                            "C42:backward-progress-accepted",
                            format!("{accepted} of {RUN_LEN} consecutive progressions by {} (raw {}) were accepted; estimator time moved from raw {start} to {end} ({} units back)", step_code(dt), dur_raw(d), start as i128 - end as i128),
                            a_trace(p, Some(op)),
                        );
                    }
                    if wrong_err > 0 {
                        ctx.violation(
                            "C42:backward-progress-wrong-error",
                            format!("{wrong_err} of {RUN_LEN} backward progressions failed with something other than NonMonotonicTimeProgression{{from=now,to=target}}"),
                            a_trace(p, Some(op)),
                        );
                    }
                    if end < start {
                        ctx.violation(
                            "C42:time-decreased",
                            format!("estimator time went from raw {start} to {end} over a run of {RUN_LEN} steps of {}", step_code(dt)),
                            a_trace(p, Some(op)),
                        );
                    }
                    if accepted == 0 {
                        t.add("a_backward_progress_rejected", RUN_LEN as u64);
                        t.distinct(common::hash_of(&(pk, op.code())));
                        t.inc("a_transitions");
                        return (None, "a_rej:run".to_string());
                    }
                    Ok(Ok(cur))
                }
                Err(pn) => Err(pn),
            }
        }
    };
    t.inc("a_transitions");
    let trace = || a_trace(p, Some(op));
    let outcome;
    match res {
        Err(panic) => {
            ctx.violation("C42:panic-in-estimator", format!("estimator op {} panicked: {panic}", op.code()), trace());
            
            outcome = "panic".to_string();
        }
        Ok(Err(err)) => {
            
            outcome = format!("a_rej:{}", err_name(&err));
            match expect {
                Expect::FailBackward => {
                    t.inc("a_backward_progress_rejected");
                    let ok = matches!(&err, AlgoError::NonMonotonicTimeProgression { from, to }
                        if *from == p.est.current_time() && Some(*to) == prog_target);
                    if !ok {
                        ctx.violation(
                            "C42:backward-progress-wrong-error",
                            format!("progress_time to an earlier time failed with {} / wrong from-to instead of NonMonotonicTimeProgression{{from=now,to=target}}", err_name(&err)),
                            trace(),
                        );
                    }
                }
                Expect::FailUnknown => t.inc("a_unknown_id_rejected"),
                Expect::FailDuplicate => t.inc("a_duplicate_id_rejected"),
                Expect::Any => t.inc("a_valid_op_rejected"),
            }
            if expect != Expect::Any {
                t.distinct(common::hash_of(&(pk, op.code())));
            }
        }
        Ok(Ok(est)) => {
            let mut s2 = AState {
                est,
                clocks: p.clocks.clone(),
                links: p.links.clone(),
                unknown: p.unknown,
                stale_clock: p.stale_clock,
                stale_link: p.stale_link,
                hist: {
                    let mut h = p.hist.clone();
                    h.push(op);
                    h
                },
            };
            outcome = format!("a_ok:{}", &op.code()[..op.code().len().min(2)]);
            match expect {
                Expect::FailUnknown => ctx.violation(
                    "C42:unknown-id-accepted",
                    format!("estimator op {} on an unknown/stale/wrong-kind identifier succeeded", op.code()),
                    trace(),
                ),
                Expect::FailDuplicate => ctx.violation(
                    "C42:duplicate-id-accepted",
                    format!("estimator op {} with an identifier that already exists succeeded", op.code()),
                    trace(),
                ),
                Expect::FailBackward => ctx.violation(
                    "C42:backward-progress-accepted",
                    "progress_time to an earlier time succeeded".to_string(),
                    trace(),
                ),
                Expect::Any => {}
            }
            if expect == Expect::Any {
                match upd {
                    Upd::None => {}
                    Upd::AddClock(c) => s2.clocks.push(c),
                    Upd::RemClock(id) => {
                        s2.clocks.retain(|c| c.id != id);
                        s2.stale_clock = Some(id);
                    }
                    Upd::AddLink(l) => s2.links.push(l),
                    Upd::RemLink(id) => {
                        s2.links.retain(|l| l.id != id);
                        s2.stale_link = Some(id);
                    }
                }
            }
            let after_time = ts_raw(s2.est.current_time());
            if after_time < before.time {
                ctx.violation(
                    "C42:time-decreased",
                    format!("estimator time went from raw {} to {} on {}", before.time, after_time, op.code()),
                    trace(),
                );
            }
            if let AKind::Progress = kind {
                t.inc("a_progress_ok");
            }
            if let AKind::Structural { skip_clock, skip_link } = kind {
                let mut compared = 0u64;
                for (id, b) in &before.clocks {
                    if Some(*id) == skip_clock {
                        continue;
                    }
                    let a = a_read_clock(&s2.est, *id);
                    compared += 1;
                    if a != *b {
                        let pos = p.clocks.iter().position(|c| c.id == *id).unwrap();
                        ctx.violation(
                            "C42:other-clock-estimate-changed",
                            format!("{} changed the estimate of untouched clock #{pos}: {} -> {}", op.code(), fmt4(b), fmt4(&a)),
                            trace(),
                        );
                    }
                }
                for (id, b) in &before.links {
                    if Some(*id) == skip_link {
                        continue;
                    }
                    let a = a_read_link(&s2.est, *id);
                    compared += 1;
                    if a != *b {
                        let pos = p.links.iter().position(|l| l.id == *id).unwrap();
                        ctx.violation(
                            "C42:other-link-delay-changed",
                            format!("{} changed the delay of untouched link #{pos}: {} -> {}", op.code(), fmt2(b), fmt2(&a)),
                            trace(),
                        );
                    }
                }
                t.add("a_unrelated_estimates_compared", compared);
                if compared > 0 {
                    t.inc("a_structural_ok_with_bystanders");
                    t.distinct(common::hash_of(&(pk, op.code())));
                }
            }
            n = Some(s2);
        }
    }
    (n, outcome)
}

fn a_succ(ctx: &Ctx, t: &mut Tally, p: &AState, level: u64) -> Vec<(u128, AState)> {
    let before = a_snap(p);
    let pk = a_key(p);
    let mut out = Vec::new();
    for op in a_leaf_ops(p, level) {
        let (_, outcome) = a_apply(ctx, t, p, pk, &before, op);
        t.inc(&outcome);
        t.inc("a_leaf_ops");
    }
    for op in a_ops(p) {
        let (n, outcome) = a_apply(ctx, t, p, pk, &before, op);
        t.inc(&outcome);
        // a failed op leaves the caller with its previous copy (the API consumes self): stutter
        match n {
            Some(n) => {
                let k = a_key(&n);
                if k != pk {
                    out.push((k, n));
                } else {
                    t.inc("a_self_loops");
                }
            }
            None => t.inc("a_self_loops"),
        }
    }
    out
}

/// Seeds: histories (applied with the same oracle) whose end states start the search, so
/// that structures needing several ops to build are explored `depth` ops further.
const A_SEEDS: &[&str] = &["", "ac,ae,al01,ac", "ae,ac,ac,al12,m0f,p+", "ac,ac,al01,p+u,p+a,m0r,p+n"];

fn a_run_hist(ctx: &Ctx, hist: &str) -> Option<AState> {
    let mut s = a_new();
    let mut t = Tally::default();
    for code in hist.split(',').filter(|c| !c.is_empty()) {
        let op = AOp::parse(code)?;
        if !a_ops(&s).contains(&op) && !a_leaf_ops(&s, 0).contains(&op) {
            return None;
        }
        let before = a_snap(&s);
        let pk = a_key(&s);
        let (n, _) = a_apply(ctx, &mut t, &s, pk, &before, op);
        match n {
            Some(n) => s = n,
            None => s.hist.push(op),
        }
    }
    t.flush(ctx);
    Some(s)
}

fn a_describe(s: &AState) -> String {
    let snap = a_snap(s);
    let mut v = vec![format!("time_raw={}", snap.time)];
    for (i, c) in s.clocks.iter().enumerate() {
        if c.ext {
            v.push(format!("clock#{i}:external"));
        } else {
            let e = snap.clocks.iter().find(|x| x.0 == c.id).unwrap();
            v.push(format!("clock#{i}:{}", fmt4(&e.1)));
        }
    }
    for (i, l) in snap.links.iter().enumerate() {
        v.push(format!("link#{i}:{}", fmt2(&l.1)));
    }
    v.join(" | ")
}

fn run_a(ctx: &Ctx, depth: u64) {
    let mut init = Vec::new();
    for h in A_SEEDS {
        let s = a_run_hist(ctx, h).expect("seed history must be executable");
        init.push((a_key(&s), s));
    }
    let sample_every = std::sync::atomic::AtomicU64::new(0);
    let ex = explore(
        ctx,
        "(a) estimator",
        init,
        &|t: &mut Tally, s: &AState, level: u64| {
            let n = sample_every.fetch_add(1, std::sync::atomic::Ordering::Relaxed);
            if n % 9973 == 500 {
                ctx.sample(format!("{} => {}", a_trace(s, None), a_describe(s)));
            }
            a_succ(ctx, t, s, level)
        },
        depth,
        common::budget_s() * 0.75, // leave at least a quarter of the budget to part (b)
    );
    ctx.add("states", ex.states);
    ctx.set("a_states", ex.states);
    ctx.set("a_depth_completed", ex.depth_done);
    ctx.note("a_states_per_level", &format!("{:?}", ex.per_level));
}

// =====================================================================================
// (b) KalmanController with a mock clock (shared with C43)
// =====================================================================================

#[derive(Clone, Copy, Debug, PartialEq)]
pub(super) enum Call {
    SetFreq { cur: f64, f: f64 },
    Step(Duration),
}

#[derive(Clone)]
struct MockInner {
    now: Timestamp<TAI>,
    freq: f64,
    max: f64,
    log: Vec<Call>,
}

/// Frozen mock clock: `now()` only changes when the harness advances it (`Prog` op) or the
/// controller steps it. Records every steering call.
#[derive(Clone)]
pub(super) struct MockClock(Arc<Mutex<MockInner>>);

impl MockClock {
    fn new(now: Timestamp<TAI>, max: f64) -> Self {
        MockClock(Arc::new(Mutex::new(MockInner { now, freq: 0.0, max, log: Vec::new() })))
    }
    fn deep(&self) -> Self {
        MockClock(Arc::new(Mutex::new(self.0.lock().unwrap().clone())))
    }
    fn advance(&self, d: Duration) {
        let mut g = self.0.lock().unwrap();
        g.now = g.now + d;
    }
    fn take_log(&self) -> Vec<Call> {
        core::mem::take(&mut self.0.lock().unwrap().log)
    }
    fn peek(&self) -> (Timestamp<TAI>, f64, f64) {
        let g = self.0.lock().unwrap();
        (g.now, g.freq, g.max)
    }
}

impl Clock for MockClock {
    fn now(&self) -> Result<Timestamp<TAI>, ClockError> {
        Ok(self.0.lock().unwrap().now)
    }
    fn set_frequency(&self, freq: f64) -> Result<Timestamp<TAI>, ClockError> {
        let mut g = self.0.lock().unwrap();
        let cur = g.freq;
        g.log.push(Call::SetFreq { cur, f: freq });
        g.freq = freq;
        Ok(g.now)
    }
    fn get_frequency(&self) -> Result<f64, ClockError> {
        Ok(self.0.lock().unwrap().freq)
    }
    fn max_frequency(&self) -> Result<f64, ClockError> {
        Ok(self.0.lock().unwrap().max)
    }
    fn step_clock(&self, offset: Duration) -> Result<Timestamp<TAI>, ClockError> {
        let mut g = self.0.lock().unwrap();
        g.log.push(Call::Step(offset));
        g.now = g.now + offset;
        Ok(g.now)
    }
    fn error_estimate_update(&self, _e: Duration, _m: Duration) -> Result<(), ClockError> {
        Ok(())
    }
    fn leap_update(&self, _l: LeapStatus) -> Result<(), ClockError> {
        Ok(())
    }
    fn synchronization_update(&self, _s: bool) -> Result<(), ClockError> {
        Ok(())
    }
}

type St = StdKalmanStorage<MockClock>;
type Ctrl = KalmanController<St, MockClock>;
type Link = KalmanLink<Arc<Ctrl>, St, MockClock>;
type Filt = LinkFilter<St>;

#[derive(Clone, Copy, PartialEq, Eq, Debug)]
enum Kind {
    Sys,
    Int,
    Ext,
}
#[derive(Clone)]
struct BClock {
    id: ClockId,
    kind: Kind,
    slot: u8,
}
struct BLink {
    h: Link,
    id: LinkId,
    tracked: bool,
    slot: u8,
}

pub(super) struct BState {
    ctrl: Arc<Ctrl>,
    clocks: Vec<BClock>,
    links: Vec<BLink>,
    unknown: ClockId,
    graveyard: Vec<ClockId>,
    hist: Vec<BOp>,
    dead: bool,
    view: Option<Arc<BView>>,
}

#[derive(Clone, Copy, Debug, PartialEq, Eq)]
pub(super) enum BOp {
    AddClock,
    AddExt,
    RemClock(Who),
    RemExt(Who),
    Tracked(Who, Who),
    Untracked(Who, Who),
    Drop(u8),
    Meas(u8, bool),
    Warm(u8),
    Prog(i8),
    /// leaf: move every mock clock by the boundary step, then one forward measurement on link k
    StepMeas(i8, u8),
    /// leaf macro: RUN_LEN x (move clocks by the negative step, forward measurement on link k)
    RunBack(i8, u8),
}

impl BOp {
    pub(super) fn code(self) -> String {
        match self {
            BOp::AddClock => "ac".into(),
            BOp::AddExt => "ae".into(),
            BOp::RemClock(w) => format!("rc{}", w.code()),
            BOp::RemExt(w) => format!("re{}", w.code()),
            BOp::Tracked(a, b) => format!("tl{}{}", a.code(), b.code()),
            BOp::Untracked(a, b) => format!("ul{}{}", a.code(), b.code()),
            BOp::Drop(k) => format!("dl{k}"),
            BOp::Meas(k, f) => format!("m{k}{}", if f { "f" } else { "r" }),
            BOp::Warm(k) => format!("w{k}"),
            BOp::Prog(d) => format!("p{}", step_code(d)),
            BOp::StepMeas(d, k) => format!("x{k}{}", step_code(d)),
            BOp::RunBack(d, k) => format!("y{k}{}", step_code(d)),
        }
    }
    fn parse(s: &str) -> Option<BOp> {
        let d = |c: &str| c.parse::<u8>().ok();
        Some(match s {
            "ac" => BOp::AddClock,
            "ae" => BOp::AddExt,
            _ if s.starts_with('p') => BOp::Prog(step_parse(&s[1..])?),
            _ if s.starts_with('x') && s.len() >= 3 => BOp::StepMeas(step_parse(&s[2..])?, d(&s[1..2])?),
            _ if s.starts_with('y') && s.len() >= 3 => BOp::RunBack(step_parse(&s[2..])?, d(&s[1..2])?),
            _ if s.starts_with("rc") => BOp::RemClock(Who::parse(&s[2..])?),
            _ if s.starts_with("re") => BOp::RemExt(Who::parse(&s[2..])?),
            _ if s.starts_with("tl") && s.len() == 4 => BOp::Tracked(Who::parse(&s[2..3])?, Who::parse(&s[3..4])?),
            _ if s.starts_with("ul") && s.len() == 4 => BOp::Untracked(Who::parse(&s[2..3])?, Who::parse(&s[3..4])?),
            _ if s.starts_with("dl") => BOp::Drop(d(&s[2..])?),
            _ if s.starts_with('w') => BOp::Warm(d(&s[1..])?),
            _ if s.starts_with('m') && s.len() == 3 => BOp::Meas(d(&s[1..2])?, &s[2..] == "f"),
            _ => return None,
        })
    }
}

const B_MAX_CLOCKS: usize = 3;
const B_MAX_LINKS: usize = 2;
const B_MAX_FREQ: [f64; 3] = [100e-6, 50e-6, 200e-6];
const B_WANDER: [f64; 3] = [1e-8, 2e-8, 3e-8];

fn b_config() -> LinkFilterConfig {
    LinkFilterConfig {
        select_offset_uncertainty_window: 2.0,
        select_link_uncertainty_window: 2.0,
        select_delay_uncertainty_window: 0.7,
        select_max_window_size: 1.0,
        minimum_agreeing_sources: 1,
    }
}

/// Measured (recv - send) seconds and timestamp uncertainty per link value-slot / direction.
/// Chosen so that the three steering branches (step, frequency unclamped, frequency
/// clamped) are all reached (counted as outcome classes).
fn b_meas(slot: u8, fwd: bool, round: u8) -> (f64, f64) {
    let r = round as f64;
    match (slot, fwd) {
        (0, true) => (0.0016 + r * 1e-5, 1e-6),
        (0, false) => (-0.0009 - r * 0.3e-5, 1e-6),
        (_, true) => (-0.0003 + r * 0.7e-5, 2e-6),
        (_, false) => (0.0011 - r * 0.2e-5, 2e-6),
    }
}

fn b_t0() -> Timestamp<TAI> {
    Timestamp::UNIX_EPOCH + Duration::from_seconds_nanos(1000, 0)
}

fn b_new() -> BState {
    let sysclock = MockClock::new(b_t0(), B_MAX_FREQ[0]);
    let (ctrl, sys) = Ctrl::new(sysclock, B_WANDER[0], b_config()).expect("controller construction");
    let mut s = BState {
        ctrl: Arc::new(ctrl),
        clocks: vec![BClock { id: sys, kind: Kind::Sys, slot: 0 }],
        links: Vec::new(),
        unknown: ClockId::new(),
        graveyard: Vec::new(),
        hist: Vec::new(),
        dead: false,
        view: None,
    };
    s.view = Some(Arc::new(b_view(&s)));
    s
}

fn clone_ctrl(c: &Ctrl) -> Ctrl {
    c.state.with_ref(|s| {
        let mut clocks: Vec<CtlClockInfo<MockClock>> = Vec::new();
        for ci in s.clocks.iter() {
            clocks.push(CtlClockInfo { id: ci.id, clock: ci.clock.deep() });
        }
        KalmanController {
            state: RwLock::new(KalmanControllerState {
                clocks,
                filter: s.filter.clone(),
                filter_config: s.filter_config.clone(),
                root_delay: s.root_delay,
            }),
        }
    })
}

fn b_clone(p: &BState) -> BState {
    let ctrl = Arc::new(clone_ctrl(&p.ctrl));
    let links = p
        .links
        .iter()
        .map(|l| BLink {
            h: KalmanLink { link_id: l.id, controller: ctrl.clone(), phantomdata: PhantomData },
            id: l.id,
            tracked: l.tracked,
            slot: l.slot,
        })
        .collect();
    BState {
        ctrl,
        clocks: p.clocks.clone(),
        links,
        unknown: p.unknown,
        graveyard: p.graveyard.clone(),
        hist: p.hist.clone(),
        dead: p.dead,
        view: None,
    }
}

fn b_filter(s: &BState) -> Filt {
    s.ctrl.state.with_ref(|st| st.filter.clone())
}

/// Everything the oracles compare, plus the de-duplication key.
pub(super) struct BView {
    key: u128,
    time: u128,
    /// internal clocks known to the harness model: offset through the PUBLIC query,
    /// frequency through the filter (the public frequency query is C43's subject)
    clocks: Vec<(ClockId, Est4)>,
    /// links: delay estimate when the link is part of the estimator state
    links: Vec<(LinkId, Option<Est2>)>,
}

fn b_read_clock(s: &BState, f: &Filt, id: ClockId) -> Est4 {
    match common::catch(|| (s.ctrl.clock_offset(id), f.clock_frequency(id))) {
        Ok((Ok(o), Ok(fr))) => {
            let (a, b) = (uv_bits(o), uv_bits(fr));
            Ok([a[0], a[1], b[0], b[1]])
        }
        Ok((o, fr)) => Err(format!(
            "offset:{} frequency:{}",
            o.as_ref().err().map(err_name).unwrap_or("ok"),
            fr.as_ref().err().map(err_name).unwrap_or("ok")
        )),
        Err(p) => Err(format!("panic {p}")),
    }
}

fn b_view(s: &BState) -> BView {
    if s.dead {
        return BView { key: 0, time: 0, clocks: Vec::new(), links: Vec::new() };
    }
    let f = b_filter(s);
    let est = pf::est(&f);
    let cpos = |id: ClockId| -> u64 {
        if let Some(p) = s.clocks.iter().position(|c| c.id == id) {
            p as u64
        } else if let Some(g) = s.graveyard.iter().position(|c| *c == id) {
            50 + g as u64
        } else {
            99
        }
    };
    let lpos = |id: LinkId| -> u64 {
        s.links.iter().position(|l| l.id == id).map(|p| p as u64).unwrap_or(99)
    };
    let mut kb = KB::default();
    raw_est_key(&mut kb, est, &cpos, &lpos);
    // filter-side link records with identifiers masked
    let est_links = pe::links(est);
    let mut links = Vec::new();
    let views = pf::links(&f);
    for v in &views {
        let mut d = v.debug.clone();
        for l in &s.links {
            d = d.replace(&format!("{:?}", l.id), &format!("L{}", lpos(l.id)));
        }
        for c in s.clocks.iter().map(|c| c.id).chain(s.graveyard.iter().copied()) {
            d = d.replace(&format!("{:?}", c), &format!("C{}", cpos(c)));
        }
        kb.u(lpos(v.id));
        kb.s(&d);
    }
    kb.sep();
    for l in &s.links {
        let in_est = est_links.iter().any(|x| x.0 == l.id);
        let delay = if in_est {
            Some(match common::catch(|| est.link_delay(l.id)) {
                Ok(Ok(d)) => Ok(uv_bits(d)),
                Ok(Err(e)) => Err(err_name(&e).to_string()),
                Err(p) => Err(format!("panic {p}")),
            })
        } else {
            None
        };
        links.push((l.id, delay));
        kb.u(l.tracked as u64);
        kb.u(l.slot as u64);
        kb.u(cpos(l.id.first_clock()));
        kb.u(cpos(l.id.second_clock()));
    }
    kb.sep();
    // controller side: steering list, mock clocks, root delay
    s.ctrl.state.with_ref(|st| {
        for ci in st.clocks.iter() {
            let (now, fr, mx) = ci.clock.peek();
            kb.u(cpos(ci.id));
            kb.u128(ts_raw(now));
            kb.f(fr);
            kb.f(mx);
        }
        kb.u128(dur_raw(st.root_delay) as u128);
    });
    kb.sep();
    for c in &s.clocks {
        kb.u(c.kind as u64);
        kb.u(c.slot as u64);
    }
    kb.u(s.graveyard.len().min(1) as u64);
    let clocks = s
        .clocks
        .iter()
        .filter(|c| c.kind != Kind::Ext)
        .map(|c| (c.id, b_read_clock(s, &f, c.id)))
        .collect();
    BView { key: kb.finish(), time: ts_raw(est.current_time()), clocks, links }
}

fn b_ops(s: &BState) -> Vec<BOp> {
    let n = s.clocks.len() as u8;
    let l = s.links.len() as u8;
    let mut v = Vec::new();
    if (n as usize) < B_MAX_CLOCKS {
        v.push(BOp::AddClock);
        v.push(BOp::AddExt);
    }
    for p in 0..n {
        v.push(BOp::RemClock(Who::P(p)));
        v.push(BOp::RemExt(Who::P(p)));
    }
    v.push(BOp::RemClock(Who::Unknown));
    v.push(BOp::RemExt(Who::Unknown));
    if !s.graveyard.is_empty() {
        v.push(BOp::RemClock(Who::Stale));
        v.push(BOp::RemExt(Who::Stale));
    }
    if (l as usize) < B_MAX_LINKS {
        for i in 0..n {
            for j in 0..n {
                if i != j {
                    v.push(BOp::Tracked(Who::P(i), Who::P(j)));
                    v.push(BOp::Untracked(Who::P(i), Who::P(j)));
                }
            }
        }
        v.push(BOp::Tracked(Who::P(0), Who::P(0)));
        v.push(BOp::Untracked(Who::P(0), Who::P(0)));
        v.push(BOp::Tracked(Who::P(0), Who::Unknown));
        v.push(BOp::Untracked(Who::Unknown, Who::P(0)));
    }
    for k in 0..l {
        v.push(BOp::Drop(k));
        v.push(BOp::Meas(k, true));
        v.push(BOp::Meas(k, false));
        if s.links[k as usize].tracked {
            v.push(BOp::Warm(k));
        }
    }
    v.push(BOp::Prog(0));
    v.push(BOp::Prog(1));
    v.push(BOp::Prog(-1));
    v
}

/// Ops evaluated with the oracle on every expanded state whose successors are not enqueued
/// (boundary time steps occupy only the last "time" position of a word; the backward runs
/// are tried from every state of BFS level <= run_levels()). Only for C42.
fn b_leaf_ops(s: &BState, level: u64) -> Vec<BOp> {
    let mut v = Vec::new();
    if s.links.is_empty() {
        return v;
    }
    for c in 2..=STEP_MAX {
        v.push(BOp::StepMeas(c, 0));
        v.push(BOp::StepMeas(-c, 0));
    }
    if level <= run_levels() {
        v.push(BOp::RunBack(-2, 0));
        v.push(BOp::RunBack(-3, 0));
    }
    v
}

pub(super) fn b_trace(s: &BState, op: Option<BOp>) -> String {
    let mut v: Vec<String> = s.hist.iter().map(|o| o.code()).collect();
    if let Some(o) = op {
        v.push(o.code());
    }
    format!("b;{}", v.join(","))
}

#[derive(Clone, Copy)]
pub(super) struct Which {
    pub c42: bool,
    pub c43: bool,
}

fn ulp(x: f64) -> f64 {
    let x = x.abs();
    if !x.is_finite() {
        return f64::NAN;
    }
    f64::from_bits(x.to_bits() + 1) - x
}

/// One measurement through the public `KalmanLink::measurement`, with the C43 steering
/// oracle (twin filter = clone of the filter taken through the crate-root view, advanced
/// with the same progress + measurement but NOT steered = the pre-steer estimate) and the
/// C42 failure / time oracles. Returns Ok(()) / the error name.
fn b_measure(
    ctx: &Ctx,
    t: &mut Tally,
    w: Which,
    n: &mut BState,
    k: usize,
    fwd: bool,
    round: u8,
    before: Arc<BView>,
    trace: &dyn Fn() -> String,
) -> (Result<(), String>, Arc<BView>) {
    let link_id = n.links[k].id;
    let (val, unc) = b_meas(n.links[k].slot, fwd, round);
    let send = b_t0();
    let m = Measurement {
        send_timestamp: send,
        recv_timestamp: send + Duration::from_f64_seconds(val),
        uncertainty: Duration::from_f64_seconds(unc),
    };
    let dir = if fwd { Direction::Forward } else { Direction::Reverse };
    // pre-state
    let pre_filter = b_filter(n);
    let (steered, sys_now): (Vec<(ClockId, MockClock)>, Timestamp<TAI>) = n.ctrl.state.with_ref(|st| {
        (
            st.clocks.iter().map(|c| (c.id, c.clock.clone())).collect(),
            st.clocks[0].clock.peek().0,
        )
    });
    for (_, c) in &steered {
        c.take_log();
    }
    // twin: what the controller does up to (excluding) the steering
    let uv = UncertainValue {
        value: (m.recv_timestamp - m.send_timestamp).as_seconds(),
        uncertainty: m.uncertainty.as_seconds(),
    };
    let cfg = b_config();
    let twin: Result<Result<Filt, AlgoError>, String> = common::catch(|| {
        let f = pre_filter.clone().progress_time(sys_now)?;
        f.measurement(&cfg, statime_base::DirectedLinkId::new(link_id, dir), uv)
    });
    // the real call
    let real = common::catch(|| n.links[k].h.measurement(m, dir));
    t.inc("b_transitions");
    let real = match real {
        Err(p) => {
            n.dead = true;
            let class = if w.c42 { "C42:panic-in-controller" } else { "C43:panic-in-controller" };
            ctx.violation(class, format!("KalmanLink::measurement panicked: {p}"), trace());
            return (Err("panic".into()), Arc::new(b_view(n)));
        }
        Ok(r) => r,
    };
    let logs: Vec<(ClockId, MockClock, Vec<Call>)> =
        steered.into_iter().map(|(id, c)| { let l = c.take_log(); (id, c, l) }).collect();
    let after = Arc::new(b_view(n));
    match &real {
        Err(e) => {
            t.inc(&format!("b_meas_rej:{}", err_name(e)));
            let backwards = dur_raw(sys_now - pre_filter_time(&pre_filter)) < 0;
            if w.c42 {
                if backwards {
                    t.inc("b_backward_progress_rejected");
                    t.distinct(common::hash_of(&(before.key, "back")));
                    let ok = matches!(e, AlgoError::NonMonotonicTimeProgression { from, to }
                        if ts_raw(*from) == before.time && *to == sys_now);
                    if !ok {
                        ctx.violation(
                            "C42:backward-progress-wrong-error",
                            format!("measurement with the system clock behind the estimator failed with {} instead of NonMonotonicTimeProgression{{from=estimator time,to=clock}}", err_name(e)),
                            trace(),
                        );
                    }
                    if after.key != before.key {
                        ctx.violation(
                            "C42:failed-progress-altered-state",
                            "a rejected backward progression changed the controller/filter state".to_string(),
                            trace(),
                        );
                    }
                } else {
                    // a failing measurement may keep the (legitimate) time progression that
                    // precedes it, nothing else
                    let expect_key = {
                        let mut x = b_clone(n);
                        // b_clone copied the post-state; rebuild the expected one from the pre filter
                        let prog = common::catch(|| pre_filter.clone().progress_time(sys_now));
                        if let Ok(Ok(pf2)) = prog {
                            x.ctrl.state.with_mut(|st| st.filter = pf2);
                            Some(b_view(&x).key)
                        } else {
                            None
                        }
                    };
                    if let Some(k2) = expect_key {
                        t.inc("b_failed_measurement_compared");
                        if k2 != after.key {
                            ctx.violation(
                                "C42:failed-op-altered-state",
                                format!("measurement failed with {} but left a state different from 'time progressed only'", err_name(e)),
                                trace(),
                            );
                        }
                    }
                }
            }
            if w.c43 {
                if logs.iter().any(|(_, _, l)| !l.is_empty()) {
                    ctx.violation(
                        "C43:steered-without-estimate-update",
                        format!("measurement failed with {} after the controller had already steered a clock", err_name(e)),
                        trace(),
                    );
                }
            }
            return (Err(err_name(e).to_string()), after);
        }
        Ok(()) => {}
    }
    t.inc("b_meas_ok");
    if w.c42 && dur_raw(sys_now - pre_filter_time(&pre_filter)) < 0 {
        ctx.violation(
            "C42:backward-progress-accepted",
            "measurement succeeded although the system clock was behind the estimator time (a progression to an earlier time must fail)".to_string(),
            trace(),
        );
    }
    // ---- C42: time never decreases except by the absorbed system-clock step
    let sys_step: i128 = logs[0].2.iter().map(|c| if let Call::Step(d) = c { dur_raw(*d) } else { 0 }).sum();
    if w.c42 {
        let adj = after.time as i128 - sys_step;
        if adj < before.time as i128 {
            ctx.violation(
                "C42:time-decreased",
                format!("estimator time raw {} -> {} (system-clock step {} excluded)", before.time, after.time, sys_step),
                trace(),
            );
        }
        if sys_step != 0 {
            t.inc("b_system_clock_step_time_shift_excluded");
        }
    }
    // ---- C43: steering oracle
    if w.c43 {
        let twin = match twin {
            Ok(Ok(f)) => f,
            other => {
                ctx.violation(
                    "C43:twin-divergence",
                    format!("harness twin of progress+measurement failed ({}) while the real call succeeded", match other { Ok(Err(e)) => err_name(&e).to_string(), Err(p) => p, _ => String::new() }),
                    trace(),
                );
                return (Ok(()), after);
            }
        };
        let post = b_filter(n);
        for (idx, (id, clock, log)) in logs.iter().enumerate() {
            let (_, _, max) = clock.peek();
            let pre_o = twin.clock_offset(*id).map(|v| v.value);
            let pre_f = twin.clock_frequency(*id).map(|v| v.value);
            let post_o = post.clock_offset(*id).map(|v| v.value);
            let post_f = post.clock_frequency(*id).map(|v| v.value);
            let (Ok(pre_o), Ok(pre_f), Ok(post_o), Ok(post_f)) = (pre_o, pre_f, post_o, post_f) else {
                ctx.violation("C43:steered-clock-unknown-to-filter", format!("steered clock #{idx} has no estimate"), trace());
                continue;
            };
            let mut step = 0.0f64;
            let mut dfreq = 0.0f64;
            let mut nstep = 0;
            let mut nfreq = 0;
            for c in log {
                match c {
                    Call::Step(d) => {
                        step += d.as_seconds();
                        nstep += 1;
                        if dur_raw(*d) == 0 { t.inc("b_steer:step_zero") } else { t.inc("b_steer:step_nonzero") }
                    }
                    Call::SetFreq { cur, f } => {
                        dfreq += f - cur;
                        nfreq += 1;
                        t.inc("c43_set_frequency_calls");
                        if !(f.abs() <= max) {
                            ctx.violation(
                                "C43:frequency-exceeds-max",
                                format!("set_frequency({f:e}) on clock #{idx} whose max_frequency is {max:e}"),
                                trace(),
                            );
                        }
                        if f.abs() == max { t.inc("b_steer:freq_clamped") } else { t.inc("b_steer:freq_unclamped") }
                    }
                }
            }
            if nstep + nfreq == 0 {
                t.inc("b_steer:none");
            }
            // estimate change == applied change; 2^-64 s = resolution of the Duration the
            // step is handed to the clock in
            let q = if nstep > 0 { 1.0 / 18446744073709551616.0 } else { 0.0 };
            let tol_o = 4.0 * ulp(pre_o.abs().max(post_o.abs()).max(step.abs())) + q;
            let tol_f = 4.0 * ulp(pre_f.abs().max(post_f.abs()).max(dfreq.abs()));
            t.inc("c43_steer_checks");
            if nstep + nfreq > 0 && (step != 0.0 || dfreq != 0.0) {
                t.distinct(common::hash_of(&(before.key, idx as u64, "steer")));
            }
            if !(((post_o - pre_o) - step).abs() <= tol_o) {
                ctx.violation(
                    "C43:offset-estimate-vs-step",
                    format!("clock #{idx}: stepped by {step:e} s but own offset estimate went {pre_o:e} -> {post_o:e} (change {:e})", post_o - pre_o),
                    trace(),
                );
            }
            if !(((post_f - pre_f) - dfreq).abs() <= tol_f) {
                ctx.violation(
                    "C43:frequency-estimate-vs-steer",
                    format!("clock #{idx}: frequency changed by {dfreq:e} but own frequency estimate went {pre_f:e} -> {post_f:e} (change {:e})", post_f - pre_f),
                    trace(),
                );
            }
        }
    }
    (Ok(()), after)
}

fn pre_filter_time(f: &Filt) -> Timestamp<TAI> {
    pf::est(f).current_time()
}

/// C43 query oracle on one state: the public `clock_frequency` must report the filter's
/// frequency estimate, and that estimate must be the rate at which the offset estimate
/// moves when only time passes (independent meaning of "frequency").
fn c43_queries(ctx: &Ctx, t: &mut Tally, n: &BState, trace: &dyn Fn() -> String) {
    let f = b_filter(n);
    for (idx, c) in n.clocks.iter().enumerate() {
        if c.kind == Kind::Ext {
            continue;
        }
        let (Ok(q), Ok(reff), Ok(refo)) = (n.ctrl.clock_frequency(c.id), f.clock_frequency(c.id), f.clock_offset(c.id)) else {
            ctx.violation("C43:frequency-query-failed", format!("clock #{idx}: frequency/offset query failed for a known clock"), trace());
            continue;
        };
        t.inc("c43_frequency_queries");
        let (qb, fb, ob) = (uv_bits(q), uv_bits(reff), uv_bits(refo));
        if fb != ob {
            t.inc("c43_frequency_queries_where_offset_differs");
            t.distinct(common::hash_of(&(fb, ob, idx as u64)));
        }
        if fb[0] != ob[0] {
            t.inc("c43_frequency_queries_where_offset_value_differs");
        }
        if qb != fb {
            let class = if qb == ob { "C43:frequency-query-returns-offset" } else { "C43:frequency-query-wrong" };
            ctx.violation(
                class,
                format!(
                    "clock #{idx}: clock_frequency() = {:e}±{:e}, filter frequency estimate = {:e}±{:e}, offset estimate = {:e}±{:e}",
                    q.value, q.uncertainty, reff.value, reff.uncertainty, refo.value, refo.uncertainty
                ),
                trace(),
            );
        }
        // semantic cross-check of the reference itself
        let t1 = pre_filter_time(&f) + Duration::from_seconds_nanos(1, 0);
        if let Ok(Ok(g)) = common::catch(|| f.clone().progress_time(t1)) {
            if let Ok(o1) = g.clock_offset(c.id) {
                let d = o1.value - refo.value;
                let tol = 4.0 * ulp(o1.value.abs().max(refo.value.abs()).max(reff.value.abs()));
                t.inc("c43_frequency_is_offset_rate_checks");
                if !((d - reff.value).abs() <= tol) {
                    ctx.violation(
                        "C43:frequency-estimate-not-offset-rate",
                        format!("clock #{idx}: offset estimate moves by {d:e} in 1 s but the filter's frequency estimate is {:e}", reff.value),
                        trace(),
                    );
                }
            }
        }
    }
}

pub(super) fn b_apply(ctx: &Ctx, t: &mut Tally, w: Which, p: &BState, op: BOp) -> BState {
    let mut n = b_clone(p);
    n.hist.push(op);
    let before: Arc<BView> = p.view.clone().expect("parent view");
    let trace = || b_trace(p, Some(op));
    let who = |x: Who| -> ClockId {
        match x {
            Who::P(i) => p.clocks[i as usize].id,
            Who::Unknown => p.unknown,
            Who::Stale => *p.graveyard.last().unwrap_or(&p.unknown),
        }
    };
    let in_use = |id: ClockId| p.links.iter().any(|l| l.id.contains_clock(id));
    let mut expect = Expect::Any;
    let mut skip_clock: Option<ClockId> = None;
    let mut skip_link: Option<LinkId> = None;
    let mut structural = true;
    let mut meas_view: Option<Arc<BView>> = None;
    // result: Ok(true)=succeeded, Ok(false)+name = rejected
    let mut outcome: Result<Result<(), AlgoError>, String> = Ok(Ok(()));
    match op {
        BOp::AddClock => {
            let slot = free_slot(p.clocks.iter().map(|c| c.slot));
            let now = p.ctrl.state.with_ref(|st| st.clocks[0].clock.peek().0);
            let mock = MockClock::new(now, B_MAX_FREQ[slot as usize]);
            match common::catch(|| n.ctrl.add_clock(mock, B_WANDER[slot as usize])) {
                Ok(Ok(id)) => {
                    n.clocks.push(BClock { id, kind: Kind::Int, slot });
                    skip_clock = Some(id);
                }
                Ok(Err(e)) => outcome = Ok(Err(e)),
                Err(pn) => outcome = Err(pn),
            }
        }
        BOp::AddExt => {
            let slot = free_slot(p.clocks.iter().map(|c| c.slot));
            match common::catch(|| n.ctrl.add_external_clock()) {
                Ok(Ok(id)) => {
                    n.clocks.push(BClock { id, kind: Kind::Ext, slot });
                    skip_clock = Some(id);
                }
                Ok(Err(e)) => outcome = Ok(Err(e)),
                Err(pn) => outcome = Err(pn),
            }
        }
        BOp::RemClock(x) => {
            let id = who(x);
            let kind = if let Who::P(i) = x { Some(p.clocks[i as usize].kind) } else { None };
            match kind {
                Some(Kind::Int) => skip_clock = Some(id),
                Some(Kind::Sys) => {}
                _ => expect = Expect::FailUnknown,
            }
            match common::catch(|| n.ctrl.remove_clock(id)) {
                Ok(Ok(())) => {
                    if expect == Expect::Any {
                        n.clocks.retain(|c| c.id != id);
                        n.graveyard.push(id);
                    }
                    if kind == Some(Kind::Sys) {
                        t.inc("b_system_clock_removed");
                    }
                    if in_use(id) {
                        t.inc("b_in_use_clock_removed");
                    }
                }
                Ok(Err(e)) => outcome = Ok(Err(e)),
                Err(pn) => outcome = Err(pn),
            }
        }
        BOp::RemExt(x) => {
            let id = who(x);
            let kind = if let Who::P(i) = x { Some(p.clocks[i as usize].kind) } else { None };
            if kind == Some(Kind::Ext) {
                skip_clock = Some(id);
            } else {
                expect = Expect::FailUnknown;
            }
            match common::catch(|| n.ctrl.remove_external_clock(id)) {
                Ok(Ok(())) => {
                    if expect == Expect::Any {
                        n.clocks.retain(|c| c.id != id);
                        n.graveyard.push(id);
                        if in_use(id) {
                            t.inc("b_in_use_external_removed");
                        }
                    }
                }
                Ok(Err(e)) => outcome = Ok(Err(e)),
                Err(pn) => outcome = Err(pn),
            }
        }
        BOp::Tracked(a, b) | BOp::Untracked(a, b) => {
            let (ia, ib) = (who(a), who(b));
            if a == Who::Unknown || b == Who::Unknown {
                expect = Expect::FailUnknown;
            }
            let tracked = matches!(op, BOp::Tracked(..));
            let slot = free_slot(p.links.iter().map(|l| l.slot));
            let arc = n.ctrl.clone();
            let r = common::catch(move || {
                if tracked {
                    Ctrl::create_tracked_link(arc, ia, ib, 0.01 * (slot as f64 + 1.0))
                } else {
                    Ctrl::create_untracked_link(arc, ia, ib)
                }
            });
            match r {
                Ok(Ok(h)) => {
                    let id = h.link_id;
                    skip_link = Some(id);
                    let ext = [a, b].iter().any(|x| matches!(x, Who::P(i) if p.clocks[*i as usize].kind == Kind::Ext));
                    if ext {
                        let rd = Duration::from_f64_seconds(0.01 * (slot as f64 + 1.0));
                        if let Ok(Err(e)) | Ok(Err(e)) = common::catch(|| h.external_data_update(rd, None, true)).map(|r| r) {
                            t.inc(&format!("b_external_data_update_rej:{}", err_name(&e)));
                        }
                    }
                    if expect == Expect::Any {
                        n.links.push(BLink { h, id, tracked, slot });
                    }
                }
                Ok(Err(e)) => outcome = Ok(Err(e)),
                Err(pn) => outcome = Err(pn),
            }
        }
        BOp::Drop(k) => {
            let l = n.links.remove(k as usize);
            skip_link = Some(l.id);
            if let Err(pn) = common::catch(move || drop(l.h)) {
                outcome = Err(pn);
            }
        }
        BOp::Meas(k, fwd) => {
            structural = false;
            let (r, v) = b_measure(ctx, t, w, &mut n, k as usize, fwd, 0, before.clone(), &trace);
            meas_view = Some(v);
            t.inc(&format!("b_out:meas:{}", r.err().unwrap_or_else(|| "ok".into())));
        }
        BOp::Warm(k) => {
            structural = false;
            for r in 0..4u8 {
                for fwd in [true, false] {
                    if n.dead {
                        break;
                    }
                    let bv = meas_view.clone().unwrap_or_else(|| before.clone());
                    let (_, v) = b_measure(ctx, t, w, &mut n, k as usize, fwd, r, bv, &trace);
                    meas_view = Some(v);
                }
            }
            t.inc("b_out:warm");
        }
        BOp::Prog(dt) => {
            structural = false;
            let d = step_dur(dt);
            n.ctrl.state.with_ref(|st| {
                for c in st.clocks.iter() {
                    c.clock.advance(d);
                }
            });
            t.inc("b_mock_time_moves");
        }
        BOp::StepMeas(dt, k) => {
            structural = false;
            let d = step_dur(dt);
            n.ctrl.state.with_ref(|st| {
                for c in st.clocks.iter() {
                    c.clock.advance(d);
                }
            });
            let moved = Arc::new(b_view(&n));
            let (r, v) = b_measure(ctx, t, w, &mut n, k as usize, true, 0, moved, &trace);
            meas_view = Some(v);
            t.inc(&format!("b_out:stepmeas{}:{}", if dt < 0 { "-" } else { "+" }, r.err().unwrap_or_else(|| "ok".into())));
        }
        BOp::RunBack(dt, k) => {
            structural = false;
            let d = step_dur(dt);
            let link_id = n.links[k as usize].id;
            let (val, unc) = b_meas(n.links[k as usize].slot, true, 0);
            let m = Measurement {
                send_timestamp: b_t0(),
                recv_timestamp: b_t0() + Duration::from_f64_seconds(val),
                uncertainty: Duration::from_f64_seconds(unc),
            };
            let _ = link_id;
            let start = ts_raw(pre_filter_time(&b_filter(&n)));
            let key_before_run = before.key;
            let nn = &n;
            let r = common::catch(|| {
                let mut accepted = 0u32; // accepted although the clock was behind the estimator
                let mut wrong = 0u32; // clock behind, failed with another error
                let mut forward = 0u32; // clock not behind (legitimate progression), any result
                for _ in 0..RUN_LEN {
                    let now = nn.ctrl.state.with_ref(|st| {
                        for c in st.clocks.iter() {
                            c.clock.advance(d);
                        }
                        st.clocks[0].clock.peek().0
                    });
                    let est_t = nn.ctrl.state.with_ref(|st| pf::est(&st.filter).current_time());
                    let backward = dur_raw(now - est_t) < 0;
                    let r = nn.links[k as usize].h.measurement(m, Direction::Forward);
                    if !backward {
                        forward += 1;
                        continue;
                    }
                    match r {
                        Ok(()) => accepted += 1,
                        Err(AlgoError::NonMonotonicTimeProgression { from, to }) if from == est_t && to == now => {}
                        Err(_) => wrong += 1,
                    }
                }
                (accepted, wrong, forward)
            });
            t.add("b_transitions", RUN_LEN as u64);
            t.inc("b_backward_runs");
            match r {
                Err(pn) => outcome = Err(pn),
                Ok((accepted, wrong, forward)) => {
                    let end = ts_raw(pre_filter_time(&b_filter(&n)));
                    // only meaningful when the clock was not already ahead of the estimator by
                    // more than the whole run (it never is: steps are <= 1e-14 s in total)
                    if w.c42 {
                        if accepted > 0 {
                            ctx.violation(
                                "C42:backward-progress-accepted",
                                format!("{accepted} of {RUN_LEN} measurements, each after moving the system clock back by {} (raw {}), were accepted; estimator time raw {start} -> {end} ({} units back)", step_code(dt), dur_raw(d), start as i128 - end as i128),
                                trace(),
                            );
                        } else {
                            t.add("b_backward_progress_rejected", (RUN_LEN - forward - wrong) as u64);
                            t.distinct(common::hash_of(&(key_before_run, op.code())));
                            if forward == 0 && end != start {
                                ctx.violation(
                                    "C42:failed-progress-altered-state",
                                    format!("all {RUN_LEN} backward progressions were rejected but the estimator time moved raw {start} -> {end}"),
                                    trace(),
                                );
                            }
                        }
                        if wrong > 0 {
                            ctx.violation(
                                "C42:backward-progress-wrong-error",
                                format!("{wrong} of {RUN_LEN} measurements with the clock behind the estimator failed with something other than NonMonotonicTimeProgression{{from=estimator time,to=clock}}"),
                                trace(),
                            );
                        }
                        if forward > 0 {
                            t.add("b_backward_run_forward_steps", forward as u64);
                        }
                    }
                }
            }
        }
    }
    if structural {
        t.inc("b_transitions");
    }
    if let Err(pn) = &outcome {
        n.dead = true;
        let class = if w.c42 { "C42:panic-in-controller" } else { "C43:panic-in-controller" };
        ctx.violation(class, format!("controller op {} panicked: {pn}", op.code()), trace());
        n.view = Some(Arc::new(b_view(&n)));
        return n;
    }
    if n.dead {
        n.view = Some(Arc::new(b_view(&n)));
        return n;
    }
    let after: Arc<BView> = match meas_view {
        Some(v) => v,
        None => Arc::new(b_view(&n)),
    };
    if structural {
        let rejected = matches!(outcome, Ok(Err(_)));
        if let Ok(Err(e)) = &outcome {
            t.inc(&format!("b_out:{}:rej:{}", &op.code()[..2], err_name(e)));
        } else {
            t.inc(&format!("b_out:{}:ok", &op.code()[..2]));
        }
        if w.c42 {
            if expect == Expect::FailUnknown {
                if rejected {
                    t.inc("b_unknown_id_rejected");
                    t.distinct(common::hash_of(&(before.key, op.code())));
                    if after.key != before.key {
                        ctx.violation(
                            "C42:failed-op-altered-state",
                            format!("{} on an unknown/stale/wrong-kind identifier failed but changed the controller state", op.code()),
                            trace(),
                        );
                    }
                } else {
                    ctx.violation(
                        "C42:unknown-id-accepted",
                        format!("controller op {} on an unknown/stale/wrong-kind identifier succeeded", op.code()),
                        trace(),
                    );
                }
            }
            if after.time < before.time {
                ctx.violation(
                    "C42:time-decreased",
                    format!("estimator time raw {} -> {} on {}", before.time, after.time, op.code()),
                    trace(),
                );
            }
            let mut compared = 0u64;
            for (id, b) in &before.clocks {
                if Some(*id) == skip_clock {
                    continue;
                }
                compared += 1;
                let a = after.clocks.iter().find(|x| x.0 == *id).map(|x| x.1.clone()).unwrap_or(Err("gone".into()));
                if a != *b {
                    let pos = p.clocks.iter().position(|c| c.id == *id).unwrap();
                    ctx.violation(
                        "C42:other-clock-estimate-changed",
                        format!("{} changed the estimate of untouched clock #{pos}: {} -> {}", op.code(), fmt4(b), fmt4(&a)),
                        trace(),
                    );
                }
            }
            for (id, b) in &before.links {
                if Some(*id) == skip_link {
                    continue;
                }
                compared += 1;
                let a = after.links.iter().find(|x| x.0 == *id).map(|x| x.1.clone()).unwrap_or(Some(Err("gone".into())));
                if a != *b {
                    let pos = p.links.iter().position(|l| l.id == *id).unwrap();
                    let sh = |x: &Option<Est2>| x.as_ref().map(fmt2).unwrap_or_else(|| "not in estimator".into());
                    ctx.violation(
                        "C42:other-link-delay-changed",
                        format!("{} changed the delay of untouched link #{pos}: {} -> {}", op.code(), sh(b), sh(&a)),
                        trace(),
                    );
                }
                if b.is_some() {
                    t.inc("b_bystander_link_delays_compared");
                }
            }
            t.add("b_unrelated_estimates_compared", compared);
            if compared > 1 && !rejected {
                t.inc("b_structural_ok_with_bystanders");
                t.distinct(common::hash_of(&(before.key, op.code())));
            }
        }
    }
    if w.c43 {
        c43_queries(ctx, t, &n, &trace);
    }
    n.view = Some(after);
    n
}

fn b_succ(ctx: &Ctx, t: &mut Tally, w: Which, p: &BState, level: u64) -> Vec<(u128, BState)> {
    let pk = p.view.as_ref().unwrap().key;
    let mut out = Vec::new();
    if w.c42 {
        for op in b_leaf_ops(p, level) {
            let _ = b_apply(ctx, t, w, p, op);
            t.inc("b_leaf_ops");
        }
    }
    for op in b_ops(p) {
        let n = b_apply(ctx, t, w, p, op);
        if n.dead {
            t.inc("b_dead_states");
            continue;
        }
        let k = n.view.as_ref().unwrap().key;
        if k != pk {
            out.push((k, n));
        } else {
            t.inc("b_self_loops");
        }
    }
    out
}

const B_SEEDS: &[&str] = &["", "ae,tl10,w0", "ac,tl01,w0"];

pub(super) fn b_run_hist(ctx: &Ctx, w: Which, hist: &str) -> Option<BState> {
    let mut s = b_new();
    let mut t = Tally::default();
    if w.c43 && hist.is_empty() {
        c43_queries(ctx, &mut t, &s, &|| "b;".to_string());
    }
    for code in hist.split(',').filter(|c| !c.is_empty()) {
        let op = BOp::parse(code)?;
        if s.dead || (!b_ops(&s).contains(&op) && !b_leaf_ops(&s, 0).contains(&op)) {
            return None;
        }
        s = b_apply(ctx, &mut t, w, &s, op);
    }
    t.flush(ctx);
    Some(s)
}

pub(super) fn b_describe(s: &BState) -> String {
    if s.dead {
        return "dead (panic poisoned the controller)".into();
    }
    let v = s.view.as_ref().unwrap();
    let mut out = vec![format!("time_raw={}", v.time)];
    for (i, c) in s.clocks.iter().enumerate() {
        match c.kind {
            Kind::Ext => out.push(format!("clock#{i}:external")),
            _ => {
                let e = v.clocks.iter().find(|x| x.0 == c.id).unwrap();
                let q = s.ctrl.clock_frequency(c.id).map(|q| format!("{:e}±{:e}", q.value, q.uncertainty)).unwrap_or_else(|e| err_name(&e).into());
                out.push(format!("clock#{i}:{} public_clock_frequency={q}", fmt4(&e.1)));
            }
        }
    }
    for (i, l) in v.links.iter().enumerate() {
        out.push(format!("link#{i}:{}", l.1.as_ref().map(fmt2).unwrap_or_else(|| "not in estimator".into())));
    }
    s.ctrl.state.with_ref(|st| {
        for (i, c) in st.clocks.iter().enumerate() {
            let (now, f, m) = c.clock.peek();
            out.push(format!("mock#{i}:now_raw={} freq={f:e} max={m:e}", ts_raw(now)));
        }
    });
    out.join(" | ")
}

pub(super) fn run_b(ctx: &Ctx, w: Which, depth: u64) {
    let mut init = Vec::new();
    for h in B_SEEDS {
        let s = b_run_hist(ctx, w, h).expect("seed history must be executable");
        init.push((s.view.as_ref().unwrap().key, s));
    }
    let counter = std::sync::atomic::AtomicU64::new(0);
    let ex = explore(
        ctx,
        "(b) controller",
        init,
        &|t: &mut Tally, s: &BState, level: u64| {
            let n = counter.fetch_add(1, std::sync::atomic::Ordering::Relaxed);
            if n % 4999 == 700 {
                ctx.sample(format!("{} => {}", b_trace(s, None), b_describe(s)));
            }
            b_succ(ctx, t, w, s, level)
        },
        depth,
        common::budget_s(),
    );
    ctx.add("states", ex.states);
    ctx.set("b_states", ex.states);
    ctx.set("b_depth_completed", ex.depth_done);
    ctx.note("b_states_per_level", &format!("{:?}", ex.per_level));
}

// =====================================================================================
// replay + check
// =====================================================================================

fn replay(ctx: &Ctx, trace: &str) -> String {
    let (which, hist) = trace.split_once(';').unwrap_or(("?", ""));
    match which {
        "a" => match a_run_hist(ctx, hist) {
            Some(s) => a_describe(&s),
            None => "unparseable or inapplicable trace".into(),
        },
        "b" => match b_run_hist(ctx, Which { c42: true, c43: false }, hist) {
            Some(s) => b_describe(&s),
            None => "unparseable or inapplicable trace".into(),
        },
        _ => "unknown trace kind".into(),
    }
}

#[test]
fn check() {
    let ctx = Ctx::new("C42");
    if let Some(t) = common::replay_trace() {
        let a = replay(&ctx, &t);
        let b = replay(&ctx, &t);
        common::report_replay("C42", &a, &b, ctx.violation_count() > 0);
        return;
    }
    let (da, db) = if ctx.quick() { (5, 6) } else { (6, 8) };
    ctx.rule(&format!(
        "BFS over op sequences applied to clones of the real objects, de-duplicated on exact f64 bits + structure \
         (ids masked by creation position). (a) EstimatorState: ops {{add clock, add external, re-add existing id (as clock / as external), \
         remove clock / external (present, wrong kind, unknown, stale), add link (every ordered pair), add link with existing id, \
         add link with unknown endpoint, remove link (present, unknown, stale), measurement over a link (both directions, also over an orphaned link), \
         link-less measurement (every ordered pair), measurement with unknown link / unknown clock, progress dt in {{0,+1s}} and every backward step of T={{1 unit=2^-64s,1e-17s,1e-12s,1ns,1s,2^40s}}}}, <=3 clocks, <=2 links, \
         depth {da} after each of {} seed histories. (b) KalmanController + KalmanLink + mock clock: ops {{add clock, add external, remove clock/external \
         (each present id incl. system clock, in-use, wrong kind, unknown, stale), create tracked/untracked link (every ordered pair, self, unknown endpoint, both external), \
         drop link, measurement (both directions), warm (4 round trips = 8 measurements), clock time moves dt in {{0,+1s,-1s}}}}, <=3 clocks, <=2 links, depth {db} after each of {} seeds. \
         Time-boundary symbols restricted to the last position of a word (evaluated on every expanded state, successors not enqueued): (a) progress by +t for t in T\\{{1s}}, (b) move clocks by +-t then measure link 0; \
         derived macro on every state of BFS level <=2 (quick) / <=3 (thorough): 1000 consecutive backward steps of 1 unit and of 1e-17 s ((b): clock moved back + measurement each time), exact time compared at the end. \
         Non-trivial & distinct = (state, op) where a structural op succeeded with at least one bystander estimate compared, or an unknown/duplicate/backward op was rejected.",
        A_SEEDS.len(),
        B_SEEDS.len()
    ));
    ctx.assume("initial values / measurement values are one fixed pairwise-distinct alphabet (not all of R)");
    ctx.assume("time steps: boundary alphabet {0, +-2^-64 s, +-1e-17 s, +-1e-12 s, +-1 ns, +-1 s, +-2^40 s}, estimator time read back exactly (u128 in 2^-64 s)");
    ctx.assume("128-bit hash of the canonical state key stands for the key (collision probability negligible)");
    ctx.assume("(a) the estimator API consumes self, so 'fails without altering' reduces to 'fails' there; the unaltered-state check is done on the controller (b), whose whole probe-visible state + mock clocks form the key");
    ctx.assume("a failing measurement may keep the time progression that precedes it (KalmanLink::measurement commits the progression first); anything beyond that is reported");
    ctx.assume("removing an in-use clock, the system clock, self links and both-external links are outside 'unknown or duplicate identifiers': only the bystander oracle applies to them");
    run_a(&ctx, da);
    run_b(&ctx, Which { c42: true, c43: false }, db);
    let tr = ctx.get("a_transitions") + ctx.get("b_transitions");
    ctx.set("transitions", tr);
    ctx.set("evaluations", ctx.get("a_unrelated_estimates_compared") + ctx.get("b_unrelated_estimates_compared") + tr);
    ctx.exhaustive(ctx.get("a_depth_completed") == da && ctx.get("b_depth_completed") == db);
    ctx.finish();
}
