//! C43 — The PTP clock controller reports and steers consistently.
//!
//! Same explicit-state exploration of `KalmanController` + `KalmanLink` + mock clock as
//! C42 part (b) (the machinery lives in `c42.rs`), with the C43 oracles switched on:
//!
//! * after every transition and for every internal clock: the public
//!   `clock_frequency(id)` is bit-identical (value and uncertainty) to the filter's frequency
//!   estimate; the filter's frequency estimate itself is cross-checked against its
//!   meaning (the offset estimate moves by `frequency * 1 s` when only 1 s passes);
//! * every `set_frequency(f)` recorded by a mock clock satisfies `|f| <= max_frequency()`
//!   of that very clock;
//! * for every measurement (mock clock frozen during the call): a twin of the filter is
//!   advanced by the same progress + measurement but not steered (= pre-steer estimate);
//!   for every steered clock `estimate_after - estimate_before` equals the applied step
//!   (sum of `step_clock` arguments) resp. the applied frequency change
//!   (`set_frequency` argument - `get_frequency()` before) within 4 ulp of the larger
//!   operand (+ 2^-64 s, the resolution of the `Duration` the step is handed over in),
//!   and the component that was not steered does not move.
extern crate std;
use std::prelude::v1::*;
use std::{format, println, vec};

use super::c42::{b_describe, b_run_hist, run_b, Which};
use super::common::{self, Ctx};

const W: Which = Which { c42: false, c43: true };

fn replay(ctx: &Ctx, trace: &str) -> String {
    let (which, hist) = trace.split_once(';').unwrap_or(("?", ""));
    if which != "b" {
        return "unknown trace kind".into();
    }
    match b_run_hist(ctx, W, hist) {
        Some(s) => b_describe(&s),
        None => "unparseable or inapplicable trace".into(),
    }
}

#[test]
fn check() {
    let ctx = Ctx::new("C43");
    if let Some(t) = common::replay_trace() {
        let a = replay(&ctx, &t);
        let b = replay(&ctx, &t);
        common::report_replay("C43", &a, &b, ctx.violation_count() > 0);
        return;
    }
    let depth = if ctx.quick() { 6 } else { 8 };
    ctx.rule(&format!(
        "BFS over op sequences on clones of the real KalmanController (+KalmanLink, frozen mock clocks with distinct max_frequency 100/50/200 ppm), \
         de-duplicated on exact f64 bits + structure + mock clock state: ops {{add clock, add external, remove clock/external (every present id, unknown, stale), \
         create tracked/untracked link (every ordered pair, self, unknown endpoint), drop link, measurement (both directions; fixed value alphabet reaching \
         step / frequency-unclamped / frequency-clamped steering), warm (8 alternating measurements), clock time moves dt in {{0,+1s,-1s}}}}, <=3 clocks, <=2 links, \
         depth {depth} after each of 3 seed histories. Non-trivial & distinct = (state, clock) with a non-zero step or frequency change checked, \
         or a frequency query in a state whose offset estimate differs from its frequency estimate."
    ));
    ctx.assume("mock clocks are frozen during a controller call and never fail; clock errors in the middle of steer_clocks are not enumerated");
    ctx.assume("pre-steer estimate = clone of the controller's filter (crate-root view of the private state) advanced by the filter's own progress_time + measurement");
    ctx.assume("tolerance: 4 ulp of the largest operand, plus 2^-64 s for steps (Duration resolution)");
    ctx.assume("measurement values are a fixed alphabet, not all of R");
    run_b(&ctx, W, depth);
    let tr = ctx.get("b_transitions");
    ctx.set("transitions", tr);
    ctx.set(
        "evaluations",
        ctx.get("c43_steer_checks") + ctx.get("c43_frequency_queries") + ctx.get("c43_set_frequency_calls"),
    );
    ctx.exhaustive(ctx.get("b_depth_completed") == depth);
    ctx.finish();
}
