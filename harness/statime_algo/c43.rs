//! C43: not implemented yet.
