//! Group gp probe (C42/C43): read-only views of `LinkFilter`'s private fields.
//! Child of `crate::filter::verif_probe`. Nothing here changes behaviour.
extern crate std;
use std::prelude::v1::*;
use std::string::String;
use std::vec::Vec;
use std::format;

use statime_base::LinkId;

use crate::estimator::EstimatorState;
use crate::filter::{LinkFilter, LinkState};
use crate::storage::KalmanStorageBase;

/// The estimator inside the filter.
pub(crate) fn est<S: KalmanStorageBase>(f: &LinkFilter<S>) -> &EstimatorState<S> {
    &f.estimation_state
}

pub(crate) struct LinkView {
    pub id: LinkId,
    pub active: bool,
    pub tracked: bool,
    pub external: bool,
    /// `{:?}` of the whole filter-side link record (noise estimator ring buffers,
    /// pending half round trip, external-link window data) – used only as part of the
    /// state-deduplication key, after the caller has masked the identifiers.
    pub debug: String,
}

/// Filter-side link records in list order.
pub(crate) fn links<S: KalmanStorageBase>(f: &LinkFilter<S>) -> Vec<LinkView> {
    f.links
        .iter()
        .map(|l| LinkView {
            id: l.id,
            active: l.active,
            tracked: matches!(l.link_state, LinkState::Tracked { .. }),
            external: l.external_link_state.is_some(),
            debug: format!("{:?}", l),
        })
        .collect()
}
