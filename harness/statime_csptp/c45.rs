//! C45: not implemented yet.
