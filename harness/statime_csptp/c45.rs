//! C45 — CSPTP servers answer only requests, with correct echoes.
//!
//! Engine E-IN (+ short sequences): the real `serve` future is stepped by the hand-rolled
//! executor of C44 against a scripted `ServerSocket`: the harness decides which datagram
//! `recv` yields (with which receive timestamp and addresses), whether `recv` fails, what
//! `send_event` returns (send timestamp or error) and whether `send_general` fails.
//!
//! Enumerated:
//!  E1  request grammar: domain x sequence id x correction field x TLV arrangement x
//!      receive timestamp x send outcome x server state (full product of the core), and
//!      one-factor-at-a-time variation of every other header / body / TLV field
//!  E2  the non-request grammar of C44 (responses, follow-ups, announce, garbage, wrong
//!      sdoId / version, mixed TLVs ...) x server states: must stay silent
//!  E3  every truncation, every single-byte substitution (all 255 other values at every
//!      position; thorough: + pairs of positions), messageLength and TLV length edits of
//!      6 base requests; each mutant is judged by the independent reader
//!  E4  sequences of <= 4 (thorough 6) events (+ recv errors, state changes in between) through one
//!      `serve` call: no cross-talk between consecutive packets, shutdown honoured
//!
//! Oracle (from the statement; datagrams read by the byte-level inspector of C44, never by
//! the library): nothing is sent for a datagram that is not a well-formed CSPTP request;
//! an answer is a CSPTP response carrying the request's domain, sequence id, the receive
//! time the socket reported and the request's correction field, sent from the address the
//! request was sent to, to its sender; a two-step answer is followed by exactly one
//! follow-up with the same ids carrying the timestamp `send_event` returned (none if the
//! send failed); a one-step answer must itself carry the send time; nothing else is sent.
//! Beyond the statement (classes `C45:request-unanswered`, `C45:status-content`): unambiguous
//! requests are answered; leap/traceability flags and the status TLV mirror the server state.
extern crate std;
use core::cell::RefCell;
use core::future::Future;
use core::task::Poll;
use std::prelude::v1::*;
use std::sync::{Arc, Mutex};
use std::{format, println, vec};

use ntp_proto::NtpLeapIndicator;
use statime_wire::{ClockAccuracy, ClockIdentity, ClockQuality, Timestamp};

use super::c44::wire::{self, Class, Kind, Pkt};
use super::c44::block_on_steps;
use super::common::{self, Ctx};
use crate::{CsptpConfig, CsptpManager, InternalState, ServerRecvResult, ServerSocket, StateMutex, serve};

type Ts = (u64, u32);

// ---------------------------------------------------------------------------------
// scenario + mock socket
// ---------------------------------------------------------------------------------
#[derive(Clone, Debug, PartialEq, Eq, Hash)]
enum Ev {
    /// a datagram arrives; `send`: what send_event will answer (None = error); `general_ok`
    Dgram { bytes: Vec<u8>, rx: Ts, remote: u32, local: u32, send: Option<Ts>, general_ok: bool },
    RecvErr,
    /// the server state is switched (by the rest of the daemon) before the next packet
    State(usize),
}

#[derive(Clone, Debug, PartialEq, Eq, Hash)]
struct Scenario {
    state: usize,
    events: Vec<Ev>,
}

#[derive(Clone, Debug, PartialEq, Eq)]
struct Sent {
    /// index (in `events`) of the datagram being handled when this was sent
    during: usize,
    event: bool,
    bytes: Vec<u8>,
    from: u32,
    to: u32,
}

struct Env {
    sc: Scenario,
    pos: usize,
    cur: Option<usize>,
    sent: Vec<Sent>,
    done: bool,
}

struct Sock<'a> {
    env: Arc<Mutex<Env>>,
    mgr: &'a CsptpManager<RefCell<InternalState>>,
}

impl ServerSocket for Sock<'_> {
    type Addr = u32;
    type Error = &'static str;

    fn recv(&mut self, buf: &mut [u8]) -> impl Future<Output = Result<ServerRecvResult<u32>, Self::Error>> {
        let env = self.env.clone();
        let mgr = self.mgr;
        core::future::poll_fn(move |_cx| {
            let mut e = env.lock().unwrap();
            loop {
                let pos = e.pos;
                match e.sc.events.get(pos).cloned() {
                    None => {
                        e.done = true;
                        e.cur = None;
                        return Poll::Pending;
                    }
                    Some(Ev::State(i)) => {
                        // the rest of the daemon changes the server state between two packets
                        e.pos += 1;
                        apply_state(mgr, &STATES[i]);
                    }
                    Some(Ev::RecvErr) => {
                        e.pos += 1;
                        e.cur = None;
                        return Poll::Ready(Err("recv error"));
                    }
                    Some(Ev::Dgram { bytes, rx, remote, local, .. }) => {
                        e.pos += 1;
                        e.cur = Some(pos);
                        let n = bytes.len().min(buf.len());
                        buf[..n].copy_from_slice(&bytes[..n]);
                        return Poll::Ready(Ok(ServerRecvResult { bytes_read: n, remote_addr: remote, local_addr: local, timestamp: Timestamp::new(rx.0, rx.1).unwrap() }));
                    }
                }
            }
        })
    }

    fn send_event(&mut self, buf: &[u8], from: u32, to: u32) -> impl Future<Output = Result<Timestamp, Self::Error>> {
        let mut e = self.env.lock().unwrap();
        let during = e.cur.unwrap_or(usize::MAX);
        e.sent.push(Sent { during, event: true, bytes: buf.to_vec(), from, to });
        let r = match e.sc.events.get(during) {
            Some(Ev::Dgram { send: Some(t), .. }) => Ok(Timestamp::new(t.0, t.1).unwrap()),
            _ => Err("send error"),
        };
        core::future::ready(r)
    }

    fn send_general(&mut self, buf: &[u8], from: u32, to: u32) -> impl Future<Output = Result<(), Self::Error>> {
        let mut e = self.env.lock().unwrap();
        let during = e.cur.unwrap_or(usize::MAX);
        e.sent.push(Sent { during, event: false, bytes: buf.to_vec(), from, to });
        let r = match e.sc.events.get(during) {
            Some(Ev::Dgram { general_ok: true, .. }) => Ok(()),
            _ => Err("send error"),
        };
        core::future::ready(r)
    }
}

// ---------------------------------------------------------------------------------
// server states
// ---------------------------------------------------------------------------------
#[derive(Clone, Copy, Debug)]
struct St {
    leap: NtpLeapIndicator,
    ptp: bool,
    time_tr: bool,
    freq_tr: bool,
    p1: u8,
    p2: u8,
    class: u8,
    acc: u8,
    var: u16,
    steps: u16,
    gm: [u8; 8],
}

const STATES: [St; 8] = [
    St { leap: NtpLeapIndicator::NoWarning, ptp: true, time_tr: false, freq_tr: false, p1: 255, p2: 255, class: 248, acc: 0xfe, var: 0x6900, steps: 0, gm: [0; 8] },
    St { leap: NtpLeapIndicator::Leap59, ptp: false, time_tr: true, freq_tr: false, p1: 0, p2: 1, class: 6, acc: 0x21, var: 0, steps: 1, gm: [1, 2, 3, 4, 5, 6, 7, 8] },
    St { leap: NtpLeapIndicator::Leap61, ptp: true, time_tr: false, freq_tr: true, p1: 128, p2: 0, class: 0, acc: 0x17, var: 0xffff, steps: 0xffff, gm: [0xff; 8] },
    St { leap: NtpLeapIndicator::Unknown, ptp: false, time_tr: false, freq_tr: false, p1: 1, p2: 128, class: 255, acc: 0x31, var: 1, steps: 0x0102, gm: [0x80, 0, 0, 0, 0, 0, 0, 1] },
    St { leap: NtpLeapIndicator::Unsynchronized, ptp: true, time_tr: true, freq_tr: true, p1: 7, p2: 9, class: 13, acc: 0x80, var: 0x8000, steps: 255, gm: [0, 0, 0, 0, 0, 0, 0, 1] },
    St { leap: NtpLeapIndicator::NoWarning, ptp: false, time_tr: true, freq_tr: true, p1: 254, p2: 254, class: 52, acc: 0xfd, var: 0x00ff, steps: 256, gm: [0xaa; 8] },
    St { leap: NtpLeapIndicator::Leap59, ptp: true, time_tr: true, freq_tr: false, p1: 127, p2: 129, class: 187, acc: 0x2f, var: 0xff00, steps: 2, gm: [0x55; 8] },
    St { leap: NtpLeapIndicator::Leap61, ptp: false, time_tr: false, freq_tr: true, p1: 2, p2: 3, class: 193, acc: 0x20, var: 0x4e5d, steps: 0xfffe, gm: [0x10, 0x20, 0x30, 0x40, 0x50, 0x60, 0x70, 0x80] },
];

fn apply_state(m: &CsptpManager<RefCell<InternalState>>, st: &St) {
    m.state.with_mut(|s| {
        s.time_snapshot.leap_indicator = st.leap;
        s.csptp_state.ptp_timescale = st.ptp;
        s.csptp_state.time_traceable = st.time_tr;
        s.csptp_state.frequency_traceable = st.freq_tr;
        s.csptp_state.grandmaster_priority_1 = st.p1;
        s.csptp_state.grandmaster_priority_2 = st.p2;
        s.csptp_state.grandmaster_clock_quality = ClockQuality { clock_class: st.class, clock_accuracy: ClockAccuracy::from_primitive(st.acc), offset_scaled_log_variance: st.var };
        s.csptp_state.steps_removed = st.steps;
        s.csptp_state.grandmaster_identity = ClockIdentity(st.gm);
    });
}

struct Obs {
    result: String,
    sent: Vec<Sent>,
    consumed: usize,
    polls: usize,
}

fn run_scenario(sc: &Scenario) -> Result<Obs, String> {
    let env = Arc::new(Mutex::new(Env { sc: sc.clone(), pos: 0, cur: None, sent: vec![], done: false }));
    let manager: CsptpManager<RefCell<InternalState>> = CsptpManager::new(CsptpConfig::default());
    apply_state(&manager, &STATES[sc.state]);
    let max_polls = 2 * sc.events.len() + 8;
    let r = common::catch(|| {
        let e1 = env.clone();
        let shutdown = core::future::poll_fn(move |_| if e1.lock().unwrap().done { Poll::Ready(()) } else { Poll::Pending });
        block_on_steps(serve(Sock { env: env.clone(), mgr: &manager }, shutdown, &manager), max_polls)
    });
    let mut e = env.lock().unwrap();
    let (result, polls) = match r {
        Err(p) => return Err(p),
        Ok(Err(stuck)) => (format!("STUCK: {stuck}"), max_polls),
        Ok(Ok(((), n))) => ("ok".to_string(), n),
    };
    Ok(Obs { result, sent: std::mem::take(&mut e.sent), consumed: e.pos, polls })
}

// ---------------------------------------------------------------------------------
// oracle
// ---------------------------------------------------------------------------------
#[derive(Default)]
struct Tally {
    c: std::collections::BTreeMap<&'static str, u64>,
    distinct: Vec<u64>,
}
impl Tally {
    fn inc(&mut self, k: &'static str) {
        *self.c.entry(k).or_insert(0) += 1;
    }
    fn flush(&mut self, ctx: &Ctx) {
        for (k, v) in std::mem::take(&mut self.c) {
            ctx.add(k, v);
        }
        ctx.distinct_many(std::mem::take(&mut self.distinct));
    }
}

fn judge(ctx: &Ctx, tl: &mut Tally, sc: &Scenario) -> String {
    let trace = || fmt_scenario(sc);
    tl.inc("evaluations");
    tl.inc("scenarios");
    let obs = match run_scenario(sc) {
        Ok(o) => o,
        Err(p) => {
            ctx.violation("C45:panic", format!("serve panicked (the daemon aborts): {p}"), trace());
            tl.inc("panics");
            return format!("PANIC {p}");
        }
    };
    let mut line = format!("{} ", obs.result);
    if obs.result != "ok" || obs.consumed != sc.events.len() {
        ctx.violation("C45:serve-did-not-finish", format!("serve: {}, consumed {} of {} events (shutdown must end the loop after the current packet)", obs.result, obs.consumed, sc.events.len()), trace());
        return line;
    }
    if obs.sent.iter().any(|s| s.during == usize::MAX) {
        ctx.violation("C45:spontaneous-send", "something was sent while no packet was being handled", trace());
    }
    let mut state = sc.state;
    for (i, ev) in sc.events.iter().enumerate() {
        let (bytes, rx, remote, local, send, _general_ok) = match ev {
            Ev::State(s) => {
                state = *s;
                continue;
            }
            Ev::RecvErr => {
                tl.inc("recv_errors");
                continue;
            }
            Ev::Dgram { bytes, rx, remote, local, send, general_ok } => (bytes, *rx, *remote, *local, *send, *general_ok),
        };
        tl.inc("datagrams");
        let sent: Vec<&Sent> = obs.sent.iter().filter(|s| s.during == i).collect();
        let view = &bytes[..bytes.len().min(512)];
        let (class, ks) = wire::classify(view);
        let req = match (class, ks) {
            (Class::Invalid, _) | (_, None) => None,
            (c, Some((Kind::Request, s))) => Some((c, s)),
            _ => None,
        };
        let Some((class, req)) = req else {
            tl.inc("non_requests");
            if !sent.is_empty() {
                ctx.violation(
                    "C45:answers-non-request",
                    format!("datagram {i} is not a well-formed CSPTP request ({}) but {} datagram(s) were sent in reply", describe(view), sent.len()),
                    trace(),
                );
                line.push_str(&format!("d{i}:BADREPLY{} ", sent.len()));
            } else {
                line.push_str(&format!("d{i}:silent "));
            }
            continue;
        };
        if sent.is_empty() {
            if class == Class::Valid {
                ctx.violation("C45:request-unanswered", format!("datagram {i} is a well-formed CSPTP request (domain {} seq {}) but nothing was sent", req.domain, req.seq), trace());
            } else {
                tl.inc("grey_requests_unanswered");
            }
            line.push_str(&format!("d{i}:unanswered "));
            continue;
        }
        tl.inc(if class == Class::Valid { "requests_answered" } else { "grey_requests_answered" });
        // ---- the answer ----
        let a = sent[0];
        if !a.event {
            ctx.violation("C45:answer-shape", format!("datagram {i}: first reply went out on the general socket"), trace());
        }
        if a.from != local || a.to != remote {
            ctx.violation("C45:reply-address", format!("datagram {i}: answer sent {} -> {}, request came {} -> {}", a.from, a.to, remote, local), trace());
        }
        let (acl, aks) = wire::classify(&a.bytes);
        let ans = match aks {
            Some((Kind::Response, s)) if acl == Class::Valid && s.len == a.bytes.len() => s,
            _ => {
                ctx.violation("C45:answer-malformed", format!("datagram {i}: the answer is not a well-formed CSPTP response: {}", common::hex(&a.bytes)), trace());
                continue;
            }
        };
        if ans.domain != req.domain || ans.seq != req.seq {
            ctx.violation("C45:echo-ids", format!("datagram {i}: request domain {} seq {}, answer domain {} seq {}", req.domain, req.seq, ans.domain, ans.seq), trace());
        }
        let (ingress, rcorr) = wire::resp_fields(&ans).unwrap();
        if ingress != rx {
            ctx.violation("C45:echo-rx-time", format!("datagram {i}: received at {rx:?}, response TLV says {ingress:?}"), trace());
        }
        if rcorr != req.corr {
            ctx.violation("C45:echo-correction", format!("datagram {i}: request correctionField {}, response TLV says {rcorr}", req.corr), trace());
        }
        let two_step = ans.flag0 & wire::F0_TWO_STEP != 0;
        let follow: Vec<&&Sent> = sent[1..].iter().collect();
        if two_step {
            tl.inc("two_step_answers");
            match send {
                Some(ts) => {
                    if follow.len() != 1 {
                        ctx.violation("C45:follow-up-count", format!("datagram {i}: two-step answer sent at {ts:?} but {} further datagram(s) followed (expected exactly one follow-up)", follow.len()), trace());
                    } else {
                        let f = follow[0];
                        if f.event {
                            tl.inc("follow_up_on_event_socket");
                        }
                        if f.from != local || f.to != remote {
                            ctx.violation("C45:reply-address", format!("datagram {i}: follow-up sent {} -> {}, request came {} -> {}", f.from, f.to, remote, local), trace());
                        }
                        match wire::classify(&f.bytes) {
                            (Class::Valid, Some((Kind::FollowUp, fs))) if fs.len == f.bytes.len() => {
                                if fs.domain != req.domain || fs.seq != req.seq {
                                    ctx.violation("C45:echo-ids", format!("datagram {i}: follow-up domain {} seq {}, request domain {} seq {}", fs.domain, fs.seq, req.domain, req.seq), trace());
                                }
                                if fs.body_ts != ts {
                                    ctx.violation("C45:follow-up-time", format!("datagram {i}: send_event returned {ts:?}, follow-up carries {:?}", fs.body_ts), trace());
                                }
                                // the follow-up's correction must not distort the send time
                                if fs.corr != 0 {
                                    ctx.violation("C45:follow-up-time", format!("datagram {i}: follow-up has correctionField {}", fs.corr), trace());
                                }
                                tl.inc("follow_ups_checked");
                            }
                            _ => ctx.violation("C45:answer-malformed", format!("datagram {i}: the follow-up is not a well-formed CSPTP follow-up: {}", common::hex(&f.bytes)), trace()),
                        }
                    }
                }
                None => {
                    tl.inc("send_failures");
                    if !follow.is_empty() {
                        ctx.violation("C45:follow-up-without-send-time", format!("datagram {i}: send_event failed (no send time) but {} more datagram(s) were sent", follow.len()), trace());
                    }
                }
            }
        } else {
            tl.inc("one_step_answers");
            if Some(ans.body_ts) != send {
                ctx.violation("C45:one-step-time", format!("datagram {i}: one-step answer carries origin time {:?}, actual send time {send:?}", ans.body_ts), trace());
            }
            if !follow.is_empty() {
                ctx.violation("C45:follow-up-count", format!("datagram {i}: one-step answer followed by {} datagram(s)", follow.len()), trace());
            }
        }
        if ans.corr != 0 && !two_step {
            tl.inc("answer_with_correction");
        }
        // ---- beyond the statement: flags and status mirror the server state ----
        let st = &STATES[state];
        let want_l59 = st.leap == NtpLeapIndicator::Leap59;
        let want_l61 = st.leap == NtpLeapIndicator::Leap61;
        let got = (ans.flag1 & wire::F1_LEAP59 != 0, ans.flag1 & wire::F1_LEAP61 != 0, ans.flag1 & 0x08 != 0, ans.flag1 & 0x10 != 0, ans.flag1 & 0x20 != 0);
        if got != (want_l59, want_l61, st.ptp, st.time_tr, st.freq_tr) {
            ctx.violation("C45:status-content", format!("datagram {i}: flags (leap59, leap61, ptpTimescale, timeTraceable, frequencyTraceable) = {got:?}, server state {:?}", (want_l59, want_l61, st.ptp, st.time_tr, st.freq_tr)), trace());
        }
        let wants_status = req.tlvs.iter().find(|t| t.0 == wire::TLV_REQ).is_some_and(|t| t.1[0] & 1 != 0);
        let status: Vec<&(u16, Vec<u8>)> = ans.tlvs.iter().filter(|t| t.0 == wire::TLV_STATUS).collect();
        if wants_status {
            tl.inc("status_requested");
            let want = wire::status_tlv(st.p1, st.class, ClockAccuracy::from_primitive(st.acc).to_primitive(), st.var, st.p2, st.steps, 0, st.gm).1;
            if status.len() != 1 || status[0].1.len() != 18 || status[0].1[..8] != want[..8] || status[0].1[10..] != want[10..] {
                ctx.violation("C45:status-content", format!("datagram {i}: status TLV {:?}, server state gives {}", status.iter().map(|t| common::hex(&t.1)).collect::<Vec<_>>(), common::hex(&want)), trace());
            }
        } else if !status.is_empty() {
            ctx.violation("C45:status-content", format!("datagram {i}: status TLV sent although the request did not ask for it"), trace());
        }
        line.push_str(&format!("d{i}:answered{} ", sent.len()));
    }
    tl.distinct.push(common::hash_of(&(sc, &line)));
    line
}

fn describe(d: &[u8]) -> String {
    if d.len() < 44 {
        return format!("{} bytes", d.len());
    }
    format!("type {:x} sdo {:x}{:02x} ver {:02x} len {}/{}", d[0] & 15, d[0] >> 4, d[5], d[1], u16::from_be_bytes([d[2], d[3]]), d.len())
}

// ---------------------------------------------------------------------------------
// trace format
// ---------------------------------------------------------------------------------
fn fmt_ts(t: Ts) -> String {
    format!("{}.{}", t.0, t.1)
}
fn parse_ts(s: &str) -> Option<Ts> {
    let (a, b) = s.split_once('.')?;
    Some((a.parse().ok()?, b.parse().ok()?))
}
fn fmt_scenario(sc: &Scenario) -> String {
    let mut s = format!("st={}", sc.state);
    for e in &sc.events {
        s.push('/');
        match e {
            Ev::RecvErr => s.push('e'),
            Ev::State(i) => s.push_str(&format!("S{i}")),
            Ev::Dgram { bytes, rx, remote, local, send, general_ok } => s.push_str(&format!("d{}@{}:{}>{}:{}:{}", common::hex(bytes), fmt_ts(*rx), remote, local, send.map_or("x".to_string(), fmt_ts), *general_ok as u8)),
        }
    }
    s
}
fn parse_scenario(t: &str) -> Option<Scenario> {
    let mut parts = t.split('/');
    let state: usize = parts.next()?.strip_prefix("st=")?.parse().ok()?;
    if state >= STATES.len() {
        return None;
    }
    let mut events = vec![];
    for p in parts {
        if p == "e" {
            events.push(Ev::RecvErr);
        } else if let Some(i) = p.strip_prefix('S') {
            events.push(Ev::State(i.parse().ok().filter(|i| *i < STATES.len())?));
        } else {
            let (h, rest) = p.strip_prefix('d')?.split_once('@')?;
            let f: Vec<&str> = rest.split(':').collect();
            if f.len() != 4 {
                return None;
            }
            let (remote, local) = f[1].split_once('>')?;
            events.push(Ev::Dgram {
                bytes: common::unhex(h)?,
                rx: parse_ts(f[0])?,
                remote: remote.parse().ok()?,
                local: local.parse().ok()?,
                send: if f[2] == "x" { None } else { Some(parse_ts(f[2])?) },
                general_ok: f[3] == "1",
            });
        }
    }
    Some(Scenario { state, events })
}

fn replay(ctx: &Ctx, trace: &str) -> String {
    match parse_scenario(trace) {
        Some(sc) => judge(ctx, &mut Tally::default(), &sc),
        None => "unparsable trace".to_string(),
    }
}

// ---------------------------------------------------------------------------------
// grammar
// ---------------------------------------------------------------------------------
fn request(domain: u8, seq: u16, corr: i64, flags: u8) -> Pkt {
    let mut p = Pkt::new(0, domain, seq);
    p.corr = corr;
    p.tlvs = vec![wire::req_tlv(flags)];
    p
}

/// TLV arrangements around the request TLV.
fn arrangements(flags: u8) -> Vec<(&'static str, Vec<(u16, Vec<u8>)>)> {
    let r = wire::req_tlv(flags);
    vec![
        ("req", vec![r.clone()]),
        ("pad4,req", vec![(wire::TLV_PAD, vec![0; 4]), r.clone()]),
        ("req,pad2", vec![r.clone(), (wire::TLV_PAD, vec![0; 2])]),
        ("req,status", vec![r.clone(), wire::status_tlv(1, 2, 3, 4, 5, 6, 7, [8; 8])]),
        ("req,pad0", vec![r.clone(), (wire::TLV_PAD, vec![])]),
        ("pad0,req", vec![(wire::TLV_PAD, vec![]), r.clone()]),
        ("req,req", vec![r.clone(), wire::req_tlv(flags ^ 1)]),
        ("req,resp", vec![r.clone(), wire::resp_tlv(1, 2, 3)]),
        ("resp,req", vec![wire::resp_tlv(1, 2, 3), r.clone()]),
        ("none", vec![]),
        ("resp", vec![wire::resp_tlv(1, 2, 3)]),
        ("req1byte", vec![(wire::TLV_REQ, vec![flags])]),
        ("req2byte", vec![(wire::TLV_REQ, vec![flags, 0])]),
        ("req0byte", vec![(wire::TLV_REQ, vec![])]),
        ("req6byte", vec![(wire::TLV_REQ, vec![flags, 1, 2, 3, 4, 5])]),
        ("unknown,req", vec![(0x7f00, vec![1, 2, 3, 4, 5, 6]), r.clone()]),
    ]
}

const RX: [Ts; 3] = [(0, 0), (1_700_000_000, 123_456_789), ((1 << 48) - 1, 999_999_999)];
const SENDS: [(Option<Ts>, bool); 5] = [(Some((0, 0)), true), (Some((1_700_000_001, 1)), true), (Some(((1 << 48) - 1, 999_999_999)), true), (None, true), (Some((5, 6)), false)];

fn dgram(bytes: Vec<u8>, rx: Ts, send: (Option<Ts>, bool), k: u32) -> Ev {
    Ev::Dgram { bytes, rx, remote: 1000 + k, local: 2000 + k, send: send.0, general_ok: send.1 }
}

/// The non-request grammar (C44's alphabet, addressed to the server).
fn non_requests() -> Vec<Vec<u8>> {
    let mut v = Vec::new();
    for two in [0u8, wire::F0_TWO_STEP] {
        let mut p = Pkt::new(0, 128, 7);
        p.flag0 |= two;
        p.tlvs = vec![wire::resp_tlv(5, 6, 7)];
        v.push(p.bytes());
        p.tlvs.push(wire::status_tlv(1, 2, 3, 4, 5, 6, 7, [8; 8]));
        v.push(p.bytes());
    }
    let mut p = Pkt::new(8, 128, 7);
    p.flag0 |= wire::F0_TWO_STEP;
    v.push(p.bytes());
    p.tlvs = vec![wire::req_tlv(1)]; // a follow-up carrying a request TLV is still not a request
    v.push(p.bytes());
    for mtype in [1u8, 2, 3, 9, 0xa, 0xb, 0xc, 0xd, 4, 5, 6, 7, 0xe, 0xf] {
        let mut p = request(128, 7, 0, 1);
        p.mtype = mtype;
        p.body = vec![0; 30];
        v.push(p.bytes());
    }
    for sdo in [0x000u16, 0x100, 0x301, 0x200, 0x3ff, 0xf00, 0x030] {
        let mut p = request(128, 7, 0, 1);
        p.sdo = sdo;
        v.push(p.bytes());
    }
    for ver in [0x10u8, 0x11, 0x13, 0x1f, 0x01, 0x21] {
        let mut p = request(128, 7, 0, 1);
        p.ver = ver;
        v.push(p.bytes());
    }
    v.push(vec![]);
    v.push(vec![0xff; 20]);
    v.push(vec![0x00; 64]);
    v.push(vec![0xff; 64]);
    v.push(vec![0x30; 600]);
    v
}

#[test]
fn check() {
    let ctx = Ctx::new("C45");
    if let Some(t) = common::replay_trace() {
        let a = replay(&ctx, &t);
        let b = replay(&ctx, &t);
        common::report_replay("C45", &a, &b, ctx.violation_count() > 0);
        return;
    }
    let quick = ctx.quick();
    ctx.rule(
        "E1: requests over domain {0,128,255 (thorough +1,127,129)} x sequence {0,1,0x1234,0xffff (thorough +0xff,0x100,0x8000,0xfffe)} x correctionField {0,1,-1,1s,MIN,MAX (thorough +-1ns, pattern)} x 16 TLV arrangements \
         (request TLV alone, with padding/unknown/status TLVs before and after, empty-valued neighbours, duplicated, mixed with a response \
         TLV, 0/1/2/6-byte values, none) x receive time {0, now, 2^48-1 s} x send outcome {3 send times, send error, follow-up send error} \
         x 8 server states, plus every other header field one at a time; E2: 40 non-request datagrams x states; E3: every truncation, \
         every position x all 255 other byte values (thorough: + every pair of positions x 5 patterns), messageLength / TLV length edits of 6 base requests; E4: every sequence of <=4 (thorough <=6) events over 9 symbols through one serve call. \
         Non-trivial & distinct = distinct (scenario, per-datagram outcome).",
    );
    ctx.assume("the independent reader (C44 wire::classify) defines 'well-formed CSPTP request': Sync, sdoId 0x300, versionPTP 2, consistent lengths, even TLVs, exactly one non-empty CSPTP request TLV and no response TLV; nanoseconds == 10^9, a trailing empty TLV and duplicated request TLVs are left open (either behaviour accepted)");
    ctx.assume("datagrams longer than the 512-byte receive buffer are judged on their first 512 bytes (the mock truncates like the daemon's socket wrapper)");

    let n_states = STATES.len();

    // ---- E1 core product ----
    let domains: &[u8] = if quick { &[0, 128, 255] } else { &[0, 1, 127, 128, 129, 255] };
    let seqs: &[u16] = if quick { &[0, 1, 0x1234, 0xffff] } else { &[0, 1, 0xff, 0x100, 0x1234, 0x8000, 0xfffe, 0xffff] };
    let corrs: &[i64] = if quick { &[0, 1, -1, 1_000_000_000 << 16, i64::MIN, i64::MAX] } else { &[0, 1, -1, 1 << 16, -(1 << 16), 1_000_000_000 << 16, 0x0123_4567_89ab_cdef, i64::MIN, i64::MAX] };
    let arr_n = arrangements(0).len();
    let core: Vec<usize> = vec![domains.len(), seqs.len(), corrs.len(), arr_n, RX.len(), SENDS.len(), n_states];
    let total: u64 = core.iter().map(|x| *x as u64).product();
    ctx.set("e1_core_cases", total);
    common::par_for(total, 512, |i| {
        let mut tl = Tally::default();
        let mut x = i as usize;
        let mut pick = |n: usize| {
            let r = x % n;
            x /= n;
            r
        };
        let st = pick(n_states);
        let send = SENDS[pick(SENDS.len())];
        let rx = RX[pick(RX.len())];
        let ai = pick(arr_n);
        let corr = corrs[pick(corrs.len())];
        let seq = seqs[pick(seqs.len())];
        let domain = domains[pick(domains.len())];
        let flags = (i % 4) as u8;
        let mut p = request(domain, seq, corr, flags);
        let (name, tlvs) = arrangements(flags).swap_remove(ai);
        p.tlvs = tlvs;
        let sc = Scenario { state: st, events: vec![dgram(p.bytes(), rx, send, (i % 7) as u32)] };
        let line = judge(&ctx, &mut tl, &sc);
        if i % 100_003 == 11 {
            ctx.sample(format!("E1 dom {domain} seq {seq} corr {corr} tlvs [{name}] rx {rx:?} send {send:?} state {st} -> {line}"));
        }
        tl.flush(&ctx);
    });

    // ---- E1 one factor at a time ----
    {
        let mut tl = Tally::default();
        let mut variants: Vec<Pkt> = Vec::new();
        for f0 in 0..=255u8 {
            let mut p = request(128, 9, 77, 1);
            p.flag0 = f0;
            variants.push(p);
        }
        for f1 in 0..=255u8 {
            let mut p = request(128, 9, 77, 1);
            p.flag1 = f1;
            variants.push(p);
        }
        for flags in 0..=255u8 {
            variants.push(request(128, 9, 77, flags));
        }
        for d in 0..=255u8 {
            variants.push(request(d, 9, 77, 3));
        }
        for li in 0..=255u8 {
            let mut p = request(128, 9, 77, 1);
            p.logint = li;
            variants.push(p);
        }
        for minor in 0..16u8 {
            let mut p = request(128, 9, 77, 1);
            p.ver = (minor << 4) | 2;
            variants.push(p);
        }
        for (sec, nanos) in [(0u64, 0u32), (1, 1), ((1 << 48) - 1, 999_999_999), (5, 1_000_000_000), (5, 1_000_000_001), (5, u32::MAX)] {
            let mut p = request(128, 9, 77, 1);
            p.body = wire::ts10(sec, nanos);
            variants.push(p);
        }
        for delta in [-60i32, -11, -10, -9, -8, -4, -2, -1, 1, 2, 4, 1000] {
            let mut p = request(128, 9, 77, 1);
            p.len_delta = delta;
            variants.push(p);
        }
        for s in 0..=0xffffu16 {
            if s % 257 == 0 || s < 300 {
                variants.push(request(128, s, 77, 1));
            }
        }
        ctx.set("e1_single_factor_variants", variants.len() as u64);
        for (k, p) in variants.iter().enumerate() {
            let bytes = p.bytes();
            for pad in [0usize, 1, 2] {
                let mut b = bytes.clone();
                b.extend(std::iter::repeat(0xee).take(pad));
                for st in [0usize, 2] {
                    judge(&ctx, &mut tl, &Scenario { state: st, events: vec![dgram(b.clone(), RX[1], SENDS[1], k as u32)] });
                }
            }
        }
        tl.flush(&ctx);
    }

    // ---- E2 ----
    let nonreq = non_requests();
    ctx.set("e2_non_requests", nonreq.len() as u64);
    {
        let mut tl = Tally::default();
        for (k, d) in nonreq.iter().enumerate() {
            for st in 0..n_states {
                for send in SENDS {
                    judge(&ctx, &mut tl, &Scenario { state: st, events: vec![dgram(d.clone(), RX[1], send, k as u32)] });
                }
            }
        }
        tl.flush(&ctx);
    }

    // ---- E3: mutation neighbourhood of base requests ----
    let mut bases: Vec<(Vec<u8>, Vec<usize>)> = Vec::new(); // bytes + offsets of TLV length fields
    {
        let p = request(128, 0x0102, 0x0304_0506_0708_090a, 1);
        bases.push((p.bytes(), vec![46]));
        let mut p = request(3, 0xfffe, -5, 3);
        p.tlvs.insert(0, (wire::TLV_PAD, vec![1, 2]));
        bases.push((p.bytes(), vec![46, 52]));
        let mut p = request(255, 1, 0, 0);
        p.tlvs.push(wire::status_tlv(1, 2, 3, 4, 5, 6, 7, [8; 8]));
        bases.push((p.bytes(), vec![46, 54]));
        let mut p = request(0, 0, i64::MIN, 2);
        p.flag0 = 0xff;
        p.flag1 = 0xff;
        bases.push((p.bytes(), vec![46]));
        {
            let mut p = request(77, 0x8000, 1, 1);
            p.tlvs.push((wire::TLV_PAD, vec![0; 40]));
            bases.push((p.bytes(), vec![46, 54]));
            let mut p = request(128, 5, 0, 1);
            p.tlvs.insert(0, (0x0008, vec![]));
            p.tlvs.push((0x4000, vec![1, 2, 3, 4]));
            bases.push((p.bytes(), vec![46, 50, 58]));
        }
    }
    let mut muts: Vec<Vec<u8>> = Vec::new();
    for (b, offs) in &bases {
        for k in 0..=b.len() {
            muts.push(b[..k].to_vec());
        }
        for i in 0..b.len() {
            let o = b[i];
            // every other value of this byte
            for pat in 0..=255u8 {
                if pat != o {
                    let mut x = b.clone();
                    x[i] = pat;
                    muts.push(x);
                }
            }
        }
        if !quick {
            // thorough: every pair of positions x 3 patterns
            for i in 0..b.len() {
                for j in i + 1..b.len() {
                    for (pi, pj) in [(0x00u8, 0x00u8), (0xff, 0xff), (b[i] ^ 1, b[j] ^ 1), (b[i] ^ 0x80, 0x00), (0x01, b[j].wrapping_add(1))] {
                        if pi != b[i] && pj != b[j] {
                            let mut x = b.clone();
                            x[i] = pi;
                            x[j] = pj;
                            muts.push(x);
                        }
                    }
                }
            }
        }
        let l = b.len() as u16;
        for v in [0u16, 33, 34, 43, 44, 45, 46, 47, 48, l - 4, l - 2, l - 1, l + 1, l + 2, 0x7fff, 0xffff] {
            let mut x = b.clone();
            x[2..4].copy_from_slice(&v.to_be_bytes());
            muts.push(x.clone());
            x.extend_from_slice(&[0; 8]);
            muts.push(x);
        }
        for &o in offs {
            let cur = u16::from_be_bytes([b[o], b[o + 1]]);
            let rest = (b.len() - o - 2) as u16;
            for v in [0u16, 1, 2, 3, cur + 1, cur + 2, cur.wrapping_sub(1), cur.wrapping_sub(2), rest, rest - 1, rest - 2, rest + 1, rest + 2, 0xfffe, 0xffff] {
                let mut x = b.clone();
                x[o..o + 2].copy_from_slice(&v.to_be_bytes());
                muts.push(x.clone());
                x.extend_from_slice(&[0; 4]);
                muts.push(x);
            }
        }
    }
    ctx.set("e3_mutants", muts.len() as u64);
    common::par_for(muts.len() as u64, 64, |i| {
        let mut tl = Tally::default();
        for st in [1usize, 3] {
            judge(&ctx, &mut tl, &Scenario { state: st, events: vec![dgram(muts[i as usize].clone(), RX[1], SENDS[1], i as u32)] });
        }
        tl.flush(&ctx);
    });

    // ---- E4: sequences through one serve() call ----
    {
        let syms: Vec<Ev> = vec![
            dgram(request(1, 10, 111, 1).bytes(), RX[0], SENDS[0], 1),
            dgram(request(2, 20, 222, 0).bytes(), RX[1], SENDS[1], 2),
            dgram(request(3, 30, 333, 3).bytes(), RX[2], SENDS[3], 3),
            dgram(request(4, 40, 444, 1).bytes(), RX[1], SENDS[4], 4),
            dgram(nonreq[0].clone(), RX[1], SENDS[1], 5),
            dgram(nonreq[4].clone(), RX[2], SENDS[2], 6),
            dgram(vec![0xff; 20], RX[0], SENDS[0], 7),
            Ev::RecvErr,
            Ev::State(2),
        ];
        let maxlen = if quick { 4 } else { 6 };
        let mut n = 0u64;
        for len in 0..=maxlen {
            n += common::pow(syms.len(), len);
        }
        ctx.set("e4_sequences", n);
        common::par_for(n, 64, |i| {
            let mut tl = Tally::default();
            let mut j = i;
            let mut len = 0;
            while j >= common::pow(syms.len(), len) {
                j -= common::pow(syms.len(), len);
                len += 1;
            }
            let w = common::word_of(j, syms.len(), len);
            let sc = Scenario { state: 1, events: w.iter().map(|x| syms[*x].clone()).collect() };
            let line = judge(&ctx, &mut tl, &sc);
            if i % 211 == 5 {
                ctx.sample(format!("E4 {w:?} -> {line}"));
            }
            tl.flush(&ctx);
        });
    }

    ctx.sample(format!(
        "datagrams {}: non-requests {} (all must be silent), requests answered {}, grey answered {} / unanswered {}, two-step answers {}, follow-ups checked {}, send failures {}",
        ctx.get("datagrams"),
        ctx.get("non_requests"),
        ctx.get("requests_answered"),
        ctx.get("grey_requests_answered"),
        ctx.get("grey_requests_unanswered"),
        ctx.get("two_step_answers"),
        ctx.get("follow_ups_checked"),
        ctx.get("send_failures")
    ));
    ctx.exhaustive(true);
    ctx.finish();
}
