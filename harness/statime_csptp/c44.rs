//! C44 — CSPTP clients survive any server traffic and only use matching answers.
//!
//! Engine E-SEQ: the real `CsptpSource::run` future is stepped by a hand-rolled executor
//! (no-op waker + poll loop). Socket, sleep and rng are scripted mocks, so the harness
//! decides every environment answer: which datagram `recv` yields next, whether the
//! response timeout fires first, whether `send_event` / `recv` / socket creation fail.
//!
//! A scenario is a list of requests; each request = send outcome + a list of received
//! events, implicitly terminated by the response timeout (so "timeout at each position"
//! = every prefix, which the length-bounded enumeration contains). The socket of a request
//! is dropped when the request ends, exactly as in the daemon.
//!
//! Enumerated:
//!  S1  one request, every event sequence of length <= 4 (thorough 5) over the 20-symbol alphabet
//!  S2  two consecutive requests, every pair of sequences (<= 2 / <= 2 quick; <= 3 / <= 2 and
//!      <= 2 / <= 3 thorough) — request 1's alphabet contains the *stale* answers to request 0 —
//!      x {send ok, send error} for request 0
//!  S3  value sweep on the three completing shapes [R1], [R2,FU], [FU,R2]:
//!      send time x request correction x origin time x correction(s) over
//!      {0, 1, 2^48-1 s, 999 999 999 ns} / {0, +-1, +-1 ns, +-1 s, +-2^47 ns, i64::MIN/MAX}
//!  S4  sequence-id arithmetic: the alphabet at request 255/256/257 and after a full
//!      wrap (65536 requests), socket creation failure at each request index
//!
//! Oracle (from the statement, on an independent byte-level reading of the datagrams):
//!  * no panic (a caught panic = the daemon aborts),
//!  * per request the controller sees nothing, or exactly one `set_usable(true)` + one
//!    measurement pair, and only at a moment when the datagram just delivered completes a
//!    response (+ follow-up for two-step) carrying the current request's domain and
//!    sequence id (read back from the request the source actually sent), received with
//!    a timestamp, before the timeout,
//!  * the pair's values are those of that response/follow-up (wide-integer arithmetic),
//!  * manager state only changes in a request that produced a measurement.
//! Beyond the statement (class `C44:measurement-missing-or-late`, conformance only): a
//! complete unambiguous answer does produce the measurement at the first possible moment.
extern crate std;
use core::cell::RefCell;
use core::future::Future;
use core::pin::Pin;
use core::task::{Context, Poll, Waker};
use core::time::Duration;
use std::prelude::v1::*;
use std::sync::{Arc, Mutex};
use std::{format, println, vec};

use ntp_proto::{ClockId, Measurement, NtpLeapIndicator, NtpTimestamp, ObservableSourceTimedata, PollInterval, SourceController};
use statime_wire::Timestamp;

use super::common::{self, Ctx};
use crate::{ClientRecvResult, ClientSocket, CsptpConfig, CsptpManager, CsptpSource, CsptpSourceConfig, InternalState};

// ---------------------------------------------------------------------------------
// byte-level datagram builder / inspector (shared with C45)
// ---------------------------------------------------------------------------------
pub(super) mod wire {
    extern crate std;
    use std::prelude::v1::*;
    use std::vec;

    pub const TLV_REQ: u16 = 0xff00;
    pub const TLV_RESP: u16 = 0xff01;
    pub const TLV_STATUS: u16 = 0xf002;
    pub const TLV_PAD: u16 = 0x8008;

    /// A PTP datagram described field by field (IEEE 1588-2019 13.3 header layout).
    #[derive(Clone, Debug, PartialEq, Eq, Hash)]
    pub struct Pkt {
        pub mtype: u8,
        pub sdo: u16,
        pub ver: u8, // octet 1: minorVersionPTP << 4 | versionPTP
        pub domain: u8,
        pub flag0: u8,
        pub flag1: u8,
        pub corr: i64,
        pub seq: u16,
        pub logint: u8,
        pub body: Vec<u8>,
        pub tlvs: Vec<(u16, Vec<u8>)>,
        /// messageLength = real length + len_delta
        pub len_delta: i32,
    }

    pub const F0_TWO_STEP: u8 = 0x02;
    pub const F0_UNICAST: u8 = 0x04;
    pub const F1_LEAP61: u8 = 0x01;
    pub const F1_LEAP59: u8 = 0x02;

    impl Pkt {
        pub fn new(mtype: u8, domain: u8, seq: u16) -> Pkt {
            Pkt { mtype, sdo: 0x300, ver: 0x12, domain, flag0: F0_UNICAST, flag1: 0, corr: 0, seq, logint: 0x7f, body: ts10(0, 0), tlvs: vec![], len_delta: 0 }
        }
        pub fn bytes(&self) -> Vec<u8> {
            let mut b = vec![0u8; 34];
            b[0] = (((self.sdo >> 8) as u8) << 4) | (self.mtype & 0x0f);
            b[1] = self.ver;
            b[4] = self.domain;
            b[5] = (self.sdo & 0xff) as u8;
            b[6] = self.flag0;
            b[7] = self.flag1;
            b[8..16].copy_from_slice(&self.corr.to_be_bytes());
            b[30..32].copy_from_slice(&self.seq.to_be_bytes());
            b[33] = self.logint;
            b.extend_from_slice(&self.body);
            for (t, v) in &self.tlvs {
                b.extend_from_slice(&t.to_be_bytes());
                b.extend_from_slice(&(v.len() as u16).to_be_bytes());
                b.extend_from_slice(v);
            }
            let l = (b.len() as i32 + self.len_delta) as u16;
            b[2..4].copy_from_slice(&l.to_be_bytes());
            b
        }
    }

    pub fn ts10(sec: u64, nanos: u32) -> Vec<u8> {
        let mut v = sec.to_be_bytes()[2..8].to_vec();
        v.extend_from_slice(&nanos.to_be_bytes());
        v
    }
    pub fn read_ts(b: &[u8]) -> (u64, u32) {
        let mut s = [0u8; 8];
        s[2..8].copy_from_slice(&b[0..6]);
        (u64::from_be_bytes(s), u32::from_be_bytes([b[6], b[7], b[8], b[9]]))
    }
    pub fn resp_tlv(sec: u64, nanos: u32, corr: i64) -> (u16, Vec<u8>) {
        let mut v = ts10(sec, nanos);
        v.extend_from_slice(&corr.to_be_bytes());
        (TLV_RESP, v)
    }
    pub fn req_tlv(flags: u8) -> (u16, Vec<u8>) {
        (TLV_REQ, vec![flags, 0, 0, 0])
    }
    pub fn status_tlv(p1: u8, class: u8, acc: u8, var: u16, p2: u8, steps: u16, utc: i16, gm: [u8; 8]) -> (u16, Vec<u8>) {
        let mut v = vec![p1, class, acc];
        v.extend_from_slice(&var.to_be_bytes());
        v.push(p2);
        v.extend_from_slice(&steps.to_be_bytes());
        v.extend_from_slice(&utc.to_be_bytes());
        v.extend_from_slice(&gm);
        (TLV_STATUS, v)
    }

    /// What an independent reader sees in a datagram.
    #[derive(Clone, Debug, PartialEq, Eq)]
    pub struct Seen {
        pub mtype: u8,
        pub sdo: u16,
        pub major: u8,
        pub minor: u8,
        pub len: usize,
        pub domain: u8,
        pub flag0: u8,
        pub flag1: u8,
        pub corr: i64,
        pub seq: u16,
        pub logint: u8,
        pub body_ts: (u64, u32),
        pub tlvs: Vec<(u16, Vec<u8>)>,
    }

    #[derive(Clone, Copy, Debug, PartialEq, Eq)]
    pub enum Class {
        /// not a CSPTP message by any reading: must be ignored
        Invalid,
        /// the statement / PTP leave it open (e.g. nanoseconds == 10^9, duplicate CSPTP TLVs,
        /// a trailing empty TLV which the library wrongly rejects [C41]): either reading accepted
        Grey,
        Valid,
    }
    #[derive(Clone, Copy, Debug, PartialEq, Eq)]
    pub enum Kind {
        Request,
        Response,
        FollowUp,
    }

    /// Independent classification of a received datagram as a CSPTP message.
    pub fn classify(d: &[u8]) -> (Class, Option<(Kind, Seen)>) {
        if d.len() < 44 {
            return (Class::Invalid, None);
        }
        let len = u16::from_be_bytes([d[2], d[3]]) as usize;
        let sdo = (((d[0] >> 4) as u16) << 8) | d[5] as u16;
        let mtype = d[0] & 0x0f;
        let major = d[1] & 0x0f;
        if major != 2 || sdo != 0x300 || (mtype != 0 && mtype != 8) || len < 44 || len > d.len() {
            return (Class::Invalid, None);
        }
        let mut grey = false;
        let body_ts = read_ts(&d[34..44]);
        if body_ts.1 > 1_000_000_000 {
            return (Class::Invalid, None);
        }
        if body_ts.1 == 1_000_000_000 {
            grey = true;
        }
        let mut tlvs = Vec::new();
        let mut o = 44;
        while len - o >= 4 {
            let t = u16::from_be_bytes([d[o], d[o + 1]]);
            let l = u16::from_be_bytes([d[o + 2], d[o + 3]]) as usize;
            if l % 2 == 1 || o + 4 + l > len {
                return (Class::Invalid, None);
            }
            tlvs.push((t, d[o + 4..o + 4 + l].to_vec()));
            o += 4 + l;
        }
        if o != len {
            return (Class::Invalid, None);
        }
        if tlvs.last().is_some_and(|t| t.1.is_empty()) {
            grey = true;
        }
        let seen = Seen {
            mtype,
            sdo,
            major,
            minor: d[1] >> 4,
            len,
            domain: d[4],
            flag0: d[6],
            flag1: d[7],
            corr: i64::from_be_bytes(d[8..16].try_into().unwrap()),
            seq: u16::from_be_bytes([d[30], d[31]]),
            logint: d[33],
            body_ts,
            tlvs,
        };
        if mtype == 8 {
            return (if grey { Class::Grey } else { Class::Valid }, Some((Kind::FollowUp, seen)));
        }
        let nreq = seen.tlvs.iter().filter(|t| t.0 == TLV_REQ).count();
        let nresp = seen.tlvs.iter().filter(|t| t.0 == TLV_RESP).count();
        if nreq + nresp == 0 {
            return (Class::Invalid, None);
        }
        if nreq + nresp > 1 {
            // the library rejects these; nothing in the statement says it must
            if nreq > 0 && nresp > 0 {
                // neither a request nor a response
                return (Class::Invalid, None);
            }
            let kind = if nresp > 0 { Kind::Response } else { Kind::Request };
            let usable = seen.tlvs.iter().filter(|t| t.0 == TLV_REQ).all(|t| !t.1.is_empty()) && seen.tlvs.iter().filter(|t| t.0 == TLV_RESP).all(|t| t.1.len() >= 18 && read_ts(&t.1).1 < 1_000_000_000);
            return if usable { (Class::Grey, Some((kind, seen))) } else { (Class::Invalid, None) };
        }
        if nreq == 1 {
            let v = &seen.tlvs.iter().find(|t| t.0 == TLV_REQ).unwrap().1;
            if v.is_empty() {
                return (Class::Invalid, None);
            }
            return (if grey { Class::Grey } else { Class::Valid }, Some((Kind::Request, seen)));
        }
        let v = &seen.tlvs.iter().find(|t| t.0 == TLV_RESP).unwrap().1;
        if v.len() < 18 {
            return (Class::Invalid, None);
        }
        let n = read_ts(v).1;
        if n > 1_000_000_000 {
            return (Class::Invalid, None);
        }
        if n == 1_000_000_000 || v.len() > 18 {
            grey = true;
        }
        (if grey { Class::Grey } else { Class::Valid }, Some((Kind::Response, seen)))
    }

    pub fn resp_fields(s: &Seen) -> Option<((u64, u32), i64)> {
        let v = &s.tlvs.iter().find(|t| t.0 == TLV_RESP)?.1;
        if v.len() < 18 {
            return None;
        }
        Some((read_ts(v), i64::from_be_bytes(v[10..18].try_into().unwrap())))
    }
}

// ---------------------------------------------------------------------------------
// executor (shared with C45)
// ---------------------------------------------------------------------------------
pub(super) fn block_on_steps<F: Future>(fut: F, max_polls: usize) -> Result<(F::Output, usize), String> {
    let mut fut = core::pin::pin!(fut);
    let mut cx = Context::from_waker(Waker::noop());
    for i in 0..max_polls {
        if let Poll::Ready(v) = fut.as_mut().poll(&mut cx) {
            return Ok((v, i + 1));
        }
    }
    Err(format!("future still pending after {max_polls} polls"))
}

/// Deterministic rng for the poll-interval jitter (splitmix64).
pub(super) struct Rng(u64);
impl rand::RngCore for Rng {
    fn next_u32(&mut self) -> u32 {
        (self.next_u64() >> 32) as u32
    }
    fn next_u64(&mut self) -> u64 {
        self.0 = self.0.wrapping_add(0x9e3779b97f4a7c15);
        let mut z = self.0;
        z = (z ^ (z >> 30)).wrapping_mul(0xbf58476d1ce4e5b9);
        z = (z ^ (z >> 27)).wrapping_mul(0x94d049bb133111eb);
        z ^ (z >> 31)
    }
    fn fill_bytes(&mut self, dest: &mut [u8]) {
        for b in dest {
            *b = self.next_u64() as u8;
        }
    }
    fn try_fill_bytes(&mut self, dest: &mut [u8]) -> Result<(), rand::Error> {
        self.fill_bytes(dest);
        Ok(())
    }
}

// ---------------------------------------------------------------------------------
// scenario, mocks
// ---------------------------------------------------------------------------------
type Ts = (u64, u32);

#[derive(Clone, Debug, PartialEq, Eq, Hash)]
enum Ev {
    Dgram { bytes: Vec<u8>, ts: Option<Ts> },
    RecvErr,
}

#[derive(Clone, Debug, PartialEq, Eq, Hash)]
struct Req {
    /// `None` = send_event fails
    send: Option<Ts>,
    events: Vec<Ev>,
    /// this request repeated `repeat` times (trace compression for S4)
    repeat: u32,
}

#[derive(Clone, Debug, PartialEq, Eq, Hash)]
struct Scenario {
    domain: u8,
    /// the source is the manager's active source (status TLVs are applied)
    active: bool,
    /// socket creation fails at this request index (run returns Err)
    sockerr: Option<usize>,
    reqs: Vec<Req>,
}

impl Scenario {
    fn nreq(&self) -> usize {
        self.reqs.iter().map(|r| r.repeat as usize).sum()
    }
    fn req(&self, mut k: usize) -> &Req {
        for r in &self.reqs {
            if k < r.repeat as usize {
                return r;
            }
            k -= r.repeat as usize;
        }
        unreachable!()
    }
}

#[derive(Clone, Debug)]
enum Out {
    Usable { req: usize, pos: usize, v: bool },
    Meas { req: usize, pos: usize, m: Measurement },
}

struct Env {
    sc: Scenario,
    nreq: usize,
    created: usize,
    pos: usize,
    sent: Vec<(usize, Vec<u8>)>,
    done: bool,
    out: Vec<Out>,
    sleeps: Vec<Duration>,
    consumed: Vec<usize>,
    state_at: Vec<String>,
}

const POLL: Duration = Duration::from_millis(1000);
const RESP: Duration = Duration::from_millis(7);

struct Sock {
    env: Arc<Mutex<Env>>,
    idx: usize,
}

impl ClientSocket for Sock {
    type Error = &'static str;

    fn recv(&mut self, buf: &mut [u8]) -> impl Future<Output = Result<ClientRecvResult, Self::Error>> {
        let env = self.env.clone();
        let idx = self.idx;
        core::future::poll_fn(move |_cx| {
            let mut e = env.lock().unwrap();
            if e.created != idx + 1 {
                return Poll::Pending;
            }
            let pos = e.pos;
            let ev = e.sc.req(idx).events.get(pos).cloned();
            match ev {
                None => Poll::Pending,
                Some(ev) => {
                    e.pos += 1;
                    match ev {
                        Ev::RecvErr => Poll::Ready(Err("recv error")),
                        Ev::Dgram { bytes, ts } => {
                            let n = bytes.len().min(buf.len());
                            buf[..n].copy_from_slice(&bytes[..n]);
                            Poll::Ready(Ok(ClientRecvResult { bytes_read: n, timestamp: ts.map(|t| Timestamp::new(t.0, t.1).unwrap()) }))
                        }
                    }
                }
            }
        })
    }

    fn send_event(&mut self, buf: &[u8]) -> impl Future<Output = Result<Timestamp, Self::Error>> {
        let mut e = self.env.lock().unwrap();
        let idx = self.idx;
        e.sent.push((idx, buf.to_vec()));
        let r = match e.sc.req(idx).send {
            Some(t) => Ok(Timestamp::new(t.0, t.1).unwrap()),
            None => Err("send error"),
        };
        core::future::ready(r)
    }
}

impl Drop for Sock {
    fn drop(&mut self) {
        let mut e = self.env.lock().unwrap();
        let p = e.pos;
        e.consumed.push(p);
    }
}

struct SleepFut {
    env: Arc<Mutex<Env>>,
    timeout_of: Option<usize>,
}
impl Future for SleepFut {
    type Output = ();
    fn poll(self: Pin<&mut Self>, _cx: &mut Context<'_>) -> Poll<()> {
        let mut e = self.env.lock().unwrap();
        match self.timeout_of {
            Some(idx) => {
                // the response timeout fires once every scripted event of its request has been delivered
                if e.created != idx + 1 || e.pos >= e.sc.req(idx).events.len() {
                    Poll::Ready(())
                } else {
                    Poll::Pending
                }
            }
            None => {
                // poll interval: elapses as long as another request (or a failing socket) is scripted
                if e.created < e.nreq || e.sc.sockerr == Some(e.created) {
                    Poll::Ready(())
                } else {
                    e.done = true;
                    Poll::Pending
                }
            }
        }
    }
}

struct Ctl {
    env: Arc<Mutex<Env>>,
}
impl SourceController for Ctl {
    fn handle_measurement(&mut self, m: Measurement) {
        let mut e = self.env.lock().unwrap();
        let (req, pos) = (e.created.wrapping_sub(1), e.pos);
        e.out.push(Out::Meas { req, pos, m });
    }
    fn set_usable(&mut self, v: bool) {
        let mut e = self.env.lock().unwrap();
        let (req, pos) = (e.created.wrapping_sub(1), e.pos);
        e.out.push(Out::Usable { req, pos, v });
    }
    fn desired_poll_interval(&self) -> PollInterval {
        PollInterval::default()
    }
    fn observe(&self) -> ObservableSourceTimedata {
        unimplemented!("not used by CsptpSource")
    }
}

struct Obs {
    result: String,
    out: Vec<Out>,
    sent: Vec<(usize, Vec<u8>)>,
    consumed: Vec<usize>,
    sleeps: Vec<Duration>,
    state_at: Vec<String>,
    state_end: String,
    state_end_val: crate::CsptpState,
    polls: usize,
    remote: ClockId,
}

/// Execute one scenario against the real `CsptpSource`. `Err` = panic message.
fn run_scenario(sc: &Scenario) -> Result<Obs, String> {
    let nreq = sc.nreq();
    let env = Arc::new(Mutex::new(Env { sc: sc.clone(), nreq, created: 0, pos: 0, sent: vec![], done: false, out: vec![], sleeps: vec![], consumed: vec![], state_at: vec![], }));
    let manager: CsptpManager<RefCell<InternalState>> = CsptpManager::new(CsptpConfig::default());
    let remote = ClockId::new();
    if sc.active {
        crate::StateMutex::with_mut(&manager.state, |s| s.active_source = Some(remote));
    }
    let cfg = CsptpSourceConfig { poll_interval: POLL, response_interval: RESP, domain: sc.domain };
    let max_polls = 4 * nreq + 16;
    let r = common::catch(|| {
        let mut source = CsptpSource::new(ClockId::SYSTEM, remote, cfg, &manager, Ctl { env: env.clone() });
        let e1 = env.clone();
        let shutdown = core::future::poll_fn(move |_| if e1.lock().unwrap().done { Poll::Ready(()) } else { Poll::Pending });
        let e2 = env.clone();
        let mgr = &manager;
        let create_socket = move || {
            let mut e = e2.lock().unwrap();
            let st = format!("{:?}", mgr.observe());
            e.state_at.push(st);
            if e.sc.sockerr == Some(e.created) {
                return Err("socket error");
            }
            let idx = e.created;
            e.created += 1;
            e.pos = 0;
            Ok(Sock { env: e2.clone(), idx })
        };
        let e3 = env.clone();
        let sleep = move |d: Duration| {
            let mut e = e3.lock().unwrap();
            e.sleeps.push(d);
            let timeout_of = if d == RESP { Some(e.created.wrapping_sub(1)) } else { None };
            SleepFut { env: e3.clone(), timeout_of }
        };
        let mut seed = 0x1234_5678u64;
        let rng = move || {
            seed = seed.wrapping_add(1);
            Rng(seed)
        };
        block_on_steps(source.run(shutdown, create_socket, sleep, rng), max_polls)
    });
    let (result, polls) = match r {
        Err(p) => return Err(p),
        Ok(Err(stuck)) => (format!("STUCK: {stuck}"), max_polls),
        Ok(Ok((Ok(()), n))) => ("ok".to_string(), n),
        Ok(Ok((Err(e), n))) => (format!("err:{e}"), n),
    };
    let mut e = env.lock().unwrap();
    let state_end_val = manager.observe();
    Ok(Obs {
        result,
        out: std::mem::take(&mut e.out),
        sent: std::mem::take(&mut e.sent),
        consumed: std::mem::take(&mut e.consumed),
        sleeps: std::mem::take(&mut e.sleeps),
        state_at: std::mem::take(&mut e.state_at),
        state_end: format!("{state_end_val:?}"),
        state_end_val,
        polls,
        remote,
    })
}

// ---------------------------------------------------------------------------------
// reference model
// ---------------------------------------------------------------------------------
const NS: i128 = 1_000_000_000;

/// ts + correction (scaled ns, 2^-16) for each admissible rounding; None = leaves [0, 2^48 s)
fn corrected(ts: Ts, corr_scaled: i128) -> Vec<Option<Ts>> {
    let base = ts.0 as i128 * NS + ts.1 as i128;
    let floor = corr_scaled.div_euclid(65536);
    let trunc = corr_scaled / 65536;
    let near = (corr_scaled + 32768).div_euclid(65536);
    let mut v: Vec<Option<Ts>> = Vec::new();
    for c in [floor, trunc, near] {
        let t = base + c;
        let r = if t < 0 || t >= (1i128 << 48) * NS { None } else { Some(((t / NS) as u64, (t % NS) as u32)) };
        if !v.contains(&r) {
            v.push(r);
        }
    }
    v
}

/// PTP (TAI, 1970) -> NTP era timestamp (UTC, 1900): 70 years incl. 17 leap days, TAI-UTC = 37 s
fn ntp_of(t: Ts) -> NtpTimestamp {
    let s = (t.0 as u128 + 2_208_988_800 - 37) % (1u128 << 32);
    NtpTimestamp::from_seconds_nanos_since_ntp_era(s as u32, t.1)
}

#[derive(Clone, Debug)]
struct Seenv {
    class: wire::Class,
    kind: wire::Kind,
    s: wire::Seen,
    rx: Option<Ts>,
}

fn matching(ev: &Ev, domain: u8, seq: u16) -> Option<Seenv> {
    let Ev::Dgram { bytes, ts } = ev else { return None };
    let view = &bytes[..bytes.len().min(512)];
    let (class, ks) = wire::classify(view);
    let (kind, s) = ks?;
    if class == wire::Class::Invalid || s.domain != domain || s.seq != seq {
        return None;
    }
    Some(Seenv { class, kind, s, rx: *ts })
}

/// Can the measurement pair (m1, m2) come from `resp` (+ `fu`) sent at `t1`?
/// Ok(()) or a description of the first field that does not fit.
fn values_fit(t1: Ts, resp: &Seenv, fu: Option<&Seenv>, m1: &Measurement, m2: &Measurement, remote: ClockId) -> Result<(), String> {
    let (t2, c1) = wire::resp_fields(&resp.s).ok_or("no response TLV")?;
    let t4 = resp.rx.ok_or("response without receive timestamp")?;
    let (t3, csum): (Ts, Vec<i128>) = match fu {
        Some(f) => {
            let exact = resp.s.corr as i128 + f.s.corr as i128;
            let sat = resp.s.corr.saturating_add(f.s.corr) as i128;
            (f.s.body_ts, if exact == sat { vec![exact] } else { vec![exact, sat] })
        }
        None => (resp.s.body_ts, vec![resp.s.corr as i128]),
    };
    if m1.sender_id != ClockId::SYSTEM || m1.receiver_id != remote {
        return Err(format!("first measurement goes {:?} -> {:?}, expected local -> remote", m1.sender_id, m1.receiver_id));
    }
    if m2.sender_id != remote || m2.receiver_id != ClockId::SYSTEM {
        return Err(format!("second measurement goes {:?} -> {:?}, expected remote -> local", m2.sender_id, m2.receiver_id));
    }
    // malformed-but-tolerated nanosecond fields make the arithmetic undefined
    if t2.1 >= 1_000_000_000 || t3.1 >= 1_000_000_000 {
        return Ok(());
    }
    let fits = |got: NtpTimestamp, cands: &[Option<Ts>]| cands.iter().any(|c| c.is_none_or(|t| ntp_of(t) == got));
    let c_t1 = corrected(t1, c1 as i128);
    if !fits(m1.sender_ts, &c_t1) {
        return Err(format!("request send time: got {:?}, expected send {t1:?} + correction {c1} -> {c_t1:?}", m1.sender_ts));
    }
    if m1.receiver_ts != ntp_of(t2) {
        return Err(format!("request receive time: got {:?}, response TLV says {t2:?}", m1.receiver_ts));
    }
    let mut c_t3 = Vec::new();
    for c in &csum {
        c_t3.extend(corrected(t3, *c));
    }
    if !fits(m2.sender_ts, &c_t3) {
        return Err(format!("response send time: got {:?}, expected {t3:?} + correction {csum:?} -> {c_t3:?}", m2.sender_ts));
    }
    if m2.receiver_ts != ntp_of(t4) {
        return Err(format!("response receive time: got {:?}, socket said {t4:?}", m2.receiver_ts));
    }
    let l59 = resp.s.flag1 & wire::F1_LEAP59 != 0;
    let l61 = resp.s.flag1 & wire::F1_LEAP61 != 0;
    let leap_ok = |l: NtpLeapIndicator| match (l59, l61) {
        (false, false) => l == NtpLeapIndicator::NoWarning,
        (true, false) => l == NtpLeapIndicator::Leap59,
        (false, true) => l == NtpLeapIndicator::Leap61,
        (true, true) => l == NtpLeapIndicator::Leap59 || l == NtpLeapIndicator::Leap61,
    };
    if !leap_ok(m1.leap) || !leap_ok(m2.leap) {
        return Err(format!("leap indication {:?}/{:?} with leap59={l59} leap61={l61}", m1.leap, m2.leap));
    }
    Ok(())
}

/// Does any rounding of `ts + corr` leave the representable range?
fn range_problem(t1: Ts, resp: &Seenv, fu: Option<&Seenv>) -> bool {
    let Some((_, c1)) = wire::resp_fields(&resp.s) else { return false };
    if corrected(t1, c1 as i128).contains(&None) {
        return true;
    }
    match fu {
        Some(f) => corrected(f.s.body_ts, resp.s.corr as i128 + f.s.corr as i128).contains(&None) || corrected(f.s.body_ts, resp.s.corr.saturating_add(f.s.corr) as i128).contains(&None),
        None => corrected(resp.s.body_ts, resp.s.corr as i128).contains(&None),
    }
}

#[derive(Default)]
struct Tally {
    c: std::collections::BTreeMap<&'static str, u64>,
    distinct: Vec<u64>,
}
impl Tally {
    fn inc(&mut self, k: &'static str) {
        *self.c.entry(k).or_insert(0) += 1;
    }
    fn add(&mut self, k: &'static str, n: u64) {
        *self.c.entry(k).or_insert(0) += n;
    }
    fn flush(&mut self, ctx: &Ctx) {
        for (k, v) in std::mem::take(&mut self.c) {
            ctx.add(k, v);
        }
        ctx.distinct_many(std::mem::take(&mut self.distinct));
    }
}

/// Run + judge one scenario. Returns a deterministic one-line observation.
fn judge(ctx: &Ctx, tl: &mut Tally, sc: &Scenario) -> String {
    let trace = || fmt_scenario(sc);
    tl.inc("evaluations");
    tl.inc("scenarios");
    let obs = match run_scenario(sc) {
        Ok(o) => o,
        Err(p) => {
            let class = if p.contains("Calculated nanoseconds should be between") { "C44:add-correction-panic" } else { "C44:panic" };
            ctx.violation(class, format!("CsptpSource::run panicked (the daemon aborts): {p}"), trace());
            tl.inc("panics");
            return format!("PANIC {p}");
        }
    };
    let nreq = sc.nreq();
    tl.add("transitions", obs.consumed.iter().map(|c| *c as u64).sum::<u64>() + obs.sent.len() as u64);
    tl.add("states", obs.sent.len() as u64);
    let mut line = format!("{} polls={}", obs.result, obs.polls);
    if obs.result.starts_with("STUCK") {
        ctx.violation("C44:harness-stuck", format!("run neither finished nor consumed the script: {}", obs.result), trace());
        return line;
    }
    match sc.sockerr {
        Some(k) if k <= nreq => {
            if obs.result != "err:socket error" {
                ctx.violation("C44:socket-error-not-propagated", format!("socket creation failed at request {k} but run returned {}", obs.result), trace());
            }
        }
        _ => {
            if obs.result != "ok" {
                ctx.violation("C44:run-result", format!("run returned {} without a socket error", obs.result), trace());
            }
        }
    }
    let last = sc.sockerr.map_or(nreq, |k| k.min(nreq));
    if obs.sent.len() != last {
        ctx.violation("C44:request-count", format!("{} requests sent, {} scripted", obs.sent.len(), last), trace());
    }
    // sleeps asked for: ZERO once, then per request one poll interval in [0.9, 1.1] x poll and (if sent) the response interval
    for d in &obs.sleeps {
        if !(*d == Duration::ZERO || *d == RESP || (*d >= POLL * 9 / 10 && *d <= POLL * 11 / 10)) {
            ctx.violation("C44:sleep-duration", format!("asked to sleep {d:?} (poll {POLL:?}, response {RESP:?})"), trace());
        }
    }
    for k in 0..last {
        let rq = sc.req(k);
        // what the source actually sent: must be a CSPTP request; its ids define "current"
        let Some((_, sent)) = obs.sent.get(k).filter(|(i, _)| *i == k) else {
            ctx.violation("C44:request-count", format!("no request datagram recorded for request {k}"), trace());
            continue;
        };
        let (cl, ks) = wire::classify(sent);
        let cur = match ks {
            Some((wire::Kind::Request, s)) if cl == wire::Class::Valid => s,
            _ => {
                ctx.violation("C44:request-malformed", format!("request {k} is not a well-formed CSPTP request: {}", common::hex(sent)), trace());
                continue;
            }
        };
        if cur.domain != sc.domain || cur.seq != (k % 65536) as u16 {
            ctx.violation("C44:request-ids", format!("request {k} carries domain {} sequence {} (configured domain {}, expected sequence {})", cur.domain, cur.seq, sc.domain, k % 65536), trace());
        }
        let outs: Vec<&Out> = obs.out.iter().filter(|o| matches!(o, Out::Usable { req, .. } | Out::Meas { req, .. } if *req == k)).collect();
        let consumed = obs.consumed.get(k).copied().unwrap_or(0);
        // --- model ---
        let delivered: Vec<Option<Seenv>> = if rq.send.is_some() { rq.events.iter().map(|e| matching(e, cur.domain, cur.seq)).collect() } else { vec![] };
        // first position (1-based count of delivered events) at which a complete answer exists,
        // `must`: using Valid datagrams only
        let complete_at = |must: bool, upto: usize| -> Option<usize> {
            let ok = |s: &Seenv| !must || s.class == wire::Class::Valid;
            let mut have_r2 = false;
            let mut have_fu = false;
            for (i, d) in delivered.iter().enumerate().take(upto) {
                let Some(s) = d else { continue };
                if !ok(s) {
                    continue;
                }
                match s.kind {
                    wire::Kind::Response if s.rx.is_some() => {
                        if s.s.flag0 & wire::F0_TWO_STEP == 0 || have_fu {
                            return Some(i + 1);
                        }
                        have_r2 = true;
                    }
                    wire::Kind::FollowUp => {
                        if have_r2 {
                            return Some(i + 1);
                        }
                        have_fu = true;
                    }
                    _ => {}
                }
            }
            None
        };
        let state_changed = obs.state_at.get(k + 1).or(Some(&obs.state_end)) != obs.state_at.get(k);
        match outs.len() {
            0 => {
                tl.inc("requests_without_measurement");
                if state_changed {
                    ctx.violation("C44:state-update-without-measurement", format!("manager state changed during request {k} although no measurement was produced"), trace());
                }
                if let Some(p) = complete_at(true, delivered.len()) {
                    // tolerated when the completing data cannot be represented
                    let rp = candidate_pairs(&delivered, p).iter().any(|(r, f)| range_problem(rq.send.unwrap(), r, f.as_ref()));
                    if rp {
                        tl.inc("unrepresentable_answers_dropped");
                    } else {
                        ctx.violation("C44:measurement-missing-or-late", format!("request {k}: a complete matching answer was delivered by event {p} but no measurement was produced"), trace());
                    }
                }
                line.push_str(&format!(" r{k}:none@{consumed}"));
            }
            3 => {
                let (Out::Usable { v: true, pos: p0, .. }, Out::Meas { m: m1, pos: p1, .. }, Out::Meas { m: m2, pos: p2, .. }) = (outs[0], outs[1], outs[2]) else {
                    ctx.violation("C44:controller-call-shape", format!("request {k}: controller saw {outs:?}, expected set_usable(true) + 2 measurements"), trace());
                    continue;
                };
                if p0 != p1 || p1 != p2 {
                    ctx.violation("C44:controller-call-shape", format!("request {k}: the pair was delivered across different socket positions {p0},{p1},{p2}"), trace());
                }
                let pos = *p1;
                tl.inc("requests_with_measurement");
                // the datagram just delivered must complete a matching answer
                let pairs = if pos >= 1 && pos <= delivered.len() { candidate_pairs(&delivered, pos) } else { vec![] };
                if rq.send.is_none() || pairs.is_empty() {
                    ctx.violation(
                        "C44:unmatched-measurement",
                        format!("request {k} (domain {} sequence {}): measurement produced after {pos} received events although no response (+ follow-up) with the current ids and a receive timestamp was complete at that point", cur.domain, cur.seq),
                        trace(),
                    );
                } else {
                    let t1 = rq.send.unwrap();
                    let fits: Vec<Result<(), String>> = pairs.iter().map(|(r, f)| values_fit(t1, r, f.as_ref(), m1, m2, obs.remote)).collect();
                    if !fits.iter().any(|f| f.is_ok()) {
                        ctx.violation("C44:measurement-values", format!("request {k}: measurement does not carry the values of the matching answer: {}", fits[0].clone().unwrap_err()), trace());
                    }
                    match complete_at(true, delivered.len()) {
                        Some(p) if p < pos => ctx.violation("C44:measurement-missing-or-late", format!("request {k}: answer complete at event {p}, measurement only at {pos}"), trace()),
                        _ => {}
                    }
                    if state_changed {
                        tl.inc("state_updates");
                        let any_status = pairs.iter().any(|(r, _)| r.s.tlvs.iter().any(|t| t.0 == wire::TLV_STATUS && t.1.len() >= 18));
                        if !sc.active || !any_status {
                            ctx.violation("C44:state-update-unjustified", format!("request {k}: manager state changed (active={}, status TLV in the used response: {any_status})", sc.active), trace());
                        }
                    }
                    if pairs.iter().any(|(r, f)| r.class == wire::Class::Grey || f.as_ref().is_some_and(|f| f.class == wire::Class::Grey)) {
                        tl.inc("measurements_from_grey_datagrams");
                    }
                }
                line.push_str(&format!(" r{k}:meas@{pos}"));
            }
            n => {
                let meas = outs.iter().filter(|o| matches!(o, Out::Meas { .. })).count();
                let class = if meas > 2 { "C44:duplicate-measurement" } else { "C44:controller-call-shape" };
                ctx.violation(class, format!("request {k}: controller saw {n} calls ({meas} measurements): more than one measurement pair per request"), trace());
                line.push_str(&format!(" r{k}:calls{n}"));
            }
        }
        if obs.consumed.get(k).is_some_and(|c| *c > rq.events.len()) {
            ctx.violation("C44:harness-accounting", "consumed more events than scripted", trace());
        }
    }
    // anything attributed to a request index that never existed
    if obs.out.iter().any(|o| matches!(o, Out::Usable { req, .. } | Out::Meas { req, .. } if *req >= last)) {
        ctx.violation("C44:unmatched-measurement", "controller called outside of any request", trace());
    }
    if obs.out.iter().any(|o| matches!(o, Out::Usable { v: false, .. })) {
        tl.inc("set_usable_false_calls");
    }
    tl.distinct.push(common::hash_of(&(sc, &line)));
    line
}

/// All (response, follow-up?) combinations that the datagram delivered last (index pos-1)
/// completes, among the matching datagrams delivered so far.
fn candidate_pairs(delivered: &[Option<Seenv>], pos: usize) -> Vec<(Seenv, Option<Seenv>)> {
    let mut v = Vec::new();
    let Some(Some(last)) = delivered.get(pos - 1) else { return v };
    let earlier: Vec<&Seenv> = delivered[..pos - 1].iter().flatten().collect();
    match last.kind {
        wire::Kind::Response if last.rx.is_some() => {
            if last.s.flag0 & wire::F0_TWO_STEP == 0 {
                v.push((last.clone(), None));
            } else {
                for f in earlier.iter().filter(|s| s.kind == wire::Kind::FollowUp) {
                    v.push((last.clone(), Some((*f).clone())));
                }
            }
        }
        wire::Kind::FollowUp => {
            for r in earlier.iter().filter(|s| s.kind == wire::Kind::Response && s.rx.is_some() && s.s.flag0 & wire::F0_TWO_STEP != 0) {
                v.push(((*r).clone(), Some(last.clone())));
            }
        }
        _ => {}
    }
    v
}

// ---------------------------------------------------------------------------------
// alphabet
// ---------------------------------------------------------------------------------
#[derive(Clone, Copy, Debug)]
struct Vals {
    t2: Ts,
    c1: i64,
    t3: Ts,
    c: i64,
    cfu: i64,
    t4: Ts,
}
const DEFAULT_VALS: Vals = Vals { t2: (1000, 5), c1: 3 << 16, t3: (1000, 700), c: 0x8000, cfu: 0x1_8000, t4: (1001, 9) };
const ALT_VALS: Vals = Vals { t2: (2000, 15), c1: 7 << 16, t3: (2000, 1700), c: -0x8000, cfu: 5 << 16, t4: (2001, 19) };

const NSYM: usize = 20;
const SYM_NAMES: [&str; NSYM] = [
    "R1", "R2", "FU", "R1stale", "R2stale", "FUstale", "R1dom", "FUdom", "REQ", "ANN", "GARBAGE", "R1nots", "RECVERR", "R2alt", "FUalt", "R1status", "R1sdo", "R1trunc", "R2nots", "R1swapseq",
];

fn response(d: u8, s: u16, two_step: bool, v: &Vals) -> wire::Pkt {
    let mut p = wire::Pkt::new(0, d, s);
    if two_step {
        p.flag0 |= wire::F0_TWO_STEP;
        p.body = wire::ts10(0, 0);
    } else {
        p.body = wire::ts10(v.t3.0, v.t3.1);
    }
    p.corr = v.c;
    p.tlvs = vec![wire::resp_tlv(v.t2.0, v.t2.1, v.c1)];
    p
}
fn follow_up(d: u8, s: u16, v: &Vals) -> wire::Pkt {
    let mut p = wire::Pkt::new(8, d, s);
    p.flag0 |= wire::F0_TWO_STEP;
    p.body = wire::ts10(v.t3.0, v.t3.1);
    p.corr = v.cfu;
    p
}

fn sym_event(sym: usize, d: u8, s: u16) -> Ev {
    let v = &DEFAULT_VALS;
    let dg = |p: wire::Pkt, ts: Option<Ts>| Ev::Dgram { bytes: p.bytes(), ts };
    match sym {
        0 => dg(response(d, s, false, v), Some(v.t4)),
        1 => dg(response(d, s, true, v), Some(v.t4)),
        2 => dg(follow_up(d, s, v), None),
        3 => dg(response(d, s.wrapping_sub(1), false, v), Some(v.t4)),
        4 => dg(response(d, s.wrapping_sub(1), true, v), Some(v.t4)),
        5 => dg(follow_up(d, s.wrapping_sub(1), v), None),
        6 => dg(response(d ^ 1, s, false, v), Some(v.t4)),
        7 => dg(follow_up(d.wrapping_add(1), s, v), None),
        8 => {
            let mut p = wire::Pkt::new(0, d, s);
            p.tlvs = vec![wire::req_tlv(1)];
            dg(p, Some(v.t4))
        }
        9 => {
            let mut p = wire::Pkt::new(0xb, d, s);
            p.body = vec![0u8; 30];
            dg(p, Some(v.t4))
        }
        10 => Ev::Dgram { bytes: vec![0xff; 20], ts: Some(v.t4) },
        11 => dg(response(d, s, false, v), None),
        12 => Ev::RecvErr,
        13 => dg(response(d, s, true, &ALT_VALS), Some(ALT_VALS.t4)),
        14 => dg(follow_up(d, s, &ALT_VALS), None),
        15 => {
            let mut p = response(d, s, false, v);
            p.flag1 = wire::F1_LEAP59 | 0x08 | 0x10;
            p.tlvs.push(wire::status_tlv(10, 6, 0x21, 0x1234, 20, 0xffff, 37, [9; 8]));
            dg(p, Some(v.t4))
        }
        16 => {
            let mut p = response(d, s, false, v);
            p.sdo = 0;
            dg(p, Some(v.t4))
        }
        17 => {
            let mut b = response(d, s, false, v).bytes();
            b.pop();
            Ev::Dgram { bytes: b, ts: Some(v.t4) }
        }
        18 => dg(response(d, s, true, v), None),
        _ => dg(response(d, s.swap_bytes() ^ if s == s.swap_bytes() { 0x0100 } else { 0 }, false, v), Some(v.t4)),
    }
}

fn seq_events(word: &[usize], d: u8, s: u16) -> Vec<Ev> {
    word.iter().map(|x| sym_event(*x, d, s)).collect()
}

/// index -> word over `k` symbols of length <= maxlen (shortest first)
fn word_of_index(mut i: u64, k: usize, maxlen: usize) -> Vec<usize> {
    for len in 0..=maxlen {
        let n = common::pow(k, len);
        if i < n {
            return common::word_of(i, k, len);
        }
        i -= n;
    }
    unreachable!()
}
fn words_upto(k: usize, maxlen: usize) -> u64 {
    (0..=maxlen).map(|l| common::pow(k, l)).sum()
}

// ---------------------------------------------------------------------------------
// trace format
// ---------------------------------------------------------------------------------
fn fmt_scenario(sc: &Scenario) -> String {
    let mut s = format!("dom={};act={};sockerr={}", sc.domain, sc.active as u8, sc.sockerr.map_or("-".to_string(), |k| k.to_string()));
    for r in &sc.reqs {
        s.push('/');
        match r.send {
            Some(t) => s.push_str(&format!("s{}.{}", t.0, t.1)),
            None => s.push_str("sx"),
        }
        if r.repeat != 1 {
            s.push_str(&format!("*{}", r.repeat));
        }
        s.push(':');
        let evs: Vec<String> = r
            .events
            .iter()
            .map(|e| match e {
                Ev::RecvErr => "e".to_string(),
                Ev::Dgram { bytes, ts } => format!("d{}@{}", common::hex(bytes), ts.map_or("-".to_string(), |t| format!("{}.{}", t.0, t.1))),
            })
            .collect();
        s.push_str(&evs.join(","));
    }
    s
}

fn parse_ts(s: &str) -> Option<Ts> {
    let (a, b) = s.split_once('.')?;
    Some((a.parse().ok()?, b.parse().ok()?))
}

fn parse_scenario(t: &str) -> Option<Scenario> {
    let mut parts = t.split('/');
    let head = parts.next()?;
    let mut sc = Scenario { domain: 128, active: false, sockerr: None, reqs: vec![] };
    for kv in head.split(';') {
        let (k, v) = kv.split_once('=')?;
        match k {
            "dom" => sc.domain = v.parse().ok()?,
            "act" => sc.active = v == "1",
            "sockerr" => sc.sockerr = v.parse().ok(),
            _ => return None,
        }
    }
    for p in parts {
        let (send, evs) = p.split_once(':')?;
        let (send, repeat) = match send.split_once('*') {
            Some((a, n)) => (a, n.parse().ok()?),
            None => (send, 1),
        };
        let send = if send == "sx" { None } else { Some(parse_ts(send.strip_prefix('s')?)?) };
        let mut events = Vec::new();
        for e in evs.split(',').filter(|e| !e.is_empty()) {
            if e == "e" {
                events.push(Ev::RecvErr);
            } else {
                let (h, ts) = e.strip_prefix('d')?.split_once('@')?;
                events.push(Ev::Dgram { bytes: common::unhex(h)?, ts: if ts == "-" { None } else { Some(parse_ts(ts)?) } });
            }
        }
        sc.reqs.push(Req { send, events, repeat });
    }
    Some(sc)
}

fn replay(ctx: &Ctx, trace: &str) -> String {
    match parse_scenario(trace) {
        Some(sc) => judge(ctx, &mut Tally::default(), &sc),
        None => "unparsable trace".to_string(),
    }
}

// ---------------------------------------------------------------------------------
// check
// ---------------------------------------------------------------------------------
const T1_DEFAULT: Ts = (999, 999_999_990);

#[test]
fn check() {
    let ctx = Ctx::new("C44");
    if let Some(t) = common::replay_trace() {
        let a = replay(&ctx, &t);
        let b = replay(&ctx, &t);
        common::report_replay("C44", &a, &b, ctx.violation_count() > 0);
        return;
    }
    let quick = ctx.quick();
    ctx.rule(
        "S1: one request x every received-event sequence of length <=4 (thorough <=5) over 20 symbols {one-step response, two-step response, follow-up, \
         the three with the previous sequence id, response/follow-up with another domain, request-TLV sync, announce, garbage, response \
         without receive timestamp (1- and 2-step), recv error, alternative-valued two-step response / follow-up, response with status TLV, \
         wrong sdoId, truncated, byte-swapped sequence id}, each implicitly ended by the response timeout (= timeout at every position); \
         S2: two consecutive requests x every pair of sequences (<=2/<=2 quick; <=3/<=2 and <=2/<=3 thorough) x request 0 sent / send error; \
         S3: the completing shapes [R1], [R2,FU], [FU,R2] x send time x request correction x origin time x correction(s) over the \
         boundary sets; S4: alphabet at sequence ids 255..257, after a 65536 wrap, socket failure at each index. \
         Non-trivial & distinct = distinct (scenario, per-request outcome) pair.",
    );
    ctx.assume("the mock delivers datagrams in script order; the response timeout fires exactly when the scripted events of the request are used up (every prefix is enumerated, so every timeout position is covered)");
    ctx.assume("ntp-proto's NtpTimestamp::from_seconds_nanos_since_ntp_era and PartialEq are trusted for comparing measurement timestamps");
    ctx.assume("values: correction is applied as floor, truncation or round-to-nearest of the 2^-16 ns field (any accepted); sum of two corrections exact or saturating (either accepted)");

    // ---- S1 ----
    let maxlen = if quick { 4 } else { 5 };
    let n1 = words_upto(NSYM, maxlen);
    ctx.set("s1_sequences", n1);
    common::par_for(n1, 256, |i| {
        let mut tl = Tally::default();
        let w = word_of_index(i, NSYM, maxlen);
        for active in [false, true] {
            // status TLVs only matter when active; skip the duplicate run otherwise
            if active && !w.contains(&15) {
                continue;
            }
            let sc = Scenario { domain: 128, active, sockerr: None, reqs: vec![Req { send: Some(T1_DEFAULT), events: seq_events(&w, 128, 0), repeat: 1 }] };
            let line = judge(&ctx, &mut tl, &sc);
            if i % 20_011 == 3 {
                ctx.sample(format!("S1 [{}] -> {line}", w.iter().map(|x| SYM_NAMES[*x]).collect::<Vec<_>>().join(",")));
            }
        }
        tl.flush(&ctx);
    });

    // ---- S2 ----
    let shapes: &[(usize, usize)] = if quick { &[(2, 2)] } else { &[(3, 2), (2, 3)] };
    for &(l0, l1) in shapes {
    let (w0, w1) = (words_upto(NSYM, l0), words_upto(NSYM, l1));
    ctx.add("s2_pairs", w0 * w1 * 2);
    common::par_for(w0 * w1, 256, |i| {
        let mut tl = Tally::default();
        let a = word_of_index(i / w1, NSYM, l0);
        let b = word_of_index(i % w1, NSYM, l1);
        for send0 in [Some(T1_DEFAULT), None] {
            let sc = Scenario {
                domain: 5,
                active: true,
                sockerr: None,
                reqs: vec![Req { send: send0, events: seq_events(&a, 5, 0), repeat: 1 }, Req { send: Some(T1_DEFAULT), events: seq_events(&b, 5, 1), repeat: 1 }],
            };
            let line = judge(&ctx, &mut tl, &sc);
            if i % 30_011 == 17 && send0.is_some() {
                ctx.sample(format!(
                    "S2 [{}] then [{}] -> {line}",
                    a.iter().map(|x| SYM_NAMES[*x]).collect::<Vec<_>>().join(","),
                    b.iter().map(|x| SYM_NAMES[*x]).collect::<Vec<_>>().join(",")
                ));
            }
        }
        tl.flush(&ctx);
    });
    }

    // ---- S3: value sweep ----
    let secs: [Ts; 6] = [(0, 0), (0, 1), (1, 0), ((1 << 48) - 1, 0), ((1 << 48) - 1, 999_999_999), (1_700_000_000, 999_999_999)];
    let one_s: i64 = 1_000_000_000 << 16;
    let corrs: [i64; 13] = [0, 1, -1, 1 << 16, -(1 << 16), 0xffff, one_s, -one_s, i64::MAX, i64::MIN, i64::MIN + 1, (1 << 62), -(1 << 62)];
    let corrs_small: [i64; 7] = [0, -1, 1 << 16, -(1 << 16), -one_s, i64::MAX, i64::MIN];
    let t1s: &[Ts] = &secs;
    // shape R1: t1 x c1 x t3 x c
    let n_r1 = (t1s.len() * corrs.len() * secs.len() * corrs.len()) as u64;
    ctx.set("s3_one_step_value_cases", n_r1);
    common::par_for(n_r1, 64, |i| {
        let mut tl = Tally::default();
        let mut x = i as usize;
        let c = corrs[x % corrs.len()];
        x /= corrs.len();
        let t3 = secs[x % secs.len()];
        x /= secs.len();
        let c1 = corrs[x % corrs.len()];
        x /= corrs.len();
        let t1 = t1s[x];
        let v = Vals { t2: (77, 123_456_789), c1, t3, c, cfu: 0, t4: (78, 1) };
        let sc = Scenario { domain: 128, active: false, sockerr: None, reqs: vec![Req { send: Some(t1), events: vec![Ev::Dgram { bytes: response(128, 0, false, &v).bytes(), ts: Some(v.t4) }], repeat: 1 }] };
        judge(&ctx, &mut tl, &sc);
        tl.flush(&ctx);
    });
    // shapes [R2,FU] and [FU,R2]: t3 x c x cfu (x t1 x c1 reduced)
    let n_r2 = (2 * secs.len() * corrs.len() * corrs.len() * corrs_small.len()) as u64;
    ctx.set("s3_two_step_value_cases", n_r2);
    common::par_for(n_r2, 64, |i| {
        let mut tl = Tally::default();
        let mut x = i as usize;
        let order = x % 2;
        x /= 2;
        let cfu = corrs[x % corrs.len()];
        x /= corrs.len();
        let c = corrs[x % corrs.len()];
        x /= corrs.len();
        let t3 = secs[x % secs.len()];
        x /= secs.len();
        let c1 = corrs_small[x];
        let v = Vals { t2: ((1 << 48) - 1, 999_999_999), c1, t3, c, cfu, t4: (0, 0) };
        let r2 = Ev::Dgram { bytes: response(128, 0, true, &v).bytes(), ts: Some(v.t4) };
        let fu = Ev::Dgram { bytes: follow_up(128, 0, &v).bytes(), ts: None };
        let events = if order == 0 { vec![r2, fu] } else { vec![fu, r2] };
        let sc = Scenario { domain: 128, active: false, sockerr: None, reqs: vec![Req { send: Some((5, 5)), events, repeat: 1 }] };
        judge(&ctx, &mut tl, &sc);
        tl.flush(&ctx);
    });
    // malformed-but-parsed nanosecond fields (10^9) and grey shapes
    {
        let mut tl = Tally::default();
        for (t2n, t3n) in [(1_000_000_000u32, 0u32), (0, 1_000_000_000), (1_000_000_000, 1_000_000_000), (1_000_000_001, 0), (0, 1_000_000_001)] {
            for c in [0i64, i64::MAX, i64::MIN, -1] {
                let v = Vals { t2: (u32::MAX as u64, t2n), c1: c, t3: (u32::MAX as u64 - 2_208_988_800 + 37, t3n), c, cfu: c, t4: (1, 1) };
                for two in [false, true] {
                    let mut events = vec![Ev::Dgram { bytes: response(128, 0, two, &v).bytes(), ts: Some(v.t4) }];
                    if two {
                        events.push(Ev::Dgram { bytes: follow_up(128, 0, &v).bytes(), ts: None });
                    }
                    judge(&ctx, &mut tl, &Scenario { domain: 128, active: true, sockerr: None, reqs: vec![Req { send: Some((0, 0)), events, repeat: 1 }] });
                }
            }
        }
        // grey / odd shapes: trailing empty TLV, padded datagram, two response TLVs, request+response, oversize (> 512 bytes)
        let base = response(128, 0, false, &DEFAULT_VALS);
        let mut shapes: Vec<wire::Pkt> = Vec::new();
        let mut p = base.clone();
        p.tlvs.push((wire::TLV_PAD, vec![]));
        shapes.push(p);
        let mut p = base.clone();
        p.tlvs.insert(0, (wire::TLV_PAD, vec![]));
        shapes.push(p);
        let mut p = base.clone();
        p.tlvs.push(wire::resp_tlv(1, 1, 1));
        shapes.push(p);
        let mut p = base.clone();
        p.tlvs.push(wire::req_tlv(1));
        shapes.push(p);
        let mut p = base.clone();
        p.tlvs.push((wire::TLV_PAD, vec![0; 600]));
        shapes.push(p);
        let mut p = base.clone();
        p.len_delta = -2;
        shapes.push(p);
        let mut p = base.clone();
        p.tlvs[0].1.extend_from_slice(&[0, 0]);
        shapes.push(p);
        let mut p = base.clone();
        p.tlvs[0].1.truncate(16);
        shapes.push(p);
        let mut p = base.clone();
        p.ver = 0x13;
        shapes.push(p);
        let mut p = base.clone();
        p.ver = 0x02;
        shapes.push(p);
        let mut p = base.clone();
        p.flag0 = 0;
        p.flag1 = wire::F1_LEAP59 | wire::F1_LEAP61;
        shapes.push(p);
        for p in &shapes {
            let mut bytes = p.bytes();
            for pad in [0usize, 3] {
                bytes.extend(std::iter::repeat(0).take(pad));
                judge(&ctx, &mut tl, &Scenario { domain: 128, active: true, sockerr: None, reqs: vec![Req { send: Some(T1_DEFAULT), events: vec![Ev::Dgram { bytes: bytes.clone(), ts: Some((3, 3)) }], repeat: 1 }] });
            }
        }
        tl.flush(&ctx);
    }

    // ---- S4: sequence ids, wrap, socket failures ----
    {
        let l4 = 2;
        let w4 = words_upto(NSYM, l4);
        let skips: &[u32] = &[255, 256, 257];
        ctx.set("s4_cases", w4 * skips.len() as u64 + 70_000);
        common::par_for(w4 * skips.len() as u64, 16, |i| {
            let mut tl = Tally::default();
            let skip = skips[(i / w4) as usize];
            let w = word_of_index(i % w4, NSYM, l4);
            let sc = Scenario {
                domain: 255,
                active: false,
                sockerr: None,
                reqs: vec![Req { send: Some(T1_DEFAULT), events: vec![], repeat: skip }, Req { send: Some(T1_DEFAULT), events: seq_events(&w, 255, skip as u16), repeat: 1 }],
            };
            judge(&ctx, &mut tl, &sc);
            tl.flush(&ctx);
        });
        let mut tl = Tally::default();
        // full wrap of the 16-bit sequence id (send errors are the cheapest way round), then the completing shapes
        for w in [vec![0usize], vec![1, 2], vec![2, 1], vec![3], vec![19]] {
            let sc = Scenario {
                domain: 0,
                active: false,
                sockerr: None,
                reqs: vec![Req { send: None, events: vec![], repeat: 65_535 }, Req { send: Some(T1_DEFAULT), events: seq_events(&w, 0, 65_535), repeat: 1 }, Req { send: Some(T1_DEFAULT), events: seq_events(&w, 0, 0), repeat: 1 }],
            };
            judge(&ctx, &mut tl, &sc);
        }
        // socket creation failure at request 0, 1, 2
        for k in 0..3usize {
            let sc = Scenario { domain: 1, active: false, sockerr: Some(k), reqs: vec![Req { send: Some(T1_DEFAULT), events: seq_events(&[0], 1, 0), repeat: 1 }, Req { send: Some(T1_DEFAULT), events: seq_events(&[1, 2], 1, 1), repeat: 1 }] };
            judge(&ctx, &mut tl, &sc);
        }
        tl.flush(&ctx);
    }

    ctx.sample(format!(
        "requests with a measurement {} / without {}; panics {}; unrepresentable answers dropped {}; manager state updates {}",
        ctx.get("requests_with_measurement"),
        ctx.get("requests_without_measurement"),
        ctx.get("panics"),
        ctx.get("unrepresentable_answers_dropped"),
        ctx.get("state_updates")
    ));
    ctx.exhaustive(true);
    ctx.finish();
}
