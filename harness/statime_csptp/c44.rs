//! C44: not implemented yet.
