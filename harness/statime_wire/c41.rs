//! C41 — PTP messages survive a serialise/parse round trip.
//!
//! Engine E-IN (exhaustive input enumeration, round trip + positional sweeps).
//!
//! Part A  (serialise => parse): every message of a finite grammar is built with the
//!   library's own constructors (`Message`, `TlvSetBuilder`), serialised, parsed and
//!   compared with `==`; the TLV iterators are compared with the list that was put in.
//!     A1  10 body kinds x 4 headers x every TLV list of <= 3 TLVs over
//!         {types} x value lengths {0, 2, 4, 3(odd)}
//!     A2  every body variant (boundary values of every field, all 256 clock-accuracy /
//!         time-source / action bytes) x header variants (all 4096 flag combinations,
//!         all 4096 sdoIds x 10 kinds, all 256 versions, boundary values of the rest)
//!         x 3 TLV lists
//!     A3  size limits: TLV values that bring the message to 4096, 65534 and > 65535 bytes
//!   also: serialising into every too-short buffer must be an error, and serialising
//!   into a dirty buffer must give the same bytes as into a zeroed one.
//! Part B  (parse => reserialise, parse is total): corpus = Part-A encodings + every
//!   truncation + every single-byte substitution from a pattern set + length-field
//!   edits (messageLength and every TLV lengthField) + long inputs up to 4096 bytes.
//!   Accepted inputs must reserialise to input[..messageLength] when their reserved
//!   bits are zero; otherwise the reserialisation must be a fixpoint (idempotence).
//! Part C  value enumerations (`ClockAccuracy`, `TimeSource`, `ManagementAction`: all 256;
//!   `TlvType`: all 65536), including the non-canonical payloads the public enums allow.
extern crate std;
use std::prelude::v1::*;
use std::sync::atomic::{AtomicBool, Ordering};
use std::{format, println, vec};

use super::common::{self, Ctx};
use crate::{
    AnnounceMessage, ClockAccuracy, ClockIdentity, ClockQuality, DelayReqMessage, DelayRespMessage, Error,
    FollowUpMessage, Header, ManagementAction, ManagementMessage, Message, MessageBody, PDelayReqMessage,
    PDelayRespFollowUpMessage, PDelayRespMessage, PortIdentity, PtpVersion, SdoId, SignalingMessage, SyncMessage,
    TimeInterval, TimeSource, Timestamp, Tlv, TlvSet, TlvSetBuilder, TlvType,
};

// ---------------------------------------------------------------------------------
// grammar
// ---------------------------------------------------------------------------------

/// Header description (harness side, plain integers).
#[derive(Clone, Copy, Debug, PartialEq, Eq, Hash)]
struct H {
    sdo: u16,
    major: u8,
    minor: u8,
    domain: u8,
    flags: u16, // bit i = i-th flag in the order of `Header`'s declaration
    corr: i64,
    clock: [u8; 8],
    port: u16,
    seq: u16,
    logint: i8,
}

const H_BASE: H = H { sdo: 0, major: 2, minor: 1, domain: 0, flags: 0, corr: 0, clock: [0; 8], port: 0, seq: 0, logint: 0 };
const H_CSPTP: H = H { sdo: 0x300, major: 2, minor: 1, domain: 128, flags: 0b100, corr: 0x1_0000, clock: [0; 8], port: 0, seq: 0x1234, logint: 0x7f };
const H_MAX: H = H { sdo: 0xfff, major: 15, minor: 15, domain: 255, flags: 0xfff, corr: i64::MAX, clock: [0xff; 8], port: 0xffff, seq: 0xffff, logint: -1 };
const H_MIX: H = H { sdo: 0x5bb, major: 1, minor: 0xa, domain: 0xaa, flags: 0b0101_0011_0101, corr: i64::MIN, clock: [1, 2, 3, 4, 5, 6, 7, 8], port: 0x5555, seq: 0xdead, logint: -128 };

fn header_of(h: &H) -> Header {
    let f = |i: u16| h.flags & (1 << i) != 0;
    Header {
        sdo_id: SdoId::try_from(h.sdo).unwrap(),
        version: PtpVersion::new(h.major, h.minor).unwrap(),
        domain_number: h.domain,
        alternate_master_flag: f(0),
        two_step_flag: f(1),
        unicast_flag: f(2),
        ptp_profile_specific_1: f(3),
        ptp_profile_specific_2: f(4),
        leap61: f(5),
        leap59: f(6),
        current_utc_offset_valid: f(7),
        ptp_timescale: f(8),
        time_tracable: f(9),
        frequency_tracable: f(10),
        synchronization_uncertain: f(11),
        correction_field: TimeInterval(h.corr),
        source_port_identity: PortIdentity { clock_identity: ClockIdentity(h.clock), port_number: h.port },
        sequence_id: h.seq,
        log_message_interval: h.logint,
    }
}

const TS: [(u64, u32); 4] = [(0, 0), (1, 1), ((1 << 48) - 1, 999_999_999), (0x1234_5678_9abc, 500_000_000)];
const PID: [([u8; 8], u16); 3] = [([0; 8], 0), ([0xff; 8], 0xffff), ([0x10, 0x20, 0x30, 0x40, 0x50, 0x60, 0x70, 0x80], 0x0102)];

fn ts(i: usize) -> Timestamp {
    Timestamp::new(TS[i].0, TS[i].1).unwrap()
}
fn pid(i: usize) -> PortIdentity {
    PortIdentity { clock_identity: ClockIdentity(PID[i].0), port_number: PID[i].1 }
}

/// Announce body description.
#[derive(Clone, Copy, Debug, PartialEq, Eq, Hash)]
struct Ann {
    ts: usize,
    utc: i16,
    p1: u8,
    class: u8,
    acc: u8, // primitive, canonicalised through from_primitive
    var: u16,
    p2: u8,
    gm: usize,
    steps: u16,
    src: u8, // primitive
}
const ANN_BASE: Ann = Ann { ts: 0, utc: 0, p1: 0, class: 0, acc: 0xfe, var: 0, p2: 0, gm: 0, steps: 0, src: 0xa0 };
const ANN_MAX: Ann = Ann { ts: 2, utc: i16::MIN, p1: 255, class: 255, acc: 0xfd, var: 0xffff, p2: 255, gm: 1, steps: 0xffff, src: 0xfe };

#[derive(Clone, Copy, Debug, PartialEq, Eq, Hash)]
enum B {
    Sync(usize),
    DelayReq(usize),
    PDelayReq(usize),
    PDelayResp(usize, usize),
    FollowUp(usize),
    DelayResp(usize, usize),
    PDelayRespFollowUp(usize, usize),
    Announce(Ann),
    Signaling(usize),
    Management(usize, u8, u8, u8), // target, starting hops, hops, action primitive
}

fn body_of(b: &B) -> MessageBody {
    match *b {
        B::Sync(t) => MessageBody::Sync(SyncMessage { origin_timestamp: ts(t) }),
        B::DelayReq(t) => MessageBody::DelayReq(DelayReqMessage { origin_timestamp: ts(t) }),
        B::PDelayReq(t) => MessageBody::PDelayReq(PDelayReqMessage { origin_timestamp: ts(t) }),
        B::PDelayResp(t, p) => MessageBody::PDelayResp(PDelayRespMessage { request_receive_timestamp: ts(t), requesting_port_identity: pid(p) }),
        B::FollowUp(t) => MessageBody::FollowUp(FollowUpMessage { precise_origin_timestamp: ts(t) }),
        B::DelayResp(t, p) => MessageBody::DelayResp(DelayRespMessage { receive_timestamp: ts(t), requesting_port_identity: pid(p) }),
        B::PDelayRespFollowUp(t, p) => MessageBody::PDelayRespFollowUp(PDelayRespFollowUpMessage { response_origin_timestamp: ts(t), requesting_port_identity: pid(p) }),
        B::Announce(a) => MessageBody::Announce(AnnounceMessage {
            origin_timestamp: ts(a.ts),
            current_utc_offset: a.utc,
            grandmaster_priority_1: a.p1,
            grandmaster_clock_quality: ClockQuality { clock_class: a.class, clock_accuracy: ClockAccuracy::from_primitive(a.acc), offset_scaled_log_variance: a.var },
            grandmaster_priority_2: a.p2,
            grandmaster_identity: ClockIdentity(PID[a.gm].0),
            steps_removed: a.steps,
            time_source: TimeSource::from_primitive(a.src),
        }),
        B::Signaling(p) => MessageBody::Signaling(SignalingMessage { target_port_identity: pid(p) }),
        B::Management(p, s, h, a) => MessageBody::Management(ManagementMessage { target_port_identity: pid(p), starting_boundary_hops: s, boundary_hops: h, action: ManagementAction::from_primitive(a) }),
    }
}

fn body_size(b: &B) -> usize {
    match b {
        B::Sync(_) | B::DelayReq(_) | B::FollowUp(_) | B::Signaling(_) => 10,
        B::PDelayReq(_) | B::PDelayResp(..) | B::DelayResp(..) | B::PDelayRespFollowUp(..) => 20,
        B::Announce(_) => 30,
        B::Management(..) => 14,
    }
}

/// One representative body per kind (10 kinds).
fn body_kinds() -> Vec<B> {
    vec![
        B::Sync(3),
        B::DelayReq(3),
        B::PDelayReq(3),
        B::PDelayResp(3, 2),
        B::FollowUp(3),
        B::DelayResp(3, 2),
        B::PDelayRespFollowUp(3, 2),
        B::Announce(Ann { ts: 3, utc: 37, p1: 128, class: 248, acc: 0x21, var: 0x4e5d, p2: 127, gm: 2, steps: 3, src: 0x20 }),
        B::Signaling(2),
        B::Management(2, 4, 3, 2),
    ]
}

/// Every body variant: boundary values of every field (one factor at a time around the
/// base + the all-extreme value; all 256 values for the enumerated bytes).
fn body_variants() -> Vec<B> {
    let mut v = Vec::new();
    for t in 0..TS.len() {
        v.push(B::Sync(t));
        v.push(B::DelayReq(t));
        v.push(B::PDelayReq(t));
        v.push(B::FollowUp(t));
        for p in 0..PID.len() {
            v.push(B::PDelayResp(t, p));
            v.push(B::DelayResp(t, p));
            v.push(B::PDelayRespFollowUp(t, p));
        }
    }
    for p in 0..PID.len() {
        v.push(B::Signaling(p));
        for s in [0u8, 1, 255] {
            for h in [0u8, 1, 255] {
                for a in 0..=5u8 {
                    v.push(B::Management(p, s, h, a));
                }
            }
        }
    }
    v.push(B::Announce(ANN_BASE));
    v.push(B::Announce(ANN_MAX));
    for t in 0..TS.len() {
        v.push(B::Announce(Ann { ts: t, ..ANN_BASE }));
    }
    for utc in [1, 37, -1, i16::MIN, i16::MAX, 0x0100] {
        v.push(B::Announce(Ann { utc, ..ANN_BASE }));
    }
    for x in [1u8, 127, 128, 255] {
        v.push(B::Announce(Ann { p1: x, ..ANN_BASE }));
        v.push(B::Announce(Ann { p2: x, ..ANN_BASE }));
        v.push(B::Announce(Ann { class: x, ..ANN_BASE }));
    }
    for x in 0..=255u8 {
        // canonical representative of each byte (reserved values collapse in the library's
        // enum; the *typed* message built from them is what Part A round-trips)
        v.push(B::Announce(Ann { acc: x, ..ANN_BASE }));
        v.push(B::Announce(Ann { src: x, ..ANN_BASE }));
    }
    for x in [1u16, 0x00ff, 0xff00, 0xffff, 0x4e5d] {
        v.push(B::Announce(Ann { var: x, ..ANN_BASE }));
        v.push(B::Announce(Ann { steps: x, ..ANN_BASE }));
    }
    for g in 0..PID.len() {
        v.push(B::Announce(Ann { gm: g, ..ANN_BASE }));
    }
    v
}

fn header_variants(quick: bool) -> Vec<H> {
    let mut v = vec![H_BASE, H_CSPTP, H_MAX, H_MIX];
    for flags in 0..4096u16 {
        v.push(H { flags, ..H_BASE });
    }
    for major in 0..16u8 {
        for minor in 0..16u8 {
            v.push(H { major, minor, ..H_BASE });
        }
    }
    for domain in [1u8, 127, 128, 255] {
        v.push(H { domain, ..H_BASE });
    }
    for corr in [1i64, -1, 0x1_0000, i64::MIN, i64::MAX, 0x0123_4567_89ab_cdef, -0x0123_4567_89ab_cdef] {
        v.push(H { corr, ..H_BASE });
    }
    for (clock, port) in PID {
        v.push(H { clock, port, ..H_BASE });
    }
    for seq in [1u16, 0x00ff, 0xff00, 0xffff] {
        v.push(H { seq, ..H_BASE });
    }
    for logint in [1i8, -1, 127, -128] {
        v.push(H { logint, ..H_BASE });
    }
    let step = if quick { 16 } else { 1 };
    for sdo in (0..4096u16).step_by(step) {
        v.push(H { sdo, ..H_BASE });
    }
    for sdo in [0x0ffu16, 0x100, 0xf00, 0xfff] {
        v.push(H { sdo, ..H_BASE });
    }
    v
}

/// TLV description: type code + value.
#[derive(Clone, Debug, PartialEq, Eq, Hash)]
struct T {
    ty: u16,
    val: Vec<u8>,
}

const TLV_TYPES_QUICK: [u16; 4] = [0x0001, 0x0008, 0x4000, 0x8008];
const TLV_TYPES_THOROUGH: [u16; 8] = [0x0001, 0x0008, 0x4000, 0x8008, 0x0000, 0x7f00, 0xff00, 0x2000];
const TLV_LENS: [usize; 4] = [0, 2, 4, 3];

fn tlv_alphabet(types: &[u16]) -> Vec<T> {
    let mut v = Vec::new();
    for &ty in types {
        for &l in &TLV_LENS {
            v.push(T { ty, val: (0..l).map(|i| 0xa1u8.wrapping_add(i as u8 * 0x11)).collect() });
        }
    }
    v
}

/// Is this TLV type one that a boundary clock must propagate on Announce (IEEE 1588-2019
/// 14.1.1 / table 52: PATH_TRACE, ALTERNATE_TIME_OFFSET_INDICATOR and 0x4000..=0x7fff).
fn ref_propagate(ty: u16) -> bool {
    ty == 0x0008 || ty == 0x0009 || (0x4000..=0x7fff).contains(&ty)
}

fn fmt_tlvs(tlvs: &[T]) -> String {
    tlvs.iter()
        .map(|t| {
            // long constant values are run-length coded: "*<len>x<byte>"
            if t.val.len() > 64 && t.val.iter().all(|b| *b == t.val[0]) {
                format!("{:04x}:*{}x{:02x}", t.ty, t.val.len(), t.val[0])
            } else {
                format!("{:04x}:{}", t.ty, common::hex(&t.val))
            }
        })
        .collect::<Vec<_>>()
        .join(",")
}

fn parse_tlvs(s: &str) -> Option<Vec<T>> {
    if s.is_empty() {
        return Some(vec![]);
    }
    s.split(',')
        .map(|p| {
            let (a, b) = p.split_once(':')?;
            let val = match b.strip_prefix('*') {
                Some(rl) => {
                    let (n, x) = rl.split_once('x')?;
                    vec![u8::from_str_radix(x, 16).ok()?; n.parse().ok()?]
                }
                None => common::unhex(b)?,
            };
            Some(T { ty: u16::from_str_radix(a, 16).ok()?, val })
        })
        .collect()
}

// ---------------------------------------------------------------------------------
// local statistics (flushed into Ctx in batches)
// ---------------------------------------------------------------------------------

#[derive(Default)]
struct Stats {
    c: std::collections::BTreeMap<&'static str, u64>,
    distinct: Vec<u64>,
}
impl Stats {
    fn inc(&mut self, k: &'static str) {
        *self.c.entry(k).or_insert(0) += 1;
    }
    fn add(&mut self, k: &'static str, n: u64) {
        *self.c.entry(k).or_insert(0) += n;
    }
    fn flush(&mut self, ctx: &Ctx) {
        for (k, v) in std::mem::take(&mut self.c) {
            ctx.add(k, v);
        }
        ctx.distinct_many(std::mem::take(&mut self.distinct));
    }
}

static RESERVED_REPORTED: AtomicBool = AtomicBool::new(false);

// ---------------------------------------------------------------------------------
// Part A: serialise => parse
// ---------------------------------------------------------------------------------

fn tlv_list_of(set: &TlvSet<'_>) -> Vec<T> {
    set.tlvs()
        .map(|t| {
            let v: &[u8] = t.value.as_ref();
            T { ty: t.tlv_type.to_primitive(), val: v.to_vec() }
        })
        .collect()
}

/// Round trip of one grammar message. Returns a one-line observation (for replay).
fn check_roundtrip(ctx: &Ctx, st: &mut Stats, h: &H, b: &B, tlvs: &[T]) -> String {
    let trace = || format!("A;{};{};{}", fmt_h(h), fmt_b(b), fmt_tlvs(tlvs));
    st.inc("evaluations");
    st.inc("a_messages");
    let tlv_bytes: usize = tlvs.iter().map(|t| 4 + t.val.len()).sum();
    let mut tlv_buf = vec![0u8; tlv_bytes];
    let mut builder = TlvSetBuilder::new(&mut tlv_buf);
    for t in tlvs {
        let tlv = Tlv { tlv_type: TlvType::from_primitive(t.ty), value: (&t.val[..]).into() };
        match common::catch(|| builder.add(&tlv)) {
            Ok(Ok(())) => {}
            Ok(Err(e)) => {
                if t.val.len() % 2 == 1 {
                    // an implementation may refuse what its parser would reject
                    st.inc("a_builder_refused_odd");
                } else if t.val.len() <= 0xffff {
                    ctx.violation("C41:builder-rejects", format!("TlvSetBuilder::add refused a {}-byte value with room in the buffer: {e:?}", t.val.len()), trace());
                }
                st.inc("a_builder_refused");
                return format!("builder refused: {e:?}");
            }
            Err(p) => {
                ctx.violation("C41:serialize-panic", format!("TlvSetBuilder::add panicked: {p}"), trace());
                return format!("builder panic: {p}");
            }
        }
    }
    let suffix = builder.build();
    let has_odd = tlvs.iter().any(|t| t.val.len() % 2 == 1);
    let trailing_empty = tlvs.last().is_some_and(|t| t.val.is_empty());

    // the TLV iterators must give back what was put in
    match common::catch(|| tlv_list_of(&suffix)) {
        Ok(got) => {
            if got != tlvs {
                let class = if trailing_empty && got[..] == tlvs[..tlvs.len() - 1] { "C41:tlv-empty-trailing" } else { "C41:tlv-iteration" };
                ctx.violation(class, format!("TlvSet::tlvs() of the built set yields [{}], built from [{}]", fmt_tlvs(&got), fmt_tlvs(tlvs)), trace());
                st.inc("a_iter_mismatch");
            }
        }
        Err(p) => ctx.violation("C41:tlv-iteration-panic", format!("tlvs() panicked: {p}"), trace()),
    }
    if let Ok(got) = common::catch(|| suffix.announce_propagate_tlvs().map(|t| t.tlv_type.to_primitive()).collect::<Vec<_>>()) {
        let want: Vec<u16> = tlvs.iter().map(|t| t.ty).filter(|t| ref_propagate(*t)).collect();
        let want_cut: Vec<u16> = if trailing_empty { tlvs[..tlvs.len() - 1].iter().map(|t| t.ty).filter(|t| ref_propagate(*t)).collect() } else { want.clone() };
        if got != want {
            let class = if got == want_cut { "C41:tlv-empty-trailing" } else { "C41:tlv-propagate-filter" };
            ctx.violation(class, format!("announce_propagate_tlvs() yields types {got:04x?}, expected {want:04x?}"), trace());
        }
    }

    let msg = Message { header: header_of(h), body: body_of(b), suffix };
    let total = 34 + body_size(b) + tlv_bytes;
    let wire = msg.wire_size();
    if wire != total {
        ctx.violation("C41:wire-size", format!("wire_size() = {wire}, fields add up to {total}"), trace());
    }
    let mut buf = vec![0u8; total];
    let n = match common::catch(|| msg.serialize(&mut buf)) {
        Ok(Ok(n)) => n,
        Ok(Err(e)) => {
            if total <= 0xffff {
                ctx.violation("C41:serialize-rejects", format!("serialize of a {total}-byte message into a {total}-byte buffer failed: {e:?}"), trace());
            }
            st.inc("a_serialize_refused");
            return format!("serialize refused: {e:?}");
        }
        Err(p) => {
            ctx.violation("C41:serialize-panic", format!("serialize panicked: {p}"), trace());
            return format!("serialize panic: {p}");
        }
    };
    if total > 0xffff {
        ctx.violation("C41:serialize-oversize", format!("a {total}-byte message (> 65535) was serialised, messageLength cannot hold it"), trace());
    }
    if n != total {
        ctx.violation("C41:wire-size", format!("serialize returned {n}, fields add up to {total}"), trace());
    }
    // same bytes into a dirty, larger buffer
    let mut stale: Option<usize> = None;
    let mut dirty = vec![0xa5u8; total + 7];
    match common::catch(|| msg.serialize(&mut dirty)) {
        Ok(Ok(m)) if m == n => {
            if dirty[..n] != buf[..n] {
                let pos = (0..n).find(|i| dirty[*i] != buf[*i]).unwrap();
                ctx.violation(
                    "C41:serialize-leaves-stale-bytes",
                    format!("serialize leaves byte {pos} (body offset {}) of the output buffer unwritten: the encoding depends on the buffer's previous content", pos as i64 - 34),
                    trace(),
                );
                st.inc("a_stale_bytes");
                stale = Some(pos);
            }
            if dirty[n..].iter().any(|x| *x != 0xa5) {
                ctx.violation("C41:serialize-overrun", "serialize wrote past the length it reported", trace());
            }
        }
        other => ctx.violation("C41:serialize-rejects", format!("serialize into a larger dirty buffer: {other:?}, into an exact zeroed one Ok({n})"), trace()),
    }
    // every too-short buffer is an error, not a panic (boundaries only for big messages)
    let shorts: Vec<usize> = if total <= 128 { (0..total).collect() } else { vec![0, 1, 33, 34, 34 + body_size(b) - 1, 34 + body_size(b), total - 1] };
    for k in shorts {
        let mut small = vec![0u8; k];
        st.inc("evaluations");
        match common::catch(|| msg.serialize(&mut small)) {
            Ok(Err(_)) => st.inc("a_short_buffer_refused"),
            Ok(Ok(m)) => ctx.violation("C41:serialize-short-buffer", format!("serialize into {k} bytes returned Ok({m}) for a {total}-byte message"), trace()),
            Err(p) => ctx.violation("C41:serialize-panic", format!("serialize into a {k}-byte buffer panicked: {p}"), trace()),
        }
    }

    // parse back (also with trailing padding after messageLength, which must be ignored)
    let mut padded = buf[..n].to_vec();
    padded.extend_from_slice(&[0xee, 0xee, 0xee]);
    let mut obs = String::new();
    if let Some(p) = stale {
        obs.push_str(&format!("stale-byte@{p} "));
    }
    for (label, input) in [("exact", &buf[..n]), ("padded", &padded[..])] {
        match common::catch(|| Message::deserialize(input)) {
            Ok(Ok(back)) => {
                if back != msg {
                    ctx.violation("C41:roundtrip-mismatch", format!("parse(serialize(m)) != m ({label}): got {back:?}"), trace());
                    st.inc("a_mismatch");
                } else {
                    st.inc("a_roundtrip_ok");
                    let got = tlv_list_of(&back.suffix);
                    if got != tlvs {
                        ctx.violation("C41:tlv-iteration", format!("tlvs() of the parsed message yields [{}], sent [{}]", fmt_tlvs(&got), fmt_tlvs(tlvs)), trace());
                    }
                }
                obs.push_str(&format!("{label}:ok "));
            }
            Ok(Err(e)) => {
                let class = match e {
                    Error::Invalid if has_odd => "C41:tlv-odd-length-serialised",
                    Error::BufferTooShort if trailing_empty => "C41:tlv-empty-trailing",
                    _ => "C41:roundtrip-parse-error",
                };
                ctx.violation(class, format!("serialize succeeded ({n} bytes) but parse ({label}) fails with {e:?}; tlvs [{}]", fmt_tlvs(tlvs)), trace());
                st.inc("a_parse_rejects_own_encoding");
                obs.push_str(&format!("{label}:{e:?} "));
            }
            Err(p) => {
                ctx.violation("C41:parse-panic", format!("parse of own encoding panicked: {p}"), trace());
                obs.push_str("panic ");
            }
        }
    }
    st.distinct.push(common::hash_of(&buf));
    obs
}

fn fmt_h(h: &H) -> String {
    format!("{:x}.{:x}.{:x}.{:x}.{:x}.{:x}.{}.{:x}.{:x}.{:x}", h.sdo, h.major, h.minor, h.domain, h.flags, h.corr as u64, common::hex(&h.clock), h.port, h.seq, h.logint as u8)
}
fn parse_h(s: &str) -> Option<H> {
    let p: Vec<&str> = s.split('.').collect();
    if p.len() != 10 {
        return None;
    }
    let x = |i: usize| u64::from_str_radix(p[i], 16).ok();
    let clock: [u8; 8] = common::unhex(p[6])?.try_into().ok()?;
    Some(H { sdo: x(0)? as u16, major: x(1)? as u8, minor: x(2)? as u8, domain: x(3)? as u8, flags: x(4)? as u16, corr: x(5)? as i64, clock, port: x(7)? as u16, seq: x(8)? as u16, logint: x(9)? as u8 as i8 })
}
fn fmt_b(b: &B) -> String {
    match *b {
        B::Sync(t) => format!("sync.{t}"),
        B::DelayReq(t) => format!("dreq.{t}"),
        B::PDelayReq(t) => format!("pdreq.{t}"),
        B::PDelayResp(t, p) => format!("pdresp.{t}.{p}"),
        B::FollowUp(t) => format!("fup.{t}"),
        B::DelayResp(t, p) => format!("dresp.{t}.{p}"),
        B::PDelayRespFollowUp(t, p) => format!("pdfup.{t}.{p}"),
        B::Announce(a) => format!("ann.{}.{}.{}.{}.{}.{}.{}.{}.{}.{}", a.ts, a.utc, a.p1, a.class, a.acc, a.var, a.p2, a.gm, a.steps, a.src),
        B::Signaling(p) => format!("sig.{p}"),
        B::Management(p, s, h, a) => format!("mgmt.{p}.{s}.{h}.{a}"),
    }
}
fn parse_b(s: &str) -> Option<B> {
    let p: Vec<&str> = s.split('.').collect();
    let n = |i: usize| -> Option<i64> { p.get(i)?.parse::<i64>().ok() };
    let t = |i: usize| -> Option<usize> { n(i).map(|v| v as usize).filter(|v| *v < TS.len()) };
    let q = |i: usize| -> Option<usize> { n(i).map(|v| v as usize).filter(|v| *v < PID.len()) };
    Some(match p[0] {
        "sync" => B::Sync(t(1)?),
        "dreq" => B::DelayReq(t(1)?),
        "pdreq" => B::PDelayReq(t(1)?),
        "pdresp" => B::PDelayResp(t(1)?, q(2)?),
        "fup" => B::FollowUp(t(1)?),
        "dresp" => B::DelayResp(t(1)?, q(2)?),
        "pdfup" => B::PDelayRespFollowUp(t(1)?, q(2)?),
        "ann" => B::Announce(Ann { ts: t(1)?, utc: n(2)? as i16, p1: n(3)? as u8, class: n(4)? as u8, acc: n(5)? as u8, var: n(6)? as u16, p2: n(7)? as u8, gm: q(8)?, steps: n(9)? as u16, src: n(10)? as u8 }),
        "sig" => B::Signaling(q(1)?),
        "mgmt" => B::Management(q(1)?, n(2)? as u8, n(3)? as u8, n(4)? as u8),
        _ => return None,
    })
}

/// All TLV lists of length <= k over the alphabet (as index vectors).
fn tlv_lists(alpha: usize, k: usize) -> Vec<Vec<usize>> {
    let mut out = vec![vec![]];
    for len in 1..=k {
        for w in common::product(alpha, len) {
            out.push(w);
        }
    }
    out
}

// ---------------------------------------------------------------------------------
// Part B: parse => reserialise; parse is total
// ---------------------------------------------------------------------------------

/// Does the (accepted) message prefix `x` carry a non-zero bit in a position the library
/// documents as not represented (reserved bits / reserved bytes / reserved enumeration
/// values)? Positions follow the library's own layout.
fn has_reserved(x: &[u8]) -> bool {
    if x.len() < 34 {
        return false;
    }
    if x[6] & 0b1001_1000 != 0 || x[7] & 0x80 != 0 || x[16..20] != [0; 4] || x[32] != 0 {
        return true;
    }
    let body = &x[34..];
    match x[0] & 0x0f {
        0x2 => body.len() >= 20 && body[10..20] != [0; 10],
        0xb => body.len() >= 30 && (body[12] != 0 || matches!(body[15], 0x01..=0x16 | 0x32..=0x7f | 0xff)),
        0xd => body.len() >= 14 && (body[10] != 0 || body[13] > 5),
        _ => false,
    }
}

fn check_parse(ctx: &Ctx, st: &mut Stats, x: &[u8]) -> String {
    st.inc("evaluations");
    st.inc("b_inputs");
    let trace = || format!("B;{}", common::hex(x));
    let m = match common::catch(|| Message::deserialize(x)) {
        Ok(Ok(m)) => m,
        Ok(Err(Error::BufferTooShort)) => {
            st.inc("b_rejected_short");
            return "Err(BufferTooShort)".into();
        }
        Ok(Err(Error::Invalid)) => {
            st.inc("b_rejected_invalid");
            return "Err(Invalid)".into();
        }
        Err(p) => {
            ctx.violation("C41:parse-panic", format!("Message::deserialize panicked on {} bytes: {p}", x.len()), trace());
            return format!("panic {p}");
        }
    };
    st.inc("b_accepted");
    let len = u16::from_be_bytes([x[2], x[3]]) as usize;
    if len > x.len() || len < 34 {
        ctx.violation("C41:parse-accepts-bad-length", format!("accepted with messageLength {len} on a {}-byte input", x.len()), trace());
        return "accepted-bad-length".into();
    }
    // the iterators must walk the accepted suffix without panicking and cover it exactly
    match common::catch(|| tlv_list_of(&m.suffix)) {
        Ok(l) => {
            st.add("b_tlvs_iterated", l.len() as u64);
            let covered: usize = l.iter().map(|t| 4 + t.val.len()).sum();
            if covered != m.suffix.wire_size() {
                ctx.violation("C41:tlv-iteration", format!("tlvs() covers {covered} of the {} accepted suffix bytes", m.suffix.wire_size()), trace());
            }
        }
        Err(p) => ctx.violation("C41:tlv-iteration-panic", format!("tlvs() on an accepted message panicked: {p}"), trace()),
    }
    let mut out = vec![0u8; len + 8];
    let n = match common::catch(|| m.serialize(&mut out)) {
        Ok(Ok(n)) => n,
        Ok(Err(e)) => {
            ctx.violation("C41:reserialize-error", format!("accepted message does not serialise: {e:?}"), trace());
            return format!("reserialize {e:?}");
        }
        Err(p) => {
            ctx.violation("C41:reserialize-panic", format!("serialize of an accepted message panicked: {p}"), trace());
            return format!("reserialize panic {p}");
        }
    };
    if n != len {
        ctx.violation("C41:reserialize-length", format!("reserialised to {n} bytes, messageLength of the input is {len}"), trace());
        return format!("reserialize len {n} != {len}");
    }
    if out[..n] == x[..len] {
        st.inc("b_reserialize_exact");
        st.distinct.push(common::hash_of(&x));
        return format!("ok exact {n}");
    }
    let pos = (0..n).find(|i| out[*i] != x[*i]).unwrap();
    if has_reserved(&x[..len]) {
        st.inc("b_reserved_dropped");
        // idempotence: the canonicalised encoding is a fixpoint
        match common::catch(|| Message::deserialize(&out[..n]).map(|m2| (m2 == m, {
            let mut o2 = vec![0u8; n + 8];
            let r = m2.serialize(&mut o2);
            (r.ok(), o2)
        }))) {
            Ok(Ok((same, (Some(n2), o2)))) if same && n2 == n && o2[..n] == out[..n] => {}
            other => ctx.violation("C41:reserialize-not-idempotent", format!("canonicalised encoding is not a fixpoint: {:?}", other.map(|r| r.map(|(s, (n2, _))| (s, n2)))), trace()),
        }
        if !RESERVED_REPORTED.swap(true, Ordering::Relaxed) {
            ctx.violation(
                "C41:reserved-bits-not-preserved",
                format!("accepted input with a non-zero reserved bit/byte/value reserialises differently at byte {pos} (0x{:02x} -> 0x{:02x}); the library drops reserved fields (reported once, see stat b_reserved_dropped)", x[pos], out[pos]),
                trace(),
            );
        }
        st.distinct.push(common::hash_of(&x));
        return format!("reserved dropped at {pos}");
    }
    ctx.violation("C41:reserialize-mismatch", format!("accepted input (no reserved bits set) reserialises differently at byte {pos}: 0x{:02x} -> 0x{:02x}", x[pos], out[pos]), trace());
    format!("mismatch at {pos}")
}

/// Offsets of the TLV length fields of a library encoding (walk by the *intended* list).
fn tlv_len_offsets(body: usize, tlvs: &[T]) -> Vec<usize> {
    let mut v = Vec::new();
    let mut o = 34 + body;
    for t in tlvs {
        v.push(o + 2);
        o += 4 + t.val.len();
    }
    v
}

/// Run the whole mutation neighbourhood of one base encoding.
fn sweep_base(ctx: &Ctx, st: &mut Stats, base: &[u8], len_offsets: &[usize], full_positions: bool) {
    st.inc("b_bases");
    check_parse(ctx, st, base);
    // every truncation
    for k in 0..base.len() {
        check_parse(ctx, st, &base[..k]);
    }
    // extension with trailing bytes
    for extra in [1usize, 2, 4] {
        let mut x = base.to_vec();
        x.extend(std::iter::repeat(0u8).take(extra));
        check_parse(ctx, st, &x);
    }
    // every single-byte substitution from the pattern set
    let mut x = base.to_vec();
    let positions: Vec<usize> = if full_positions || base.len() <= 256 {
        (0..base.len()).collect()
    } else {
        // long inputs: header + body + first and last 64 bytes + every 16th byte
        (0..base.len()).filter(|i| *i < 128 || *i + 64 >= base.len() || i % 16 == 0).collect()
    };
    for &i in &positions {
        let orig = base[i];
        for pat in [0x00u8, 0x01, 0x02, 0x7f, 0x80, 0xff, orig ^ 0x01, orig ^ 0x80, orig.wrapping_add(1), orig.wrapping_sub(1), orig ^ 0x08, orig ^ 0x10] {
            if pat == orig {
                continue;
            }
            x[i] = pat;
            check_parse(ctx, st, &x);
        }
        x[i] = orig;
    }
    // messageLength edits
    let l = base.len() as u16;
    for v in [0u16, 1, 33, 34, 35, 43, 44, 45, l.wrapping_sub(4), l.wrapping_sub(3), l.wrapping_sub(2), l.wrapping_sub(1), l + 1, l + 2, l + 4, 0x7fff, 0x8000, 0xffff] {
        if base.len() >= 4 {
            x[2..4].copy_from_slice(&v.to_be_bytes());
            check_parse(ctx, st, &x);
        }
    }
    if base.len() >= 4 {
        x[2..4].copy_from_slice(&base[2..4]);
    }
    // TLV lengthField edits
    for &o in len_offsets {
        if o + 2 > base.len() {
            continue;
        }
        let cur = u16::from_be_bytes([base[o], base[o + 1]]);
        let rest = (base.len() - (o + 2)) as u16;
        for v in [0u16, 1, 2, 3, 4, cur.wrapping_add(1), cur.wrapping_add(2), cur.wrapping_sub(1), cur.wrapping_sub(2), rest, rest.wrapping_sub(1), rest.wrapping_sub(2), rest.wrapping_sub(4), rest + 1, rest + 2, 0xfffe, 0xffff] {
            if v == cur {
                continue;
            }
            x[o..o + 2].copy_from_slice(&v.to_be_bytes());
            check_parse(ctx, st, &x);
        }
        x[o..o + 2].copy_from_slice(&base[o..o + 2]);
    }
}

/// Library encoding of a grammar message, or None when the library refuses it.
fn encode(h: &H, b: &B, tlvs: &[T]) -> Option<Vec<u8>> {
    let tlv_bytes: usize = tlvs.iter().map(|t| 4 + t.val.len()).sum();
    let mut tlv_buf = vec![0u8; tlv_bytes];
    let mut builder = TlvSetBuilder::new(&mut tlv_buf);
    for t in tlvs {
        builder.add(&Tlv { tlv_type: TlvType::from_primitive(t.ty), value: (&t.val[..]).into() }).ok()?;
    }
    let msg = Message { header: header_of(h), body: body_of(b), suffix: builder.build() };
    let mut buf = vec![0u8; 34 + body_size(b) + tlv_bytes];
    let n = common::catch(|| msg.serialize(&mut buf)).ok()?.ok()?;
    buf.truncate(n);
    Some(buf)
}

// ---------------------------------------------------------------------------------
// Part C: value enumerations
// ---------------------------------------------------------------------------------

fn part_c(ctx: &Ctx) {
    let mut st = Stats::default();
    // canonical direction: to(from(x)) == x except where the enum collapses reserved values
    for x in 0..=255u8 {
        st.inc("evaluations");
        st.inc("c_values");
        let a = ClockAccuracy::from_primitive(x);
        let back = a.to_primitive();
        let reserved = matches!(x, 0x00..=0x16 | 0x32..=0x7f | 0xff);
        if (reserved && back != 0) || (!reserved && back != x) || ClockAccuracy::from_primitive(back) != a {
            ctx.violation("C41:enum-codec", format!("ClockAccuracy 0x{x:02x} -> {a:?} -> 0x{back:02x}"), format!("C;acc;{x}"));
        }
        let s = TimeSource::from_primitive(x);
        if s.to_primitive() != x || TimeSource::from_primitive(s.to_primitive()) != s {
            ctx.violation("C41:enum-codec", format!("TimeSource 0x{x:02x} -> {s:?} -> 0x{:02x}", s.to_primitive()), format!("C;src;{x}"));
        }
        let m = ManagementAction::from_primitive(x);
        let mb = m.to_primitive();
        if (x <= 5 && mb != x) || (x > 5 && mb != 5) || ManagementAction::from_primitive(mb) != m {
            ctx.violation("C41:enum-codec", format!("ManagementAction 0x{x:02x} -> {m:?} -> 0x{mb:02x}"), format!("C;act;{x}"));
        }
    }
    for x in 0..=0xffffu16 {
        st.inc("evaluations");
        st.inc("c_values");
        let t = TlvType::from_primitive(x);
        if t.to_primitive() != x || TlvType::from_primitive(t.to_primitive()) != t {
            ctx.violation("C41:enum-codec", format!("TlvType 0x{x:04x} -> {t:?} -> 0x{:04x}", t.to_primitive()), format!("C;tlv;{x}"));
        }
        if t.announce_propagate() != ref_propagate(x) {
            ctx.violation("C41:tlv-propagate-filter", format!("TlvType 0x{x:04x}: announce_propagate() = {}, table 52 says {}", t.announce_propagate(), ref_propagate(x)), format!("C;tlv;{x}"));
        }
    }
    // non-canonical payloads of the public enums: values the type system lets a caller
    // build, the library serialises without complaint, and that parse back to something else
    for v in 0..=255u8 {
        noncanonical(ctx, &mut st, "accp", v as u16);
        noncanonical(ctx, &mut st, "srcp", v as u16);
        noncanonical(ctx, &mut st, "srcr", v as u16);
    }
    for v in 0..=0xffffu16 {
        noncanonical(ctx, &mut st, "tlvr", v);
        noncanonical(ctx, &mut st, "tlvl", v);
        noncanonical(ctx, &mut st, "tlve", v);
    }
    st.flush(ctx);
}

/// One typed value with an arbitrary payload, sent through a whole message round trip.
fn noncanonical(ctx: &Ctx, st: &mut Stats, kind: &'static str, v: u16) -> String {
    st.inc("evaluations");
    st.inc("c_payloads");
    let trace = format!("C;{kind};{v}");
    let base = match body_of(&B::Announce(ANN_BASE)) {
        MessageBody::Announce(a) => a,
        _ => unreachable!(),
    };
    let mut tlv_buf = [0u8; 8];
    let (body, tlv): (MessageBody, Option<TlvType>) = match kind {
        "accp" => (MessageBody::Announce(AnnounceMessage { grandmaster_clock_quality: ClockQuality { clock_accuracy: ClockAccuracy::ProfileSpecific(v as u8), ..base.grandmaster_clock_quality }, ..base }), None),
        "srcp" => (MessageBody::Announce(AnnounceMessage { time_source: TimeSource::ProfileSpecific(v as u8), ..base }), None),
        "srcr" => (MessageBody::Announce(AnnounceMessage { time_source: TimeSource::Reserved(v as u8), ..base }), None),
        "tlvr" => (MessageBody::Announce(base), Some(TlvType::Reserved(v))),
        "tlvl" => (MessageBody::Announce(base), Some(TlvType::Legacy(v))),
        _ => (MessageBody::Announce(base), Some(TlvType::Experimental(v))),
    };
    let r = common::catch(|| {
        let mut builder = TlvSetBuilder::new(&mut tlv_buf);
        if let Some(t) = tlv {
            builder.add(&Tlv { tlv_type: t, value: (&[0x11u8, 0x22][..]).into() }).unwrap();
        }
        let msg = Message { header: header_of(&H_BASE), body: body.clone(), suffix: builder.build() };
        let mut buf = [0u8; 80];
        let n = msg.serialize(&mut buf)?;
        let back = Message::deserialize(&buf[..n])?;
        let tl = back.suffix.tlvs().next().map(|t| t.tlv_type);
        let shown = match &back.body {
            MessageBody::Announce(a) => format!("accuracy {:?}, time source {:?}", a.grandmaster_clock_quality.clock_accuracy, a.time_source),
            other => format!("{other:?}"),
        };
        Ok::<_, Error>((back.body == body, tl == tlv, shown))
    });
    match r {
        Ok(Ok((true, true, _))) => {
            st.inc("c_payload_roundtrips");
            "ok".into()
        }
        Ok(Ok((true, false, _))) => {
            // the message itself (header, body, suffix *bytes*) is equal; only the typed view
            // of the TLV differs because the builder already wrote the canonical code
            st.inc("c_tlvtype_payload_recanonicalised");
            "tlv type recanonicalised".into()
        }
        Ok(Ok((_, _, got))) => {
            st.inc("c_payload_changes");
            ctx.violation(
                "C41:noncanonical-enum-payload",
                format!("{kind} payload 0x{v:x}: serialises without error but parses back as a different value ({got})"),
                trace,
            );
            format!("changed: {got}")
        }
        Ok(Err(e)) => {
            st.inc("c_payload_refused");
            format!("refused {e:?}")
        }
        Err(p) => {
            ctx.violation("C41:serialize-panic", format!("{kind} payload 0x{v:x}: {p}"), trace);
            format!("panic {p}")
        }
    }
}

// ---------------------------------------------------------------------------------
// replay + check
// ---------------------------------------------------------------------------------

fn replay(ctx: &Ctx, trace: &str) -> String {
    let mut st = Stats::default();
    let parts: Vec<&str> = trace.split(';').collect();
    match parts.first().copied() {
        Some("A") if parts.len() >= 4 => match (parse_h(parts[1]), parse_b(parts[2]), parse_tlvs(parts[3])) {
            (Some(h), Some(b), Some(t)) => check_roundtrip(ctx, &mut st, &h, &b, &t),
            _ => "unparsable A trace".into(),
        },
        Some("B") if parts.len() >= 2 => match common::unhex(parts[1]) {
            Some(x) => {
                RESERVED_REPORTED.store(false, Ordering::Relaxed);
                check_parse(ctx, &mut st, &x)
            }
            None => "unparsable B trace".into(),
        },
        Some("C") if parts.len() >= 3 => {
            let v: u16 = parts[2].parse().unwrap_or(0);
            let kind: &'static str = match parts[1] {
                "accp" => "accp",
                "srcp" => "srcp",
                "srcr" => "srcr",
                "tlvr" => "tlvr",
                "tlvl" => "tlvl",
                "tlve" => "tlve",
                _ => return "C value traces are replayed by the full enumeration only".into(),
            };
            noncanonical(ctx, &mut st, kind, v)
        }
        _ => "unknown trace".into(),
    }
}

#[test]
fn check() {
    let ctx = Ctx::new("C41");
    if let Some(t) = common::replay_trace() {
        let a = replay(&ctx, &t);
        let b = replay(&ctx, &t);
        common::report_replay("C41", &a, &b, ctx.violation_count() > 0);
        return;
    }
    let quick = ctx.quick();
    ctx.rule(
        "A1: 10 body kinds x 4 headers x every TLV list of <=3 TLVs over {4 quick / 8 thorough type codes incl. propagate and \
         non-propagate} x value length {0,2,4,3} (thorough: + every list of exactly 4 TLVs over the 16-TLV alphabet x 10 kinds); A2: every body variant (boundary values of each field, all 256 accuracy / \
         time-source bytes, all action values) x every header variant (4096 flag sets, 256 versions, sdoIds, boundary values) \
         x 3 TLV lists, built with the library's constructors, serialised, parsed, compared with ==; A3: 4096 / 65534 / >65535 \
         byte messages. B: each base encoding + every truncation + every position x 12 byte patterns + 18 messageLength edits + \
         17 edits of every TLV lengthField, plus 4 KiB inputs; C: all 256 / 65536 values of the enumerations and their \
         non-canonical payloads. Non-trivial & distinct = a distinct serialised message (A) or a distinct *accepted* byte string (B).",
    );
    ctx.assume("derived PartialEq of Message/Header/bodies and slice equality of TlvSet are trusted as the notion of 'equal message'");
    ctx.assume("field positions are taken as the library defines them (round trip property); conformance of the layout with IEEE 1588 is not part of C41");
    ctx.assume("byte strings are a grammar neighbourhood (truncations, 12 substitutions per position, length edits), not all strings up to 4096 bytes");

    // ---- Part A ----
    let kinds = body_kinds();
    let heads4 = [H_BASE, H_CSPTP, H_MAX, H_MIX];
    let alpha = tlv_alphabet(if quick { &TLV_TYPES_QUICK } else { &TLV_TYPES_THOROUGH });
    let lists = tlv_lists(alpha.len(), 3);
    ctx.set("a1_tlv_lists", lists.len() as u64);
    // A1
    common::par_for(lists.len() as u64, 64, |li| {
        let mut st = Stats::default();
        let tl: Vec<T> = lists[li as usize].iter().map(|i| alpha[*i].clone()).collect();
        for b in &kinds {
            for h in &heads4 {
                check_roundtrip(&ctx, &mut st, h, b, &tl);
            }
        }
        st.flush(&ctx);
    });
    ctx.sample(format!("A1: {} TLV lists x 10 kinds x 4 headers; e.g. [{}]", lists.len(), fmt_tlvs(&lists[lists.len() / 2].iter().map(|i| alpha[*i].clone()).collect::<Vec<_>>())));
    // A1b (thorough): every TLV list of exactly 4 TLVs over the 16-TLV quick alphabet
    if !quick {
        let alpha4 = tlv_alphabet(&TLV_TYPES_QUICK);
        let n4 = common::pow(alpha4.len(), 4);
        ctx.set("a1b_tlv_lists_len4", n4);
        common::par_for(n4, 256, |li| {
            let mut st = Stats::default();
            let tl: Vec<T> = common::word_of(li, alpha4.len(), 4).iter().map(|i| alpha4[*i].clone()).collect();
            for b in &kinds {
                check_roundtrip(&ctx, &mut st, &H_CSPTP, b, &tl);
            }
            st.flush(&ctx);
        });
    }
    // A2
    let bodies = body_variants();
    let heads = header_variants(quick);
    ctx.set("a2_body_variants", bodies.len() as u64);
    ctx.set("a2_header_variants", heads.len() as u64);
    let three: Vec<Vec<T>> = vec![vec![], vec![alpha[1].clone()], vec![alpha[5].clone(), alpha[2].clone()]];
    common::par_for(heads.len() as u64, 16, |hi| {
        let mut st = Stats::default();
        let h = &heads[hi as usize];
        // all body variants against the 4 fixed headers is done below; here every header
        // variant against the 10 kinds
        for b in &kinds {
            for tl in &three {
                check_roundtrip(&ctx, &mut st, h, b, tl);
            }
        }
        st.flush(&ctx);
    });
    common::par_for(bodies.len() as u64, 16, |bi| {
        let mut st = Stats::default();
        let b = &bodies[bi as usize];
        for h in &heads4 {
            for tl in &three {
                check_roundtrip(&ctx, &mut st, h, b, tl);
            }
        }
        st.flush(&ctx);
    });
    // A3: size limits
    {
        let mut st = Stats::default();
        let b = B::Sync(1);
        for vlen in [4096 - 44 - 4, 4096 - 44 - 4 - 4, 65534 - 44 - 4, 65535 - 44 - 4, 65536 - 44 - 4, 65535, 65534] {
            let big = T { ty: 0x8008, val: vec![0x5a; vlen] };
            check_roundtrip(&ctx, &mut st, &H_CSPTP, &b, std::slice::from_ref(&big));
            // and followed by an empty one
            check_roundtrip(&ctx, &mut st, &H_CSPTP, &b, &[big.clone(), T { ty: 0x0008, val: vec![] }, T { ty: 0x0001, val: vec![1, 2] }]);
        }
        st.flush(&ctx);
    }

    // ---- Part B ----
    // bases: every kind x headers x TLV lists (<=2 over the alphabet; <=3 over a 4-TLV sub-alphabet)
    let lists2 = tlv_lists(alpha.len(), 2);
    let small_alpha: Vec<T> = vec![alpha[0].clone(), alpha[1].clone(), alpha[2].clone(), alpha[7].clone()];
    let lists3 = tlv_lists(small_alpha.len(), 3);
    let b_heads: Vec<H> = if quick { vec![H_CSPTP, H_MIX] } else { vec![H_BASE, H_CSPTP, H_MAX, H_MIX] };
    let mut bases: Vec<(usize, H, Vec<T>)> = Vec::new();
    for (k, _) in kinds.iter().enumerate() {
        for h in &b_heads {
            for l in &lists2 {
                bases.push((k, *h, l.iter().map(|i| alpha[*i].clone()).collect()));
            }
            for l in lists3.iter().filter(|l| l.len() == 3) {
                bases.push((k, *h, l.iter().map(|i| small_alpha[*i].clone()).collect()));
            }
        }
    }
    ctx.set("b_base_specs", bases.len() as u64);
    common::par_for(bases.len() as u64, 8, |i| {
        let mut st = Stats::default();
        let (k, h, tl) = &bases[i as usize];
        match encode(h, &kinds[*k], tl) {
            Some(e) => sweep_base(&ctx, &mut st, &e, &tlv_len_offsets(body_size(&kinds[*k]), tl), true),
            None => st.inc("b_base_not_encodable"),
        }
        st.flush(&ctx);
    });
    // long inputs (up to 4096 bytes): one big TLV, 1000 empty TLVs, 500 two-byte TLVs
    {
        let long_specs: Vec<(usize, Vec<T>)> = vec![
            (0, vec![T { ty: 0x8008, val: vec![0x33; 4096 - 44 - 4] }]),
            (7, vec![T { ty: 0x0008, val: vec![0x44; 4000] }, T { ty: 0x0001, val: vec![] }, T { ty: 0x4000, val: vec![9, 9] }]),
            (0, (0..1000).map(|i| T { ty: if i % 2 == 0 { 0x8008 } else { 0x0008 }, val: vec![] }).chain(std::iter::once(T { ty: 1, val: vec![7, 7] })).collect()),
            (9, (0..600).map(|i| T { ty: 0x4000 + (i as u16 % 3), val: vec![i as u8, 0] }).collect()),
        ];
        common::par_for(long_specs.len() as u64, 1, |i| {
            let mut st = Stats::default();
            let (k, tl) = &long_specs[i as usize];
            if let Some(e) = encode(&H_CSPTP, &kinds[*k], tl) {
                st.inc("b_long_bases");
                let offs = tlv_len_offsets(body_size(&kinds[*k]), tl);
                let offs: Vec<usize> = offs.iter().copied().filter(|o| *o < 200 || *o + 40 > e.len()).collect();
                sweep_base(&ctx, &mut st, &e, &offs, !quick);
            }
            st.flush(&ctx);
        });
        // raw fills of every length 0..=4096 (quick: 0..=128 and 4000..=4096)
        let fills = [0x00u8, 0xff, 0x0b, 0x12, 0x02];
        let lens: Vec<usize> = if quick { (0..=128).chain(4000..=4096).collect() } else { (0..=4096).collect() };
        common::par_for(lens.len() as u64, 32, |i| {
            let mut st = Stats::default();
            for f in fills {
                let x = vec![f; lens[i as usize]];
                check_parse(&ctx, &mut st, &x);
                // make the fill a plausible header: type nibble + version 2 + length = len
                let mut y = x.clone();
                if y.len() >= 4 {
                    y[0] = f & 0x0f;
                    y[1] = 0x12;
                    let l = (y.len() as u16).to_be_bytes();
                    y[2..4].copy_from_slice(&l);
                    check_parse(&ctx, &mut st, &y);
                }
            }
            st.flush(&ctx);
        });
    }
    // targeted: nanosecond field at and above 10^9 in every timestamp-bearing kind
    {
        let mut st = Stats::default();
        for (k, b) in kinds.iter().enumerate() {
            if let Some(mut e) = encode(&H_CSPTP, b, &[]) {
                if matches!(b, B::Signaling(_) | B::Management(..)) {
                    continue;
                }
                for nanos in [999_999_999u32, 1_000_000_000, 1_000_000_001, u32::MAX] {
                    e[40..44].copy_from_slice(&nanos.to_be_bytes());
                    let r = check_parse(&ctx, &mut st, &e);
                    if nanos == 1_000_000_000 && r.starts_with("ok") {
                        st.inc("b_accepted_nanos_equal_1e9");
                    }
                }
            }
        }
        st.flush(&ctx);
    }

    // ---- Part C ----
    part_c(&ctx);

    ctx.sample(format!(
        "A: {} messages, {} round-tripped; B: {} inputs, {} accepted ({} exact, {} with reserved bits), rejected short {} / invalid {}",
        ctx.get("a_messages"), ctx.get("a_roundtrip_ok") / 2, ctx.get("b_inputs"), ctx.get("b_accepted"), ctx.get("b_reserialize_exact"),
        ctx.get("b_reserved_dropped"), ctx.get("b_rejected_short"), ctx.get("b_rejected_invalid")
    ));
    ctx.exhaustive(true);
    ctx.finish();
}
