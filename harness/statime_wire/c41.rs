//! C41: not implemented yet.
