//! Harness root for `statime_wire` (compiled into its unit-test binary under
//! `--cfg pendulum_project_ntpd_rs_verif`). See /verif/harness/README.md.
#![allow(dead_code, unused_imports, unused_variables, unused_macros, unused_mut)]
#![allow(clippy::all, clippy::pedantic)]

extern crate std;

#[path = "/verif/harness/common/mod.rs"]
pub(crate) mod common;

#[cfg(any(not(verif_select), verif_go))]
mod c41;
