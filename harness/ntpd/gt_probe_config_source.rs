//! Group gt probe (child of `ntpd::daemon::config::ntp_source::verif_probe`), reachable from the
//! harness as `crate::daemon::config::verif_probe::ntp_source_probe::gt`.
//!
//! Same seam as gl's DNS script (copied subset, so that group gt builds on its own): a
//! `NormalizedAddress` whose `cfg(test)` DNS stub (`HardcodedDnsResolve`) shares its address list with
//! the harness. `lookup_host` is untouched: every lookup moves the last element of the list to the
//! front and answers with the rotated list, so with pairwise distinct entries every lookup is visible
//! (list rotation) and yields a new first address.
use std::net::SocketAddr;
use std::sync::{Arc, Mutex};

use super::super::{HardcodedDnsResolve, NormalizedAddress};

#[derive(Clone)]
pub(crate) struct DnsTap {
    cell: Arc<Mutex<Vec<SocketAddr>>>,
    raw0: Vec<SocketAddr>,
}

pub(crate) fn scripted(server_name: &str, port: u16, raw0: &[SocketAddr]) -> (NormalizedAddress, DnsTap) {
    let cell = Arc::new(Mutex::new(raw0.to_vec()));
    let addr = NormalizedAddress {
        server_name: server_name.to_string(),
        port,
        hardcoded_dns_resolve: Some(HardcodedDnsResolve {
            addresses: cell.clone(),
        }),
    };
    (
        addr,
        DnsTap {
            cell,
            raw0: raw0.to_vec(),
        },
    )
}

impl DnsTap {
    /// Number of lookups performed so far, modulo the list length (lists are longer than any run).
    pub(crate) fn lookups(&self) -> Option<usize> {
        let cur = self.cell.lock().unwrap().clone();
        let n = self.raw0.len();
        if cur.len() != n || n == 0 {
            return None;
        }
        (0..n).find(|k| (0..n).all(|i| cur[(i + k) % n] == self.raw0[i]))
    }

    /// First address of the answer of the k-th lookup (k >= 1).
    pub(crate) fn first_of_lookup(&self, k: usize) -> SocketAddr {
        let n = self.raw0.len();
        self.raw0[(n - (k % n)) % n]
    }
}
