//! Group gt — probe of `crate::daemon::system` (child module `verif_probe::gt`).
//!
//! `SystemTask`, its fields and its handlers are private to system.rs. This probe builds a
//! `SystemTask` with `SystemTask::new(..)` exactly the way `system::spawn` does (mock clock instead of
//! the kernel clock: the task is generic over `C: NtpClock`, only `spawn` pins it to `NtpClockWrapper`),
//! adds spawners with the real `add_spawner` (which starts the real `spawner_task`), and forwards
//! calls to the real `handle_spawn_event` / `handle_source_update` / `run`. The remaining functions
//! only READ the private tables. Nothing here changes behaviour of the code under test.
#![allow(dead_code)]

use std::collections::HashMap;
use std::net::IpAddr;
use std::sync::{Arc, Mutex, RwLock};

use ntp_proto::{
    AlgorithmConfig, ClockId, KalmanClockController, KeySet, KeySetProvider, NtpClock, NtpDuration,
    NtpLeapIndicator, NtpTimestamp, ObservableSourceState, SourceType, SynchronizationConfig,
    TimeSyncControllerWrapper,
};
use tokio::sync::{mpsc, watch};

use super::super::{DaemonChannels, SourceState, SystemTask};
use crate::daemon::config::TimestampMode;
use crate::daemon::ntp_source::MsgForSystem;
use crate::daemon::spawn::{SpawnEvent, Spawner, SpawnerId, SystemEvent};

/// A clock that is never the kernel clock: constant reading, every adjustment is a recorded no-op.
#[derive(Debug, Clone, Default)]
pub(crate) struct MockClock {
    pub(crate) adjustments: Arc<std::sync::atomic::AtomicU64>,
}

#[derive(Debug)]
pub(crate) struct MockClockError;
impl std::fmt::Display for MockClockError {
    fn fmt(&self, f: &mut std::fmt::Formatter<'_>) -> std::fmt::Result {
        write!(f, "mock clock error")
    }
}
impl std::error::Error for MockClockError {}

impl MockClock {
    fn touch(&self) {
        self.adjustments
            .fetch_add(1, std::sync::atomic::Ordering::Relaxed);
    }
}

impl NtpClock for MockClock {
    type Error = MockClockError;
    fn now(&self) -> Result<NtpTimestamp, Self::Error> {
        Ok(NtpTimestamp::from_seconds_nanos_since_ntp_era(
            0xE000_0000,
            0,
        ))
    }
    fn set_frequency(&self, _freq: f64) -> Result<NtpTimestamp, Self::Error> {
        self.touch();
        self.now()
    }
    fn get_frequency(&self) -> Result<f64, Self::Error> {
        Ok(0.0)
    }
    fn step_clock(&self, _offset: NtpDuration) -> Result<NtpTimestamp, Self::Error> {
        self.touch();
        self.now()
    }
    fn disable_ntp_algorithm(&self) -> Result<(), Self::Error> {
        Ok(())
    }
    fn error_estimate_update(
        &self,
        _est_error: NtpDuration,
        _max_error: NtpDuration,
    ) -> Result<(), Self::Error> {
        Ok(())
    }
    fn status_update(&self, _leap_status: NtpLeapIndicator) -> Result<(), Self::Error> {
        Ok(())
    }
}

pub(crate) type Ctl = TimeSyncControllerWrapper<KalmanClockController<MockClock>>;

/// One row of the private `sources` table.
#[derive(Debug, Clone, Copy, PartialEq, Eq, PartialOrd, Ord)]
pub(crate) struct Row {
    pub(crate) key: ClockId,
    pub(crate) source_id: ClockId,
    pub(crate) spawner: u64,
    pub(crate) is_ntp: bool,
}

fn spawner_num(id: SpawnerId) -> u64 {
    // SpawnerId's field is private to `spawn`; its Debug form is `SpawnerId(n)`.
    let s = format!("{id:?}");
    s.trim_start_matches("SpawnerId(")
        .trim_end_matches(')')
        .parse()
        .unwrap_or(u64::MAX)
}

pub(crate) fn spawner_id_num(id: SpawnerId) -> u64 {
    spawner_num(id)
}

/// Read-only handles that stay valid while `run` owns the task.
#[derive(Clone)]
pub(crate) struct Taps {
    sources: Arc<Mutex<HashMap<ClockId, SourceState>>>,
    pub(crate) snapshots: Arc<RwLock<HashMap<ClockId, ObservableSourceState>>>,
    /// what a source task holds: the sender half of the system's report channel
    pub(crate) msg_tx: mpsc::Sender<MsgForSystem>,
    /// what a spawner task holds
    pub(crate) spawn_tx: mpsc::Sender<SpawnEvent>,
}

impl Taps {
    pub(crate) fn rows(&self) -> Vec<Row> {
        let g = self.sources.lock().unwrap_or_else(|e| e.into_inner());
        let mut v: Vec<Row> = g
            .iter()
            .map(|(k, s)| Row {
                key: *k,
                source_id: s.source_id,
                spawner: spawner_num(s.spawner_id),
                is_ntp: matches!(s.stype, SourceType::Ntp),
            })
            .collect();
        v.sort();
        v
    }
    pub(crate) fn table_poisoned(&self) -> bool {
        self.sources.is_poisoned()
    }
    /// (id, name, address) of every published source snapshot, sorted by id
    pub(crate) fn snapshot_rows(&self) -> Vec<(ClockId, String, String)> {
        let g = self.snapshots.read().unwrap_or_else(|e| e.into_inner());
        let mut v: Vec<_> = g
            .iter()
            .map(|(k, s)| (*k, s.name.clone(), s.address.clone()))
            .collect();
        v.sort();
        v
    }
}

pub(crate) struct Sys {
    task: SystemTask<MockClock, Ctl>,
    channels: DaemonChannels,
    clock: MockClock,
    _keyset_tx: watch::Sender<Arc<KeySet>>,
    _ip_tx: watch::Sender<Arc<[IpAddr]>>,
}

impl Sys {
    /// `SystemTask::new` with the arguments `spawn` passes (default configuration, no interface,
    /// `have_sources = true` so `take_control` runs — on the mock clock).
    pub(crate) fn new() -> Sys {
        let clock = MockClock::default();
        let (keyset_tx, keyset_rx) = watch::channel(KeySetProvider::new(1).get());
        let ips: Arc<[IpAddr]> = Arc::from(Vec::<IpAddr>::new());
        let (ip_tx, ip_rx) = watch::channel(ips);
        let (task, channels) = SystemTask::<MockClock, Ctl>::new(
            clock.clone(),
            None,
            TimestampMode::KernelRecv,
            SynchronizationConfig::default(),
            AlgorithmConfig::default(),
            &keyset_rx,
            ip_rx,
            true,
            #[cfg(target_os = "linux")]
            crate::daemon::config::CsptpConfig::default(),
        );
        Sys {
            task,
            channels,
            clock,
            _keyset_tx: keyset_tx,
            _ip_tx: ip_tx,
        }
    }

    /// The real `add_spawner` (spawns the real `spawner_task` on the current runtime).
    pub(crate) fn add_spawner(&mut self, s: impl Spawner + Send + Sync + 'static) -> u64 {
        spawner_num(self.task.add_spawner(s))
    }

    /// Ids of the registered spawners in registration order.
    pub(crate) fn spawner_ids(&self) -> Vec<u64> {
        self.task.spawners.iter().map(|s| spawner_num(s.id)).collect()
    }

    /// A clone of the sender the system task uses to notify spawner number `i` (registration order).
    pub(crate) fn notify_tx(&self, i: usize) -> mpsc::Sender<SystemEvent> {
        self.task.spawners[i].notify_tx.clone()
    }

    pub(crate) fn taps(&self) -> Taps {
        Taps {
            sources: self.task.sources.clone(),
            snapshots: self.channels.source_snapshots.clone(),
            msg_tx: self.task.msg_for_system_tx.clone(),
            spawn_tx: self.task.spawn_tx.clone(),
        }
    }

    /// Is the map given to the observer (`DaemonChannels`) the one the system hands to its tasks?
    pub(crate) fn snapshot_map_shared(&self) -> bool {
        Arc::ptr_eq(&self.channels.source_snapshots, &self.task.source_snapshots)
    }

    pub(crate) fn clock_adjustments(&self) -> u64 {
        self.clock
            .adjustments
            .load(std::sync::atomic::Ordering::Relaxed)
    }

    /// The real `handle_spawn_event`.
    pub(crate) async fn handle_spawn_event(&mut self, ev: SpawnEvent) -> Result<(), String> {
        self.task
            .handle_spawn_event(ev)
            .await
            .map_err(|e| format!("{e}"))
    }

    /// The real `handle_source_update`.
    pub(crate) async fn handle_source_update(&mut self, msg: MsgForSystem) -> Result<(), String> {
        self.task
            .handle_source_update(msg)
            .await
            .map_err(|e| format!("{e}"))
    }

    /// Reports the real source tasks sent by themselves and that nobody consumed (direct-drive mode
    /// only; must stay empty: the harness never lets virtual time reach a second poll).
    pub(crate) fn drain_own_reports(&mut self) -> Vec<MsgForSystem> {
        let mut v = Vec::new();
        while let Ok(m) = self.task.msg_for_system_rx.try_recv() {
            v.push(m);
        }
        v
    }

    /// Spawn events real spawners queued for the system (direct-drive mode: the harness hands them
    /// to `handle_spawn_event` one by one, as the `run` loop would).
    pub(crate) fn next_spawn_event(&mut self) -> Option<SpawnEvent> {
        self.task.spawn_rx.try_recv().ok()
    }

    /// The real `run` loop on the current runtime (as `spawn` does with `tokio::spawn`).
    pub(crate) fn run(self) -> (tokio::task::JoinHandle<std::io::Result<()>>, Guard) {
        let Sys {
            mut task,
            channels,
            clock,
            _keyset_tx,
            _ip_tx,
        } = self;
        let h = tokio::spawn(async move { task.run().await });
        (
            h,
            Guard {
                _channels: channels,
                _clock: clock,
                _keyset_tx,
                _ip_tx,
            },
        )
    }
}

/// Keeps the outward channel ends alive while `run` owns the task.
pub(crate) struct Guard {
    _channels: DaemonChannels,
    _clock: MockClock,
    _keyset_tx: watch::Sender<Arc<KeySet>>,
    _ip_tx: watch::Sender<Arc<[IpAddr]>>,
}

impl Guard {
    pub(crate) fn clock_adjustments(&self) -> u64 {
        self._clock
            .adjustments
            .load(std::sync::atomic::Ordering::Relaxed)
    }
}
