//! C16 (daemon level) — the REAL `ServerTask` (ntpd/src/daemon/server.rs) never sends a
//! datagram that is longer than the datagram it answers.
//!
//! The library-level module (harness/ntp_proto/c16.rs) can only show that `Server::handle`
//! respects the buffer it is given; whether the daemon hands it a request-sized buffer, and
//! what really leaves the socket, is checked here: the real task is spawned on a loopback
//! UDP port (`ServerTask::spawn`, real `timestamped_socket`), real datagrams are sent to it
//! from real client sockets and every datagram that comes back is measured.
//!
//! This file also hosts the rig shared by the three daemon-level modules of group gq
//! (C15, C16, C22), as `pub(super)` items:
//!   * own AES / CMAC / AES-SIV (ntpd cannot reach ntp-proto's AEAD types or
//!     `KeySet::encode_cookie`): cookies are minted by the harness under a master key that is
//!     loaded into a real `KeySet` with `KeySetProvider::load` and handed to the task through
//!     the keyset watch channel, exactly like the daemon does;
//!   * a byte-level request builder with labels *by construction* (never asks the decoder);
//!   * an answer walker (mode, version, stratum / kiss code, origin echo, extension fields,
//!     NTS authenticator opened with the harness' own AES-SIV);
//!   * the daemon `ServerConfig` lattice, a reference policy decision written from the
//!     statement of C15, and `Rig`: spawn + `exchange` (request, then a sentinel poll whose
//!     answer — not a timeout — decides that "nothing came back").
#![allow(clippy::all)]

use std::collections::BTreeMap;
use std::net::{IpAddr, Ipv4Addr, Ipv6Addr, SocketAddr};
use std::sync::atomic::{AtomicU32, AtomicU64, Ordering};
use std::sync::{Arc, RwLock};
use std::time::Duration;

use ntp_proto::{
    FilterAction, FilterList, IpSubnet, KeySet, KeySetProvider, NtpClock, NtpDuration,
    NtpLeapIndicator, NtpServerInfo, NtpTimestamp, NtpVersion, Server,
};

use super::super::config::ServerConfig;
use super::super::server::{ServerStats, ServerTask};
use super::common::{self, Ctx};

// =====================================================================================
// AES / CMAC / AES-SIV (RFC 3610 S-box construction, RFC 4493, RFC 5297)
// =====================================================================================

fn sbox() -> &'static [u8; 256] {
    static S: std::sync::OnceLock<[u8; 256]> = std::sync::OnceLock::new();
    S.get_or_init(|| {
        let mut s = [0u8; 256];
        let (mut p, mut q) = (1u8, 1u8);
        loop {
            p = p ^ (p << 1) ^ (if p & 0x80 != 0 { 0x1B } else { 0 });
            q ^= q << 1;
            q ^= q << 2;
            q ^= q << 4;
            if q & 0x80 != 0 {
                q ^= 0x09;
            }
            let x = q ^ q.rotate_left(1) ^ q.rotate_left(2) ^ q.rotate_left(3) ^ q.rotate_left(4);
            s[p as usize] = x ^ 0x63;
            if p == 1 {
                break;
            }
        }
        s[0] = 0x63;
        s
    })
}

fn xtime(b: u8) -> u8 {
    (b << 1) ^ (if b & 0x80 != 0 { 0x1B } else { 0 })
}

pub(super) struct Aes {
    rk: Vec<[u8; 16]>,
}

impl Aes {
    pub(super) fn new(key: &[u8]) -> Aes {
        let nk = key.len() / 4;
        assert!(key.len() == 16 || key.len() == 32, "AES-128/256 only");
        let nr = nk + 6;
        let s = sbox();
        let mut w: Vec<[u8; 4]> = key.chunks(4).map(|c| [c[0], c[1], c[2], c[3]]).collect();
        let mut rcon = 1u8;
        for i in nk..4 * (nr + 1) {
            let mut t = w[i - 1];
            if i % nk == 0 {
                t = [s[t[1] as usize] ^ rcon, s[t[2] as usize], s[t[3] as usize], s[t[0] as usize]];
                rcon = xtime(rcon);
            } else if nk > 6 && i % nk == 4 {
                t = [s[t[0] as usize], s[t[1] as usize], s[t[2] as usize], s[t[3] as usize]];
            }
            let p = w[i - nk];
            w.push([p[0] ^ t[0], p[1] ^ t[1], p[2] ^ t[2], p[3] ^ t[3]]);
        }
        let rk = w
            .chunks(4)
            .map(|c| {
                let mut r = [0u8; 16];
                for (i, word) in c.iter().enumerate() {
                    r[4 * i..4 * i + 4].copy_from_slice(word);
                }
                r
            })
            .collect();
        Aes { rk }
    }

    pub(super) fn encrypt(&self, block: &[u8; 16]) -> [u8; 16] {
        let s = sbox();
        let mut st = *block;
        let nr = self.rk.len() - 1;
        for i in 0..16 {
            st[i] ^= self.rk[0][i];
        }
        for round in 1..=nr {
            // SubBytes + ShiftRows (state is column major: st[4*c + r])
            let mut t = [0u8; 16];
            for c in 0..4 {
                for r in 0..4 {
                    t[4 * c + r] = s[st[4 * ((c + r) % 4) + r] as usize];
                }
            }
            if round != nr {
                for c in 0..4 {
                    let a = [t[4 * c], t[4 * c + 1], t[4 * c + 2], t[4 * c + 3]];
                    let all = a[0] ^ a[1] ^ a[2] ^ a[3];
                    for r in 0..4 {
                        t[4 * c + r] = a[r] ^ all ^ xtime(a[r] ^ a[(r + 1) % 4]);
                    }
                }
            }
            for i in 0..16 {
                st[i] = t[i] ^ self.rk[round][i];
            }
        }
        st
    }
}

fn dbl(b: &[u8; 16]) -> [u8; 16] {
    let mut o = [0u8; 16];
    let mut carry = 0u8;
    for i in (0..16).rev() {
        o[i] = (b[i] << 1) | carry;
        carry = b[i] >> 7;
    }
    if carry != 0 {
        o[15] ^= 0x87;
    }
    o
}

fn xor16(a: &mut [u8; 16], b: &[u8; 16]) {
    for i in 0..16 {
        a[i] ^= b[i];
    }
}

fn cmac(aes: &Aes, msg: &[u8]) -> [u8; 16] {
    let k1 = dbl(&aes.encrypt(&[0u8; 16]));
    let k2 = dbl(&k1);
    let n = if msg.is_empty() { 1 } else { (msg.len() + 15) / 16 };
    let complete = !msg.is_empty() && msg.len() % 16 == 0;
    let mut x = [0u8; 16];
    for i in 0..n - 1 {
        let mut b = [0u8; 16];
        b.copy_from_slice(&msg[16 * i..16 * i + 16]);
        xor16(&mut x, &b);
        x = aes.encrypt(&x);
    }
    let rest = &msg[16 * (n - 1)..];
    let mut last = [0u8; 16];
    if complete {
        last.copy_from_slice(rest);
        xor16(&mut last, &k1);
    } else {
        last[..rest.len()].copy_from_slice(rest);
        last[rest.len()] = 0x80;
        xor16(&mut last, &k2);
    }
    xor16(&mut x, &last);
    aes.encrypt(&x)
}

fn s2v(mac: &Aes, headers: &[&[u8]], plaintext: &[u8]) -> [u8; 16] {
    let mut d = cmac(mac, &[0u8; 16]);
    for h in headers {
        d = dbl(&d);
        xor16(&mut d, &cmac(mac, h));
    }
    if plaintext.len() >= 16 {
        let mut t = plaintext.to_vec();
        let off = t.len() - 16;
        for i in 0..16 {
            t[off + i] ^= d[i];
        }
        cmac(mac, &t)
    } else {
        let mut t = dbl(&d);
        let mut p = [0u8; 16];
        p[..plaintext.len()].copy_from_slice(plaintext);
        p[plaintext.len()] = 0x80;
        xor16(&mut t, &p);
        cmac(mac, &t)
    }
}

fn ctr(aes: &Aes, iv: &[u8; 16], data: &mut [u8]) {
    let mut q = *iv;
    q[8] &= 0x7F;
    q[12] &= 0x7F;
    let mut counter = u128::from_be_bytes(q);
    for chunk in data.chunks_mut(16) {
        let ks = aes.encrypt(&counter.to_be_bytes());
        for (b, k) in chunk.iter_mut().zip(ks.iter()) {
            *b ^= k;
        }
        counter = counter.wrapping_add(1);
    }
}

/// AES-SIV (key = MAC key || CTR key, 32 or 64 bytes); returns tag || ciphertext.
pub(super) fn siv_encrypt(key: &[u8], headers: &[&[u8]], plaintext: &[u8]) -> Vec<u8> {
    let (k1, k2) = key.split_at(key.len() / 2);
    let v = s2v(&Aes::new(k1), headers, plaintext);
    let mut out = v.to_vec();
    let mut c = plaintext.to_vec();
    ctr(&Aes::new(k2), &v, &mut c);
    out.extend_from_slice(&c);
    out
}

/// Inverse of `siv_encrypt`; `None` if the tag does not verify.
pub(super) fn siv_decrypt(key: &[u8], headers: &[&[u8]], ct: &[u8]) -> Option<Vec<u8>> {
    if ct.len() < 16 {
        return None;
    }
    let (k1, k2) = key.split_at(key.len() / 2);
    let mut v = [0u8; 16];
    v.copy_from_slice(&ct[..16]);
    let mut p = ct[16..].to_vec();
    ctr(&Aes::new(k2), &v, &mut p);
    if s2v(&Aes::new(k1), headers, &p) == v { Some(p) } else { None }
}

/// Known-answer tests: FIPS-197 C.1/C.3, RFC 4493 example 2, RFC 5297 A.1.
pub(super) fn crypto_self_test() -> Result<(), String> {
    let h = |s: &str| common::unhex(s).unwrap();
    let mut b = [0u8; 16];
    b.copy_from_slice(&h("00112233445566778899aabbccddeeff"));
    if Aes::new(&h("000102030405060708090a0b0c0d0e0f")).encrypt(&b).to_vec() != h("69c4e0d86a7b0430d8cdb78070b4c55a") {
        return Err("AES-128 known answer".into());
    }
    if Aes::new(&h("000102030405060708090a0b0c0d0e0f101112131415161718191a1b1c1d1e1f")).encrypt(&b).to_vec()
        != h("8ea2b7ca516745bfeafc49904b496089")
    {
        return Err("AES-256 known answer".into());
    }
    let k = Aes::new(&h("2b7e151628aed2a6abf7158809cf4f3c"));
    if cmac(&k, &h("6bc1bee22e409f96e93d7e117393172a")).to_vec() != h("070a16b46b4d4144f79bdd9dd04a287c") {
        return Err("CMAC known answer".into());
    }
    if cmac(&k, &[]).to_vec() != h("bb1d6929e95937287fa37d129b756746") {
        return Err("CMAC (empty) known answer".into());
    }
    let key = h("fffefdfcfbfaf9f8f7f6f5f4f3f2f1f0f0f1f2f3f4f5f6f7f8f9fafbfcfdfeff");
    let ad = h("101112131415161718191a1b1c1d1e1f2021222324252627");
    let pt = h("112233445566778899aabbccddee");
    let ct = siv_encrypt(&key, &[&ad], &pt);
    if ct != h("85632d07c6e8f37f950acd320a2ecc9340c02b9690c4dc04daef7f6afe5c") {
        return Err(format!("AES-SIV known answer: got {}", common::hex(&ct)));
    }
    if siv_decrypt(&key, &[&ad], &ct).as_deref() != Some(&pt[..]) {
        return Err("AES-SIV round trip".into());
    }
    Ok(())
}

// =====================================================================================
// keys, cookies, sessions
// =====================================================================================

/// Master keys of the server key set (AES-SIV-CMAC-512, 64 bytes each). Key `i` is byte
/// pattern `0x40 + 0x10*i + j`. The key set the server starts with holds keys 0 and 1 with
/// id offset `ID_OFFSET`, key 1 primary; the "rotated" set (sent through the watch channel
/// in mid-run) holds keys 1 and 2 with offset `ID_OFFSET + 1`, key 2 primary.
pub(super) const ID_OFFSET: u32 = 7;

pub(super) fn master_key(i: u32) -> Vec<u8> {
    (0..64u32).map(|j| (0x40 + 0x10 * i + j * 3) as u8).collect()
}

/// A real `KeySet` holding master keys `first..first+n`, ids `ID_OFFSET+first..`, last one primary.
pub(super) fn keyset(first: u32, n: u32) -> Arc<KeySet> {
    let mut bytes = vec![];
    bytes.extend_from_slice(&1_700_000_000u64.to_be_bytes());
    bytes.extend_from_slice(&(ID_OFFSET + first).to_be_bytes());
    bytes.extend_from_slice(&(n - 1).to_be_bytes());
    bytes.extend_from_slice(&n.to_be_bytes());
    for i in first..first + n {
        bytes.extend_from_slice(&master_key(i));
    }
    let (p, _) = KeySetProvider::load(&mut std::io::Cursor::new(bytes), n as usize).expect("key set bytes");
    p.get()
}

/// The client's NTS session keys (what NTS-KE would have produced); fixed bytes.
#[derive(Clone, Copy, Debug, PartialEq, Eq, Hash)]
pub(super) struct Session {
    pub alg512: bool,
}

impl Session {
    pub(super) fn key_len(&self) -> usize {
        if self.alg512 { 64 } else { 32 }
    }
    pub(super) fn s2c(&self) -> Vec<u8> {
        (0..self.key_len()).map(|i| 0x20u8.wrapping_add(i as u8)).collect()
    }
    pub(super) fn c2s(&self) -> Vec<u8> {
        (0..self.key_len()).map(|i| 0x81u8.wrapping_add(3 * i as u8)).collect()
    }
    pub(super) fn cookie_len(&self) -> usize {
        6 + 16 + 16 + 2 + 2 * self.key_len()
    }
}

/// Cookie under master key `key_index` announced with key id `ID_OFFSET + id_index`
/// (format of ntp-proto/src/keyset.rs: id(4) ctlen(2) nonce(16) SIV(alg(2) s2c c2s)).
pub(super) fn make_cookie(key_index: u32, id_index: u32, sess: &Session, nonce_seed: u8) -> Vec<u8> {
    let mut plain = vec![];
    plain.extend_from_slice(&(if sess.alg512 { 17u16 } else { 15u16 }).to_be_bytes());
    plain.extend_from_slice(&sess.s2c());
    plain.extend_from_slice(&sess.c2s());
    let nonce: Vec<u8> = (0..16u8).map(|i| nonce_seed.wrapping_mul(31).wrapping_add(i * 7) | 1).collect();
    let ct = siv_encrypt(&master_key(key_index), &[&[], &nonce], &plain);
    let mut out = vec![];
    out.extend_from_slice(&(ID_OFFSET + id_index).to_be_bytes());
    out.extend_from_slice(&(ct.len() as u16).to_be_bytes());
    out.extend_from_slice(&nonce);
    out.extend_from_slice(&ct);
    out
}

// =====================================================================================
// request builder (labels by construction)
// =====================================================================================

pub(super) const T_UID: u16 = 0x0104;
pub(super) const T_COOKIE: u16 = 0x0204;
pub(super) const T_PH: u16 = 0x0304;
pub(super) const T_AUTH: u16 = 0x0404;
pub(super) const T_UNKNOWN: u16 = 0x0B0B;
pub(super) const T_DRAFT: u16 = 0xF5FF;
pub(super) const DRAFT: &[u8] = b"draft-ietf-ntp-ntpv5-09";

/// Which key minted the request's cookie (relative to the key set the server holds).
#[derive(Clone, Copy, Debug, PartialEq, Eq, Hash, PartialOrd, Ord)]
pub(super) enum Ck {
    /// primary key of the initial key set (key 1)
    Cur,
    /// older key still in the initial set (key 0)
    Prev,
    /// key 2: unknown id for the initial set, primary of the rotated set
    Next,
    /// right id, encrypted under another key
    WrongKey,
    /// not a cookie at all
    Garbage,
}

#[derive(Clone, Copy, Debug, PartialEq, Eq, Hash, PartialOrd, Ord)]
pub(super) enum Au {
    Ok,
    /// valid, 8-byte nonce (the server's answer needs 8 bytes more than the request)
    N8,
    BadTag,
    /// encrypted with the s2c key
    WrongKey,
}

#[derive(Clone, Debug, PartialEq, Eq, Hash, PartialOrd, Ord)]
pub(super) enum F {
    /// unique identifier with a body of n bytes
    Uid(u16),
    /// unknown type 0x0B0B with a body of n bytes
    Unk(u16),
    Cookie(Ck),
    /// placeholder with body = cookie length + delta
    Ph(i16),
    /// v5 draft identification (true = the server's draft)
    Draft(bool),
    /// raw field: type, declared length, body bytes written
    Raw(u16, u16, u16),
    Auth(Au, Vec<F>),
}

#[derive(Clone, Debug, PartialEq, Eq, Hash)]
pub(super) struct Req {
    pub ver: u8,
    pub mode: u8,
    pub alg512: bool,
    pub fields: Vec<F>,
    /// trailing bytes (a MAC in v3/v4 terms)
    pub tail: u16,
}

/// Facts about a datagram known by construction.
#[derive(Clone, Copy, Debug, PartialEq, Eq, Hash, PartialOrd, Ord)]
pub(super) enum Form {
    /// syntactically valid under the RFCs and RFC-7822-clean: must be served
    Well,
    /// syntactically valid but the answer needs RFC 7822 minimum-size padding or a longer
    /// nonce than the request has room for (C17's known drop classes): answer or nothing
    WellTight,
    /// must never be answered (too short, unknown version, bad framing, wrong/missing draft)
    Malformed,
    /// no claim (truncations at odd places, oversize, byte edits)
    Unknown,
}

#[derive(Clone, Copy, Debug, PartialEq, Eq, Hash, PartialOrd, Ord)]
pub(super) enum Nts {
    Plain,
    Valid,
    Invalid,
    /// several cookies / authenticators: no claim
    Ambiguous,
}

#[derive(Clone, Debug)]
pub(super) struct Dg {
    pub name: String,
    pub bytes: Vec<u8>,
    pub form: Form,
    pub nts: Nts,
    /// key the (single) cookie was minted under, if `nts == Valid`
    pub cookie: Option<Ck>,
    pub alg512: bool,
    /// end offset of the authenticator field (0 = none)
    pub auth_end: usize,
}

fn round4(n: usize) -> usize {
    (n + 3) & !3
}

fn put_field(out: &mut Vec<u8>, ver: u8, ty: u16, body: &[u8]) -> usize {
    let off = out.len();
    let wire = round4(4 + body.len());
    let declared = if ver == 5 { 4 + body.len() } else { wire };
    out.extend_from_slice(&ty.to_be_bytes());
    out.extend_from_slice(&(declared as u16).to_be_bytes());
    out.extend_from_slice(body);
    out.resize(off + wire, 0);
    wire
}

fn tagged(pos: u8, kind: u8, n: usize) -> Vec<u8> {
    (0..n).map(|k| [0xA5, 0xC0 | (pos & 0x3F), kind, (k / 8) as u8, 0x5A, !pos, !kind, 0x3C ^ (k / 8) as u8][k % 8]).collect()
}

/// 48-byte header; `id` goes where the answer echoes it from (v3/v4: transmit timestamp,
/// v5: client cookie). Everything else is position-unique garbage.
pub(super) fn header(ver: u8, mode: u8, id: u64) -> Vec<u8> {
    let mut h = vec![0u8; 48];
    h[0] = ((ver & 7) << 3) | (mode & 7);
    h[1] = 0xB7;
    h[2] = 6;
    h[3] = 0xC9;
    h[4..8].copy_from_slice(&[0xA5, 0xF0, 6, 0]);
    h[8..12].copy_from_slice(&[0xA5, 0xF1, 6, 0]);
    if ver == 5 {
        h[12] = 0; // timescale UTC
        h[13] = 0; // era
        h[14] = 0;
        h[15] = 0; // flags
        h[16..24].copy_from_slice(&[0xA5, 0xF2, 6, 0, 0x5A, 0x0D, 0xF9, 0x3C]);
        h[24..32].copy_from_slice(&id.to_be_bytes());
        h[32..40].copy_from_slice(&[0xA5, 0xF4, 6, 0, 0x5A, 0x0B, 0xF9, 0x3C]);
        h[40..48].copy_from_slice(&[0xA5, 0xF5, 6, 0, 0x5A, 0x0A, 0xF9, 0x3C]);
    } else {
        h[12..16].copy_from_slice(&[0xA5, 0xF2, 6, 0]);
        h[16..24].copy_from_slice(&[0xA5, 0xF3, 6, 0, 0x5A, 0x0C, 0xF9, 0x3C]);
        h[24..32].copy_from_slice(&[0xA5, 0xF4, 6, 0, 0x5A, 0x0B, 0xF9, 0x3C]);
        h[32..40].copy_from_slice(&[0xA5, 0xF5, 6, 0, 0x5A, 0x0A, 0xF9, 0x3C]);
        h[40..48].copy_from_slice(&id.to_be_bytes());
    }
    h
}

/// Offset of the 8 bytes an answer echoes (None if the datagram is too short).
pub(super) fn id_offset(bytes: &[u8]) -> Option<usize> {
    if bytes.len() < 48 {
        return None;
    }
    Some(if (bytes[0] >> 3) & 7 == 5 { 24 } else { 40 })
}

fn cookie_bytes(ck: Ck, sess: &Session, pos: u8) -> Vec<u8> {
    match ck {
        Ck::Cur => make_cookie(1, 1, sess, pos),
        Ck::Prev => make_cookie(0, 0, sess, pos),
        Ck::Next => make_cookie(2, 2, sess, pos),
        Ck::WrongKey => make_cookie(3, 1, sess, pos),
        Ck::Garbage => tagged(pos, 3, sess.cookie_len()),
    }
}

fn put_simple(out: &mut Vec<u8>, f: &F, ver: u8, pos: u8, sess: &Session) {
    match f {
        F::Uid(n) => {
            put_field(out, ver, T_UID, &tagged(pos, 1, *n as usize));
        }
        F::Unk(n) => {
            put_field(out, ver, T_UNKNOWN, &tagged(pos, 2, *n as usize));
        }
        F::Cookie(ck) => {
            put_field(out, ver, T_COOKIE, &cookie_bytes(*ck, sess, pos));
        }
        F::Ph(d) => {
            let n = (sess.cookie_len() as i64 + *d as i64).max(0) as usize;
            put_field(out, ver, T_PH, &vec![0u8; n]);
        }
        F::Draft(good) => {
            let mut b = DRAFT.to_vec();
            if !*good {
                *b.last_mut().unwrap() = b'8';
            }
            put_field(out, ver, T_DRAFT, &b);
        }
        F::Raw(ty, declared, n) => {
            out.extend_from_slice(&ty.to_be_bytes());
            out.extend_from_slice(&declared.to_be_bytes());
            out.extend(tagged(pos, 7, *n as usize));
        }
        F::Auth(..) => unreachable!("nested authenticator"),
    }
}

impl F {
    pub(super) fn code(&self) -> String {
        match self {
            F::Uid(n) => format!("u{n}"),
            F::Unk(n) => format!("k{n}"),
            F::Cookie(c) => format!("c{}", match c {
                Ck::Cur => 'C',
                Ck::Prev => 'P',
                Ck::Next => 'N',
                Ck::WrongKey => 'W',
                Ck::Garbage => 'G',
            }),
            F::Ph(d) => format!("p{d}"),
            F::Draft(g) => format!("d{}", *g as u8),
            F::Raw(t, d, n) => format!("r{t:04x}:{d}:{n}"),
            F::Auth(a, inner) => format!(
                "A{}({})",
                match a {
                    Au::Ok => "ok",
                    Au::N8 => "n8",
                    Au::BadTag => "bad",
                    Au::WrongKey => "key",
                },
                inner.iter().map(|f| f.code()).collect::<Vec<_>>().join("+")
            ),
        }
    }
}

impl Req {
    pub(super) fn new(ver: u8, fields: Vec<F>) -> Req {
        Req { ver, mode: 3, alg512: false, fields, tail: 0 }
    }
    pub(super) fn mode(mut self, m: u8) -> Req {
        self.mode = m;
        self
    }
    pub(super) fn tail(mut self, t: u16) -> Req {
        self.tail = t;
        self
    }
    pub(super) fn alg512(mut self) -> Req {
        self.alg512 = true;
        self
    }
    pub(super) fn code(&self) -> String {
        format!(
            "v{}.m{}.a{}|{}|t{}",
            self.ver,
            self.mode,
            self.alg512 as u8,
            self.fields.iter().map(|f| f.code()).collect::<Vec<_>>().join(","),
            self.tail
        )
    }

    /// Assemble the datagram with echo id `id` and derive its labels from the construction.
    pub(super) fn build(&self, id: u64) -> Dg {
        let sess = Session { alg512: self.alg512 };
        let ver = self.ver;
        let mut out = header(ver, self.mode, id);
        let mut malformed = !(3..=5).contains(&ver);
        let mut tight = false;
        let mut n_auth = 0;
        let mut auth_good = true;
        let mut pre_cookies: Vec<Ck> = vec![];
        let mut auth_end = 0;
        let mut draft_ok = false;
        let mut draft_bad = false;
        let nf = self.fields.len();
        for (i, f) in self.fields.iter().enumerate() {
            let last = i + 1 == nf;
            let before = out.len();
            match f {
                F::Auth(au, inner) => {
                    let mut plain = vec![];
                    for (k, g) in inner.iter().enumerate() {
                        put_simple(&mut plain, g, ver, (16 + 4 * i + k) as u8, &sess);
                        if let F::Uid(n) = g {
                            // authenticated/encrypted identifiers are re-encoded with a 16 byte minimum
                            if round4(4 + *n as usize) < 16 {
                                tight = true;
                            }
                        }
                        if matches!(g, F::Raw(..)) {
                            tight = true;
                        }
                    }
                    let nonce_len = if *au == Au::N8 { 8 } else { 16 };
                    let nonce = tagged(i as u8, 4, nonce_len);
                    let key = if *au == Au::WrongKey { sess.s2c() } else { sess.c2s() };
                    let mut ct = siv_encrypt(&key, &[&out, &nonce], &plain);
                    if *au == Au::BadTag {
                        ct[3] ^= 0x10;
                    }
                    let mut body = vec![];
                    body.extend_from_slice(&(nonce.len() as u16).to_be_bytes());
                    body.extend_from_slice(&(ct.len() as u16).to_be_bytes());
                    body.extend_from_slice(&nonce);
                    body.resize(4 + round4(nonce.len()), 0);
                    body.extend_from_slice(&ct);
                    put_field(&mut out, ver, T_AUTH, &body);
                    n_auth += 1;
                    if n_auth == 1 {
                        auth_end = out.len();
                        auth_good = matches!(au, Au::Ok | Au::N8);
                        if *au == Au::N8 {
                            tight = true;
                        }
                        // identifiers in front of the authenticator: 16 byte minimum in the answer
                        for g in &self.fields[..i] {
                            if let F::Uid(n) = g {
                                if round4(4 + *n as usize) < 16 {
                                    tight = true;
                                }
                            }
                        }
                    }
                }
                other => {
                    put_simple(&mut out, other, ver, i as u8, &sess);
                    match other {
                        F::Cookie(ck) if n_auth == 0 => pre_cookies.push(*ck),
                        F::Draft(true) => draft_ok = true,
                        F::Draft(false) => draft_bad = true,
                        F::Raw(_, declared, n) => {
                            let d = *declared as usize;
                            let wire = if ver == 5 { round4(d) } else { d };
                            if d < 4 || (ver != 5 && d % 4 != 0) || wire != 4 + *n as usize {
                                malformed = true;
                            }
                        }
                        _ => {}
                    }
                }
            }
            let wire = out.len() - before;
            if ver == 4 {
                // RFC 7822: a field is at least 16 bytes, the last one at least 28 when no MAC
                // follows (otherwise it is indistinguishable from a MAC).
                if wire < 16 || (last && self.tail == 0 && wire < 28) {
                    tight = true;
                }
            }
        }
        if ver == 3 && !self.fields.is_empty() {
            malformed = true;
        }
        if self.tail > 0 {
            out.extend(tagged(0x3E, 5, self.tail as usize));
            // a MAC is 4, 20 or 24 bytes (RFC 7822); anything else: no claim
            if ![4u16, 20, 24].contains(&self.tail) || ver == 5 {
                tight = true;
            }
            if self.tail < 4 && ver != 5 {
                malformed = true;
            }
        }
        if ver == 5 && (!draft_ok || draft_bad) {
            malformed = true;
        }
        if ver == 5 && !matches!(self.mode, 3 | 4) {
            malformed = true;
        }
        let nts = if n_auth == 0 || ver == 3 {
            Nts::Plain
        } else if n_auth > 1 || pre_cookies.len() > 1 {
            Nts::Ambiguous
        } else if !auth_good || pre_cookies.is_empty() || !matches!(pre_cookies[0], Ck::Cur | Ck::Prev | Ck::Next) {
            Nts::Invalid
        } else {
            Nts::Valid
        };
        let form = if malformed {
            Form::Malformed
        } else if tight && self.tail > 0 && ![4u16, 20, 24].contains(&self.tail) {
            Form::Unknown
        } else if tight {
            Form::WellTight
        } else {
            Form::Well
        };
        Dg {
            name: self.code(),
            bytes: out,
            form,
            nts,
            cookie: if nts == Nts::Valid { Some(pre_cookies[0]) } else { None },
            alg512: self.alg512,
            auth_end,
        }
    }
}

impl Dg {
    pub(super) fn raw(name: &str, bytes: Vec<u8>, form: Form) -> Dg {
        Dg { name: name.to_string(), bytes, form, nts: Nts::Plain, cookie: None, alg512: false, auth_end: 0 }
    }
    pub(super) fn ver(&self) -> u8 {
        self.bytes.first().map_or(0, |b| (b >> 3) & 7)
    }
    pub(super) fn mode(&self) -> u8 {
        self.bytes.first().map_or(0, |b| b & 7)
    }
    /// Prefix of `cut` bytes; labels weakened accordingly.
    pub(super) fn truncated(&self, cut: usize) -> Dg {
        let mut d = self.clone();
        d.bytes.truncate(cut);
        d.name = format!("{}#cut{}", self.name, cut);
        if cut < 48 {
            d.form = Form::Malformed;
        } else if cut < self.bytes.len() {
            d.form = Form::Unknown;
        }
        if self.auth_end != 0 && cut < self.auth_end {
            d.nts = Nts::Plain;
            d.cookie = None;
            d.auth_end = 0;
        }
        d
    }
    /// `n` extra zero bytes appended (oversize datagrams); no claim about the form.
    pub(super) fn extended(&self, total: usize) -> Dg {
        let mut d = self.clone();
        d.bytes.resize(total, 0);
        d.name = format!("{}#len{}", self.name, total);
        d.form = Form::Unknown;
        if self.nts != Nts::Plain {
            d.nts = Nts::Ambiguous;
        }
        d
    }
    /// Re-stamp the echo id of a datagram whose authenticator does not cover it (plain ones).
    pub(super) fn with_id(&self, id: u64) -> Dg {
        let mut d = self.clone();
        if let Some(o) = id_offset(&d.bytes) {
            d.bytes[o..o + 8].copy_from_slice(&id.to_be_bytes());
        }
        d
    }
}

// =====================================================================================
// answer walker (independent of the decoder under test)
// =====================================================================================

/// What the mock clock says; a time answer carries it as transmit timestamp.
pub(super) const CLOCK_TS: u64 = 0xE5A1_2B3C_C000_0000;

#[derive(Clone, Copy, Debug, PartialEq, Eq, Hash, PartialOrd, Ord)]
pub(super) enum Kind {
    Time,
    Deny,
    Rate,
    Nak,
    OtherKiss,
    /// not even a server-mode NTP header
    Junk,
}

impl Kind {
    pub(super) fn code(self) -> &'static str {
        match self {
            Kind::Time => "time",
            Kind::Deny => "deny",
            Kind::Rate => "rate",
            Kind::Nak => "nak",
            Kind::OtherKiss => "kiss?",
            Kind::Junk => "junk",
        }
    }
}

#[derive(Clone, Debug)]
pub(super) struct AField {
    pub ty: u16,
    pub off: usize,
    pub body: Vec<u8>,
}

#[derive(Clone, Debug)]
pub(super) struct Answer {
    pub raw: Vec<u8>,
    pub from: SocketAddr,
    pub kind: Kind,
    pub ver: u8,
    pub mode: u8,
    pub stratum: u8,
    /// the 8 bytes that echo the request's id
    pub echo: u64,
    pub transmit: u64,
    pub fields: Vec<AField>,
    /// framing problem found by the walker, if any
    pub defect: Option<String>,
}

fn walk_fields(buf: &[u8], base: usize, v5: bool) -> Result<Vec<AField>, String> {
    let mut out = vec![];
    let mut o = 0;
    while o < buf.len() {
        if buf.len() - o < 4 {
            return Err(format!("{} stray bytes at {}", buf.len() - o, base + o));
        }
        let ty = u16::from_be_bytes([buf[o], buf[o + 1]]);
        let declared = u16::from_be_bytes([buf[o + 2], buf[o + 3]]) as usize;
        if declared < 4 || (!v5 && declared % 4 != 0) {
            return Err(format!("field at {} declares length {declared}", base + o));
        }
        let wire = round4(declared);
        if o + wire > buf.len() {
            return Err(format!("field at {} (len {declared}) overruns the datagram", base + o));
        }
        out.push(AField { ty, off: base + o, body: buf[o + 4..o + declared].to_vec() });
        o += wire;
    }
    Ok(out)
}

pub(super) fn walk(raw: &[u8], from: SocketAddr) -> Answer {
    let mut a = Answer {
        raw: raw.to_vec(),
        from,
        kind: Kind::Junk,
        ver: 0,
        mode: 0,
        stratum: 0,
        echo: 0,
        transmit: 0,
        fields: vec![],
        defect: None,
    };
    if raw.len() < 48 {
        a.defect = Some(format!("{} bytes", raw.len()));
        return a;
    }
    a.ver = (raw[0] >> 3) & 7;
    a.mode = raw[0] & 7;
    a.stratum = raw[1];
    a.echo = u64::from_be_bytes(raw[24..32].try_into().unwrap());
    a.transmit = u64::from_be_bytes(raw[40..48].try_into().unwrap());
    let fields = match a.ver {
        3 if raw.len() == 48 => Ok(vec![]),
        3 => Err(format!("v3 answer of {} bytes", raw.len())),
        4 => walk_fields(&raw[48..], 48, false),
        5 => walk_fields(&raw[48..], 48, true),
        v => Err(format!("version {v}")),
    };
    match fields {
        Ok(f) => a.fields = f,
        Err(e) => a.defect = Some(e),
    }
    if a.mode != 4 || !(3..=5).contains(&a.ver) {
        return a;
    }
    a.kind = if a.stratum != 0 {
        Kind::Time
    } else if a.ver == 5 {
        if raw[15] & 0b100 != 0 {
            Kind::Nak
        } else if raw[2] == 0x7F {
            Kind::Deny
        } else {
            Kind::Rate
        }
    } else {
        match &raw[12..16] {
            b"DENY" => Kind::Deny,
            b"RATE" => Kind::Rate,
            b"NTSN" => Kind::Nak,
            _ => Kind::OtherKiss,
        }
    };
    a
}

impl Answer {
    /// Open the answer's NTS authenticator with the session's s2c key (AAD = all bytes in
    /// front of the field). Ok(number of fresh cookies inside).
    pub(super) fn open_nts(&self, sess: &Session) -> Result<usize, String> {
        let auth: Vec<&AField> = self.fields.iter().filter(|f| f.ty == T_AUTH).collect();
        if auth.len() != 1 {
            return Err(format!("{} authenticator fields", auth.len()));
        }
        let f = auth[0];
        let b = &f.body;
        if b.len() < 4 {
            return Err("authenticator body shorter than 4".into());
        }
        let nl = u16::from_be_bytes([b[0], b[1]]) as usize;
        let cl = u16::from_be_bytes([b[2], b[3]]) as usize;
        let cs = 4 + round4(nl);
        if 4 + nl > b.len() || cs + cl > b.len() {
            return Err(format!("nonce {nl} / ciphertext {cl} do not fit the body of {}", b.len()));
        }
        let plain = siv_decrypt(&sess.s2c(), &[&self.raw[..f.off], &b[4..4 + nl]], &b[cs..cs + cl])
            .ok_or_else(|| "does not verify under the s2c key".to_string())?;
        let inner = walk_fields(&plain, 0, self.ver == 5).map_err(|e| format!("plaintext: {e}"))?;
        Ok(inner.iter().filter(|f| f.ty == T_COOKIE).count())
    }
}

// =====================================================================================
// daemon configurations
// =====================================================================================

/// Test client addresses (all local on Linux: 127/8 and ::1).
pub(super) const CL_A: IpAddr = IpAddr::V4(Ipv4Addr::new(127, 0, 0, 1));
pub(super) const CL_B: IpAddr = IpAddr::V4(Ipv4Addr::new(127, 0, 0, 2));
pub(super) const CL_C: IpAddr = IpAddr::V4(Ipv4Addr::new(127, 0, 1, 1));
pub(super) const CL_D: IpAddr = IpAddr::V4(Ipv4Addr::new(127, 1, 0, 1));
pub(super) const CL_6: IpAddr = IpAddr::V6(Ipv6Addr::LOCALHOST);
/// The sentinel's home: 127.200.x.y — never on a deny list, always on the allow list.
pub(super) const SENTINEL_NET: &str = "127.200.0.0/16";

#[derive(Clone, Copy, Debug, PartialEq, Eq, Hash, PartialOrd, Ord)]
pub(super) enum Listen {
    /// 127.0.0.1:port
    Lo4,
    /// 0.0.0.0:port (also receives datagrams sent to the loopback broadcast address)
    Any4,
    /// [::]:port, dual stack: IPv4 clients appear as ::ffff:a.b.c.d
    Any6,
}

impl Listen {
    pub(super) const ALL: [Listen; 3] = [Listen::Lo4, Listen::Any4, Listen::Any6];
    pub(super) fn code(self) -> &'static str {
        match self {
            Listen::Lo4 => "lo4",
            Listen::Any4 => "any4",
            Listen::Any6 => "any6",
        }
    }
    pub(super) fn addr(self, port: u16) -> SocketAddr {
        match self {
            Listen::Lo4 => SocketAddr::new(CL_A, port),
            Listen::Any4 => SocketAddr::new(IpAddr::V4(Ipv4Addr::UNSPECIFIED), port),
            Listen::Any6 => SocketAddr::new(IpAddr::V6(Ipv6Addr::UNSPECIFIED), port),
        }
    }
    /// where a client of family `ip` sends to
    pub(super) fn target(self, ip: IpAddr, port: u16) -> Option<SocketAddr> {
        match (self, ip) {
            (Listen::Any6, IpAddr::V6(_)) => Some(SocketAddr::new(CL_6, port)),
            (_, IpAddr::V6(_)) => None,
            (_, IpAddr::V4(_)) => Some(SocketAddr::new(CL_A, port)),
        }
    }
}

/// Named subnet lists (deny / allow alphabets). The sentinel net is added to every allow
/// list and is outside every deny list.
pub(super) const LISTS: [(&str, &[&str]); 10] = [
    ("none", &[]),
    ("b32", &["127.0.0.2/32"]),
    ("a32", &["127.0.0.1/32"]),
    ("ab24", &["127.0.0.0/24"]),
    ("abc16", &["127.0.0.0/16"]),
    ("abcd9", &["127.0.0.0/9"]),
    ("v6one", &["::1/128"]),
    ("v6all", &["::/0"]),
    ("b32+v6", &["127.0.0.2/32", "::1/128"]),
    ("all", &["127.0.0.0/9", "::/0"]),
];

pub(super) fn list(name: &str) -> Option<&'static [&'static str]> {
    LISTS.iter().find(|(n, _)| *n == name).map(|(_, l)| *l)
}

#[derive(Clone, Debug, PartialEq, Eq, Hash)]
pub(super) struct Cfg {
    pub listen: Listen,
    pub deny: &'static str,
    pub deny_act: FilterAction,
    /// "all" = the daemon default (0.0.0.0/0, ::/0)
    pub allow: &'static str,
    pub allow_act: FilterAction,
    pub require_nts: Option<FilterAction>,
    /// accepted versions as digits, e.g. "34"
    pub versions: &'static str,
    /// rate limiting: cache of one slot, cut-off one hour
    pub rate_limit: bool,
}

fn act_code(a: FilterAction) -> char {
    if a == FilterAction::Deny { 'd' } else { 'i' }
}

fn intern(s: &str, pool: &[&'static str]) -> Option<&'static str> {
    pool.iter().copied().find(|p| *p == s)
}

pub(super) const VERSION_SETS: [&str; 6] = ["34", "4", "345", "5", "3", "45"];

impl Cfg {
    pub(super) fn open(listen: Listen) -> Cfg {
        Cfg {
            listen,
            deny: "none",
            deny_act: FilterAction::Deny,
            allow: "all",
            allow_act: FilterAction::Ignore,
            require_nts: None,
            versions: "345",
            rate_limit: false,
        }
    }
    pub(super) fn code(&self) -> String {
        format!(
            "{};dl={}:{};al={}:{};nts={};ver={};rl={}",
            self.listen.code(),
            self.deny,
            act_code(self.deny_act),
            self.allow,
            act_code(self.allow_act),
            match self.require_nts {
                None => 'n',
                Some(a) => act_code(a),
            },
            self.versions,
            self.rate_limit as u8
        )
    }
    pub(super) fn parse(s: &str) -> Option<Cfg> {
        let mut it = s.split(';');
        let listen = match it.next()? {
            "lo4" => Listen::Lo4,
            "any4" => Listen::Any4,
            "any6" => Listen::Any6,
            _ => return None,
        };
        let mut c = Cfg::open(listen);
        let names: Vec<&'static str> = LISTS.iter().map(|(n, _)| *n).collect();
        let act = |s: &str| match s {
            "d" => Some(FilterAction::Deny),
            "i" => Some(FilterAction::Ignore),
            _ => None,
        };
        for part in it {
            let (k, v) = part.split_once('=')?;
            match k {
                "dl" => {
                    let (n, a) = v.rsplit_once(':')?;
                    c.deny = intern(n, &names)?;
                    c.deny_act = act(a)?;
                }
                "al" => {
                    let (n, a) = v.rsplit_once(':')?;
                    c.allow = intern(n, &names)?;
                    c.allow_act = act(a)?;
                }
                "nts" => c.require_nts = if v == "n" { None } else { Some(act(v)?) },
                "ver" => c.versions = intern(v, &VERSION_SETS)?,
                "rl" => c.rate_limit = v == "1",
                _ => return None,
            }
        }
        Some(c)
    }

    pub(super) fn allow_subnets(&self) -> Vec<&'static str> {
        if self.allow == "all" {
            vec!["0.0.0.0/0", "::/0"]
        } else {
            let mut v = list(self.allow).expect("allow list name").to_vec();
            v.push(SENTINEL_NET);
            v
        }
    }
    pub(super) fn deny_subnets(&self) -> Vec<&'static str> {
        if self.deny == "all" { list("all").unwrap().to_vec() } else { list(self.deny).expect("deny list name").to_vec() }
    }
    pub(super) fn accepts(&self, ver: u8) -> bool {
        self.versions.bytes().any(|b| b == b'0' + ver)
    }

    /// The daemon's own configuration type, as `[[server]]` would produce it.
    pub(super) fn daemon_config(&self, port: u16) -> ServerConfig {
        let subnets = |l: Vec<&str>| l.iter().map(|s| s.parse::<IpSubnet>().expect("subnet")).collect::<Vec<_>>();
        ServerConfig {
            listen: self.listen.addr(port),
            denylist: FilterList { filter: subnets(self.deny_subnets()), action: self.deny_act },
            allowlist: FilterList { filter: subnets(self.allow_subnets()), action: self.allow_act },
            rate_limiting_cache_size: if self.rate_limit { 1 } else { 0 },
            rate_limiting_cutoff: Duration::from_secs(if self.rate_limit { 3600 } else { 0 }),
            require_nts: self.require_nts,
            accept_ntp_versions: self
                .versions
                .bytes()
                .map(|b| match b {
                    b'3' => NtpVersion::V3,
                    b'4' => NtpVersion::V4,
                    _ => NtpVersion::V5,
                })
                .collect(),
        }
    }
}

// ---- reference membership / decision (from the statement of C15) ---------------------

/// `ip` as the policy must see it: IPv4-mapped IPv6 counts as IPv4.
pub(super) fn canonical(ip: IpAddr) -> IpAddr {
    match ip {
        IpAddr::V6(v6) => match v6.octets() {
            [0, 0, 0, 0, 0, 0, 0, 0, 0, 0, 0xFF, 0xFF, a, b, c, d] => IpAddr::V4(Ipv4Addr::new(a, b, c, d)),
            _ => ip,
        },
        v4 => v4,
    }
}

pub(super) fn in_subnets(ip: IpAddr, subnets: &[&str]) -> bool {
    let ip = canonical(ip);
    subnets.iter().any(|s| {
        let (net, len) = s.split_once('/').expect("subnet literal");
        let len: u32 = len.parse().expect("prefix length");
        match (ip, net.parse::<IpAddr>().expect("subnet address")) {
            (IpAddr::V4(a), IpAddr::V4(n)) => {
                let (a, n) = (u32::from(a) as u64, u32::from(n) as u64);
                (a >> (32 - len)) == (n >> (32 - len))
            }
            (IpAddr::V6(a), IpAddr::V6(n)) => {
                let (a, n) = (u128::from(a), u128::from(n));
                len == 0 || (a >> (128 - len)) == (n >> (128 - len))
            }
            _ => false,
        }
    })
}

/// Set of answers the statement permits, plus whether `Time` is mandatory.
#[derive(Clone, Debug, PartialEq, Eq)]
pub(super) struct Expect {
    pub clause: &'static str,
    pub none: bool,
    pub time: bool,
    pub deny: bool,
    pub nak: bool,
}

impl Expect {
    fn of(clause: &'static str, none: bool, time: bool, deny: bool, nak: bool) -> Expect {
        Expect { clause, none, time, deny, nak }
    }
    pub(super) fn permits(&self, k: Option<Kind>) -> bool {
        match k {
            None => self.none,
            Some(Kind::Time) => self.time,
            Some(Kind::Deny) => self.deny,
            Some(Kind::Nak) => self.nak,
            Some(_) => false,
        }
    }
    pub(super) fn must_time(&self) -> bool {
        self.time && !self.none && !self.deny && !self.nak
    }
}

/// `seen_ip`: the client's real source address as the server socket reports it.
/// `limited`: the statement's "rate-limited" (same address passed the lists less than the
/// cut-off ago and still owns the slot) — decided by the caller from the request sequence.
/// `keys_rotated`: which key set the server currently holds.
pub(super) fn reference(cfg: &Cfg, seen_ip: IpAddr, dg: &Dg, limited: bool, keys_rotated: bool) -> Expect {
    let ver = dg.ver();
    if dg.bytes.len() < 48 || dg.form == Form::Malformed {
        return Expect::of("malformed", true, false, false, false);
    }
    if dg.mode() != 3 {
        return Expect::of("non-client", true, false, false, false);
    }
    if !cfg.accepts(ver) {
        return Expect::of("version", true, false, false, false);
    }
    if in_subnets(seen_ip, &cfg.deny_subnets()) {
        return match cfg.deny_act {
            FilterAction::Ignore => Expect::of("deny-list-ignore", true, false, false, false),
            FilterAction::Deny => Expect::of("deny-list-deny", true, false, true, false),
        };
    }
    if !in_subnets(seen_ip, &cfg.allow_subnets()) {
        return match cfg.allow_act {
            FilterAction::Ignore => Expect::of("allow-list-ignore", true, false, false, false),
            FilterAction::Deny => Expect::of("allow-list-deny", true, false, true, false),
        };
    }
    if limited {
        return Expect::of("rate-limited", true, false, false, false);
    }
    // does the request authenticate under the key set the server holds right now?
    let nts = match (dg.nts, dg.cookie) {
        (Nts::Valid, Some(Ck::Cur)) => Nts::Valid,
        (Nts::Valid, Some(Ck::Prev)) => if keys_rotated { Nts::Invalid } else { Nts::Valid },
        (Nts::Valid, Some(Ck::Next)) => if keys_rotated { Nts::Valid } else { Nts::Invalid },
        (n, _) => n,
    };
    let unknown = dg.form == Form::Unknown;
    let tight = dg.form == Form::WellTight;
    match nts {
        Nts::Plain => match cfg.require_nts {
            Some(FilterAction::Ignore) => Expect::of("nts-required-ignore", true, false, false, false),
            Some(FilterAction::Deny) => Expect::of("nts-required-deny", true, false, true, false),
            None if unknown => Expect::of("unlabelled-plain", true, true, false, false),
            None if tight => Expect::of("legit-plain-tight", true, true, false, false),
            None => Expect::of("legit-plain", false, true, false, false),
        },
        Nts::Valid if unknown => Expect::of("unlabelled-nts", true, true, false, true),
        Nts::Valid if tight => Expect::of("legit-nts-tight", true, true, false, false),
        Nts::Valid => Expect::of("legit-nts", false, true, false, false),
        Nts::Invalid => Expect::of("nts-unauthenticated", true, false, false, true),
        // no claim on authentication: never DENY though when NTS is not required
        Nts::Ambiguous => Expect::of("nts-ambiguous", true, true, cfg.require_nts == Some(FilterAction::Deny), true),
    }
}

// =====================================================================================
// the rig: real ServerTask on a real UDP socket
// =====================================================================================

#[derive(Clone, Debug, Default)]
pub(super) struct FixedClock;

impl NtpClock for FixedClock {
    type Error = std::io::Error;
    fn now(&self) -> Result<NtpTimestamp, Self::Error> {
        Ok(NtpTimestamp::from_seconds_nanos_since_ntp_era((CLOCK_TS >> 32) as u32, 750_000_000))
    }
    fn set_frequency(&self, _freq: f64) -> Result<NtpTimestamp, Self::Error> {
        panic!("server called set_frequency");
    }
    fn get_frequency(&self) -> Result<f64, Self::Error> {
        Ok(0.0)
    }
    fn step_clock(&self, _offset: NtpDuration) -> Result<NtpTimestamp, Self::Error> {
        panic!("server called step_clock");
    }
    fn disable_ntp_algorithm(&self) -> Result<(), Self::Error> {
        panic!("server called disable_ntp_algorithm");
    }
    fn error_estimate_update(&self, _e: NtpDuration, _m: NtpDuration) -> Result<(), Self::Error> {
        panic!("server called error_estimate_update");
    }
    fn status_update(&self, _l: NtpLeapIndicator) -> Result<(), Self::Error> {
        panic!("server called status_update");
    }
}

pub(super) type Snap = [u64; 11];
pub(super) const SNAP_NAMES: [&str; 11] = [
    "received",
    "accepted",
    "denied",
    "ignored",
    "rate_limited",
    "send_errors",
    "nts_received",
    "nts_accepted",
    "nts_denied",
    "nts_rate_limited",
    "nts_nak",
];

pub(super) fn snap(s: &ServerStats) -> Snap {
    [
        s.received_packets.get(),
        s.accepted_packets.get(),
        s.denied_packets.get(),
        s.ignored_packets.get(),
        s.rate_limited_packets.get(),
        s.response_send_errors.get(),
        s.nts_received_packets.get(),
        s.nts_accepted_packets.get(),
        s.nts_denied_packets.get(),
        s.nts_rate_limited_packets.get(),
        s.nts_nak_packets.get(),
    ]
}

pub(super) fn delta(before: &Snap, after: &Snap) -> [i64; 11] {
    let mut d = [0i64; 11];
    for i in 0..11 {
        d[i] = after[i] as i64 - before[i] as i64;
    }
    d
}

pub(super) fn fmt_delta(d: &[i64; 11]) -> String {
    let v: Vec<String> = (0..11).filter(|i| d[*i] != 0).map(|i| format!("{}{:+}", SNAP_NAMES[i], d[i])).collect();
    if v.is_empty() { "-".into() } else { v.join(" ") }
}

static NEXT_ID: AtomicU64 = AtomicU64::new(1);

/// Fresh 8-byte echo id (never zero, never the clock reading).
pub(super) fn fresh_id() -> u64 {
    0x5E17_0000_0000_0000 | (NEXT_ID.fetch_add(1, Ordering::Relaxed) & 0xFFFF_FFFF_FFFF)
}

static NEXT_PORT: AtomicU32 = AtomicU32::new(0);

/// Ports 10000..32000 (below the ephemeral range), start derived from the pid.
fn next_port() -> u16 {
    let n = NEXT_PORT.fetch_add(1, Ordering::Relaxed);
    (10000 + (std::process::id().wrapping_mul(7919).wrapping_add(n.wrapping_mul(13))) % 22000) as u16
}

#[derive(Clone, Debug, PartialEq, Eq)]
pub(super) enum Sentinel {
    /// answered with time
    Ok,
    /// nothing within the (generous) timeout: the task is dead or stuck
    Timeout,
    /// answered, but not with time
    Wrong(String),
}

#[derive(Clone, Debug)]
pub(super) struct Obs {
    /// datagrams that were waiting on the client socket before the request was sent
    pub stale: usize,
    /// everything that arrived on the client socket up to the sentinel's answer
    pub answers: Vec<Answer>,
    pub sentinel: Sentinel,
    pub before: Snap,
    pub after: Snap,
    /// the server task's JoinHandle reports completion
    pub finished: bool,
    /// client-side send failure (the datagram never left)
    pub send_err: Option<String>,
    pub copies: usize,
    /// the sentinel was an NTS request (NTS required by the configuration)
    pub sentinel_nts: bool,
}

impl Obs {
    /// statistics movement caused by the request alone (the sentinel's share removed)
    pub(super) fn own_delta(&self) -> [i64; 11] {
        let mut d = delta(&self.before, &self.after);
        if self.sentinel == Sentinel::Ok {
            d[0] -= 1;
            d[1] -= 1;
            if self.sentinel_nts {
                d[6] -= 1;
                d[7] -= 1;
            }
        }
        d
    }
}

pub(super) struct RigState {
    pub cfg: Cfg,
    pub port: u16,
    pub join: tokio::task::JoinHandle<()>,
    pub stats: ServerStats,
    pub keys_tx: tokio::sync::watch::Sender<Arc<KeySet>>,
    pub keys_rotated: bool,
    clients: BTreeMap<(IpAddr, bool), std::net::UdpSocket>,
    sentinel_sock: Option<tokio::net::UdpSocket>,
    sentinel_seq: u32,
    pub sentinel_timeout: Duration,
    /// datagrams with a foreign echo seen on the sentinel socket
    pub sentinel_strays: u64,
    /// what the very first sentinel (sent by `Rig::spawn`) got
    pub first_sentinel: Sentinel,
}

pub(super) struct Rig {
    rt: tokio::runtime::Runtime,
    pub st: RigState,
}

pub(super) fn sentinel_timeout() -> Duration {
    let s = std::env::var("VERIF_GQ_SENTINEL_S").ok().and_then(|v| v.parse::<u64>().ok()).unwrap_or(20);
    Duration::from_secs(s.max(2))
}

/// The sentinel request for a configuration: the simplest request that the statement says
/// must be served (accepted version; NTS when NTS is required).
pub(super) fn sentinel_request(cfg: &Cfg, id: u64) -> Dg {
    let ver = if cfg.accepts(4) { 4 } else if cfg.accepts(3) { 3 } else { 5 };
    let mut fields = vec![];
    if ver == 5 {
        fields.push(F::Draft(true));
    }
    if cfg.require_nts.is_some() && ver != 3 {
        fields.push(F::Uid(32));
        fields.push(F::Cookie(Ck::Cur));
        fields.push(F::Auth(Au::Ok, vec![]));
    }
    Req::new(ver, fields).build(id)
}

/// Kernel receive time stamps are switched on by a deferred work item when the first
/// time-stamping socket of the system is opened (`net_enable_timestamp`), and off again when
/// the last one is closed. A datagram that arrives in between carries no time stamp and the
/// task (rightly) ignores it. The daemon's own long-lived sockets keep stamping on; the
/// harness does the same with one keeper socket that lives for the whole process, and waits
/// until datagrams really are stamped before the first rig is spawned.
pub(super) fn ensure_timestamping() -> Result<(), String> {
    use timestamped_socket::socket::{GeneralTimestampMode, Open, Socket, open_ip};
    static KEEPER: std::sync::OnceLock<Result<(tokio::runtime::Runtime, Socket<SocketAddr, Open>), String>> =
        std::sync::OnceLock::new();
    let k = KEEPER.get_or_init(|| {
        let rt = tokio::runtime::Builder::new_current_thread().enable_all().build().map_err(|e| e.to_string())?;
        let sock = rt.block_on(async {
            let sock = open_ip(SocketAddr::new(CL_A, 0), GeneralTimestampMode::SoftwareRecv, false)
                .map_err(|e| format!("keeper socket: {e}"))?;
            let to = sock.local_addr();
            let tx = std::net::UdpSocket::bind(SocketAddr::new(CL_A, 0)).map_err(|e| e.to_string())?;
            let mut buf = [0u8; 16];
            let mut stamped = 0;
            for _ in 0..2000 {
                tx.send_to(&[0x55], to).map_err(|e| e.to_string())?;
                match tokio::time::timeout(Duration::from_secs(2), sock.recv(&mut buf)).await {
                    Ok(Ok(r)) if r.timestamp_data.selected_timestamp().is_some() => {
                        stamped += 1;
                        if stamped >= 3 {
                            return Ok(sock);
                        }
                    }
                    Ok(Ok(_)) => {
                        stamped = 0;
                        tokio::time::sleep(Duration::from_millis(5)).await;
                    }
                    Ok(Err(e)) => return Err(format!("keeper recv: {e}")),
                    Err(_) => return Err("keeper socket received nothing".to_string()),
                }
            }
            Err("the kernel never started stamping received datagrams".to_string())
        })?;
        Ok((rt, sock))
    });
    k.as_ref().map(|_| ()).map_err(|e| e.clone())
}

impl Rig {
    /// Spawn the real server task for `cfg` on a free loopback port and make sure it serves.
    pub(super) fn spawn(cfg: &Cfg) -> Result<Rig, String> {
        ensure_timestamping()?;
        let mut last_err = String::new();
        for _attempt in 0..60 {
            let port = next_port();
            let listen = cfg.listen.addr(port);
            // free right now? (the task itself retries forever on a busy port)
            match std::net::UdpSocket::bind(listen) {
                Ok(s) => drop(s),
                Err(e) => {
                    last_err = format!("port {port}: {e}");
                    continue;
                }
            }
            let rt = tokio::runtime::Builder::new_current_thread()
                .enable_all()
                .build()
                .map_err(|e| format!("runtime: {e}"))?;
            let config = cfg.daemon_config(port);
            let mut info = NtpServerInfo::default();
            info.ntp_snapshot.stratum = 2;
            info.time_snapshot.leap_indicator = NtpLeapIndicator::NoWarning;
            let (keys_tx, keys_rx) = tokio::sync::watch::channel(keyset(0, 2));
            let stats = ServerStats::default();
            // exactly what `System::add_server` does
            let server = Server::new_internal(
                config.clone().into(),
                FixedClock,
                Arc::new(RwLock::new(info)),
                keys_rx.borrow().clone(),
            );
            let st_stats = stats.clone();
            let join = rt.block_on(async move {
                ServerTask::spawn(server, config, st_stats, keys_rx, Duration::from_millis(20))
            });
            let mut rig = Rig {
                rt,
                st: RigState {
                    cfg: cfg.clone(),
                    port,
                    join,
                    stats,
                    keys_tx,
                    keys_rotated: false,
                    clients: BTreeMap::new(),
                    sentinel_sock: None,
                    sentinel_seq: 1,
                    sentinel_timeout: Duration::from_secs(5),
                    sentinel_strays: 0,
                    first_sentinel: Sentinel::Ok,
                },
            };
            let s = rig.rt.block_on(rig.st.sentinel(1));
            if rig.st.stats.received_packets.get() == 1 {
                // our task got the sentinel (whatever it did with it: `first_sentinel` tells)
                rig.st.sentinel_timeout = sentinel_timeout();
                rig.st.first_sentinel = s.0;
                return Ok(rig);
            }
            last_err = format!("port {port}: first sentinel {:?}, received={}", s.0, rig.st.stats.received_packets.get());
            // somebody else owns the port (or the task could not bind): try the next one
        }
        Err(format!("no usable port: {last_err}"))
    }

    pub(super) fn exchange(&mut self, client: IpAddr, bytes: &[u8], copies: usize, broadcast: bool) -> Obs {
        self.rt.block_on(self.st.exchange(client, bytes, copies, broadcast))
    }

    /// Several datagrams queued back to back (nothing is awaited in between: the task lives on
    /// this thread's runtime and only runs inside `block_on`, so all of them are in the socket's
    /// receive queue before it sees the first), then one sentinel. Returns, per position, what
    /// arrived on that position's own client socket.
    pub(super) fn backlog(&mut self, sends: &[(IpAddr, Vec<u8>)]) -> (Vec<Vec<Answer>>, Sentinel, usize, Option<String>) {
        self.rt.block_on(self.st.backlog(sends))
    }

    /// Hand the rotated key set (keys 1 and 2) to the task through the watch channel and wait
    /// until it is in effect (a request with a key-2 cookie is served).
    pub(super) fn rotate_keys(&mut self) -> Result<(), String> {
        self.rt.block_on(self.st.rotate_keys())
    }

    pub(super) fn finished(&self) -> bool {
        self.st.join.is_finished()
    }
}

impl Drop for RigState {
    fn drop(&mut self) {
        self.join.abort();
    }
}

impl RigState {
    fn client(&mut self, ip: IpAddr, broadcast: bool) -> Result<&std::net::UdpSocket, String> {
        if !self.clients.contains_key(&(ip, broadcast)) {
            let s = std::net::UdpSocket::bind(SocketAddr::new(ip, 0)).map_err(|e| format!("bind client {ip}: {e}"))?;
            s.set_nonblocking(true).map_err(|e| e.to_string())?;
            if broadcast {
                s.set_broadcast(true).map_err(|e| e.to_string())?;
            }
            self.clients.insert((ip, broadcast), s);
        }
        Ok(&self.clients[&(ip, broadcast)])
    }

    /// One sentinel round trip; returns the verdict and whether the sentinel was an NTS request.
    async fn sentinel(&mut self, handled_when: u64) -> (Sentinel, bool) {
        let id = fresh_id();
        let dg = sentinel_request(&self.cfg, id);
        let target = SocketAddr::new(CL_A, self.port);
        let fresh_addr = self.cfg.rate_limit;
        let mut own;
        let sock: &tokio::net::UdpSocket = if fresh_addr {
            // a never-used address per sentinel: the rate limiter has nothing on it
            self.sentinel_seq += 1;
            let ip = Ipv4Addr::new(127, 200, (self.sentinel_seq >> 8) as u8, self.sentinel_seq as u8);
            own = None;
            match tokio::net::UdpSocket::bind(SocketAddr::new(IpAddr::V4(ip), 0)).await {
                Ok(s) => own.insert(s),
                Err(e) => return (Sentinel::Wrong(format!("bind sentinel {ip}: {e}")), false),
            }
        } else {
            if self.sentinel_sock.is_none() {
                match tokio::net::UdpSocket::bind(SocketAddr::new(IpAddr::V4(Ipv4Addr::new(127, 200, 0, 1)), 0)).await {
                    Ok(s) => self.sentinel_sock = Some(s),
                    Err(e) => return (Sentinel::Wrong(format!("bind sentinel: {e}")), false),
                }
            }
            self.sentinel_sock.as_ref().unwrap()
        };
        let nts = dg.nts == Nts::Valid;
        if let Err(e) = sock.send_to(&dg.bytes, target).await {
            return (Sentinel::Wrong(format!("send sentinel: {e}")), nts);
        }
        let deadline = tokio::time::Instant::now() + self.sentinel_timeout;
        let mut buf = [0u8; 2048];
        let mut handled_at: Option<tokio::time::Instant> = None;
        loop {
            // wait in slices so that a task that has ended is noticed at once
            let slice = (tokio::time::Instant::now() + Duration::from_millis(100)).min(deadline);
            match tokio::time::timeout_at(slice, sock.recv_from(&mut buf)).await {
                Err(_) => {
                    let now = tokio::time::Instant::now();
                    if self.join.is_finished() || now >= deadline {
                        return (Sentinel::Timeout, nts);
                    }
                    // the task has registered the sentinel (it answers in the same poll) and has
                    // yielded to us since: one more second, then the answer is not coming
                    if self.stats.received_packets.get() >= handled_when {
                        let since = *handled_at.get_or_insert(now);
                        if now.duration_since(since) >= Duration::from_secs(1) {
                            return (Sentinel::Timeout, nts);
                        }
                    }
                }
                Ok(Err(e)) => return (Sentinel::Wrong(format!("recv sentinel: {e}")), nts),
                Ok(Ok((n, from))) => {
                    let a = walk(&buf[..n], from);
                    if a.echo != id {
                        self.sentinel_strays += 1;
                        continue;
                    }
                    if a.kind != Kind::Time || a.transmit != CLOCK_TS {
                        return (Sentinel::Wrong(format!("{} ({} bytes)", a.kind.code(), n)), nts);
                    }
                    return (Sentinel::Ok, nts);
                }
            }
        }
    }

    async fn exchange(&mut self, client: IpAddr, bytes: &[u8], copies: usize, broadcast: bool) -> Obs {
        let port = self.port;
        let listen = self.cfg.listen;
        let mut obs = Obs {
            stale: 0,
            answers: vec![],
            sentinel: Sentinel::Ok,
            before: snap(&self.stats),
            after: [0; 11],
            finished: false,
            send_err: None,
            copies,
            sentinel_nts: false,
        };
        let target = if broadcast {
            Some(SocketAddr::new(IpAddr::V4(Ipv4Addr::new(127, 255, 255, 255)), port))
        } else {
            listen.target(client, port)
        };
        let mut buf = vec![0u8; 16384];
        match (target, self.client(client, broadcast)) {
            (None, _) => obs.send_err = Some(format!("{client} cannot reach a {} listener", listen.code())),
            (_, Err(e)) => obs.send_err = Some(e),
            (Some(target), Ok(sock)) => {
                while let Ok(_) = sock.recv_from(&mut buf) {
                    obs.stale += 1;
                }
                for _ in 0..copies {
                    if let Err(e) = sock.send_to(bytes, target) {
                        obs.send_err = Some(format!("send: {e}"));
                    }
                }
            }
        }
        let handled_when = if obs.send_err.is_none() { obs.before[0] + copies as u64 + 1 } else { u64::MAX };
        let (s, nts) = self.sentinel(handled_when).await;
        obs.sentinel = s;
        obs.sentinel_nts = nts;
        if let Some(sock) = self.clients.get(&(client, broadcast)) {
            while let Ok((n, from)) = sock.recv_from(&mut buf) {
                obs.answers.push(walk(&buf[..n], from));
            }
        }
        obs.after = snap(&self.stats);
        obs.finished = self.join.is_finished();
        obs
    }

    async fn backlog(&mut self, sends: &[(IpAddr, Vec<u8>)]) -> (Vec<Vec<Answer>>, Sentinel, usize, Option<String>) {
        let port = self.port;
        let listen = self.cfg.listen;
        let mut buf = vec![0u8; 16384];
        let mut stale = 0;
        let mut err = None;
        let before = self.stats.received_packets.get();
        for (ip, _) in sends {
            match self.client(*ip, false) {
                Ok(sock) => {
                    while sock.recv_from(&mut buf).is_ok() {
                        stale += 1;
                    }
                }
                Err(e) => err = Some(e),
            }
        }
        if err.is_none() {
            for (ip, bytes) in sends {
                let Some(target) = listen.target(*ip, port) else {
                    err = Some(format!("{ip} cannot reach a {} listener", listen.code()));
                    break;
                };
                if let Err(e) = self.clients[&(*ip, false)].send_to(bytes, target) {
                    err = Some(format!("send: {e}"));
                }
            }
        }
        let handled_when = if err.is_none() { before + sends.len() as u64 + 1 } else { u64::MAX };
        let (s, _) = self.sentinel(handled_when).await;
        let mut out = vec![];
        for (ip, _) in sends {
            let mut v = vec![];
            if let Some(sock) = self.clients.get(&(*ip, false)) {
                while let Ok((n, from)) = sock.recv_from(&mut buf) {
                    v.push(walk(&buf[..n], from));
                }
            }
            out.push(v);
        }
        (out, s, stale, err)
    }

    async fn rotate_keys(&mut self) -> Result<(), String> {
        self.keys_tx.send(keyset(1, 2)).map_err(|_| "the task dropped its keyset receiver".to_string())?;
        let sock = tokio::net::UdpSocket::bind(SocketAddr::new(IpAddr::V4(Ipv4Addr::new(127, 200, 0, 2)), 0))
            .await
            .map_err(|e| format!("bind: {e}"))?;
        let ver = if self.cfg.accepts(4) { 4 } else { 5 };
        for _ in 0..200 {
            for _ in 0..4 {
                tokio::task::yield_now().await;
            }
            let id = fresh_id();
            let mut fields = vec![F::Uid(32), F::Cookie(Ck::Next), F::Auth(Au::Ok, vec![])];
            if ver == 5 {
                fields.insert(0, F::Draft(true));
            }
            let dg = Req::new(ver, fields).build(id);
            sock.send_to(&dg.bytes, SocketAddr::new(CL_A, self.port)).await.map_err(|e| e.to_string())?;
            let mut buf = [0u8; 2048];
            match tokio::time::timeout(self.sentinel_timeout, sock.recv_from(&mut buf)).await {
                Err(_) => return Err("no answer to the key probe".into()),
                Ok(Err(e)) => return Err(e.to_string()),
                Ok(Ok((n, from))) => {
                    let a = walk(&buf[..n], from);
                    if a.echo == id && a.kind == Kind::Time {
                        self.keys_rotated = true;
                        return Ok(());
                    }
                }
            }
            tokio::time::sleep(Duration::from_millis(1)).await;
        }
        Err("rotated key set never came into effect".into())
    }
}

// =====================================================================================
// traces (shared by the three modules)
// =====================================================================================

/// Hex with a long run of trailing zero bytes written as `+zN`.
pub(super) fn hexz(bytes: &[u8]) -> String {
    let z = bytes.iter().rev().take_while(|b| **b == 0).count();
    if z >= 32 {
        format!("{}+z{}", common::hex(&bytes[..bytes.len() - z]), z)
    } else {
        common::hex(bytes)
    }
}

pub(super) fn unhexz(s: &str) -> Option<Vec<u8>> {
    match s.split_once("+z") {
        Some((h, z)) => {
            let mut v = common::unhex(h)?;
            let n = v.len() + z.parse::<usize>().ok()?;
            v.resize(n, 0);
            Some(v)
        }
        None => common::unhex(s),
    }
}

/// One replayable case: configuration, key-set state, client, labelled datagram.
#[derive(Clone, Debug)]
pub(super) struct Case {
    pub cfg: Cfg,
    pub rotated: bool,
    pub client: IpAddr,
    pub copies: usize,
    pub broadcast: bool,
    pub dg: Dg,
}

fn form_code(f: Form) -> &'static str {
    match f {
        Form::Well => "W",
        Form::WellTight => "T",
        Form::Malformed => "M",
        Form::Unknown => "U",
    }
}

fn nts_code(n: Nts, c: Option<Ck>) -> &'static str {
    match (n, c) {
        (Nts::Plain, _) => "P",
        (Nts::Invalid, _) => "I",
        (Nts::Ambiguous, _) => "A",
        (Nts::Valid, Some(Ck::Prev)) => "Vp",
        (Nts::Valid, Some(Ck::Next)) => "Vn",
        (Nts::Valid, _) => "Vc",
    }
}

impl Case {
    /// `cfg|k0|client|x1|u|W.Vc.0.232|hex`
    pub(super) fn trace(&self) -> String {
        format!(
            "{}|k{}|{}|x{}|{}|{}.{}.{}.{}|{}",
            self.cfg.code(),
            self.rotated as u8,
            self.client,
            self.copies,
            if self.broadcast { "b" } else { "u" },
            form_code(self.dg.form),
            nts_code(self.dg.nts, self.dg.cookie),
            self.dg.alg512 as u8,
            self.dg.auth_end,
            hexz(&self.dg.bytes)
        )
    }

    pub(super) fn parse(s: &str) -> Option<Case> {
        let p: Vec<&str> = s.trim().split('|').collect();
        if p.len() != 7 {
            return None;
        }
        let cfg = Cfg::parse(p[0])?;
        let rotated = p[1] == "k1";
        let client: IpAddr = p[2].parse().ok()?;
        let copies: usize = p[3].strip_prefix('x')?.parse().ok()?;
        let broadcast = p[4] == "b";
        let l: Vec<&str> = p[5].split('.').collect();
        if l.len() != 4 {
            return None;
        }
        let form = match l[0] {
            "W" => Form::Well,
            "T" => Form::WellTight,
            "M" => Form::Malformed,
            "U" => Form::Unknown,
            _ => return None,
        };
        let (nts, cookie) = match l[1] {
            "P" => (Nts::Plain, None),
            "I" => (Nts::Invalid, None),
            "A" => (Nts::Ambiguous, None),
            "Vp" => (Nts::Valid, Some(Ck::Prev)),
            "Vn" => (Nts::Valid, Some(Ck::Next)),
            "Vc" => (Nts::Valid, Some(Ck::Cur)),
            _ => return None,
        };
        let bytes = unhexz(p[6])?;
        Some(Case {
            cfg,
            rotated,
            client,
            copies,
            broadcast,
            dg: Dg {
                name: "replay".into(),
                bytes,
                form,
                nts,
                cookie,
                alg512: l[2] == "1",
                auth_end: l[3].parse().ok()?,
            },
        })
    }
}

/// Deterministic text of an observation (no ports, ids, time stamps).
pub(super) fn obs_text(o: &Obs) -> String {
    let a: Vec<String> = o.answers.iter().map(|a| format!("{}:{}", a.kind.code(), a.raw.len())).collect();
    format!(
        "answers=[{}] stats[{}] sentinel={:?} finished={} stale={} send_err={:?}",
        a.join(","),
        fmt_delta(&o.own_delta()),
        o.sentinel,
        o.finished,
        o.stale,
        o.send_err
    )
}

/// Run one case on a fresh rig (replay).
pub(super) fn run_case(case: &Case) -> Result<Obs, String> {
    let mut rig = Rig::spawn(&case.cfg)?;
    if case.rotated {
        rig.rotate_keys()?;
    }
    Ok(rig.exchange(case.client, &case.dg.bytes, case.copies, case.broadcast))
}

// =====================================================================================
// datagram sets
// =====================================================================================

/// The request grammar used at daemon level. Every entry is built with a fresh echo id at
/// the moment it is sent (`Req::build`), so this returns the symbolic requests.
pub(super) fn grammar(thorough: bool) -> Vec<Req> {
    let mut g = vec![];
    // plain polls, with and without a MAC-sized tail
    for tail in [0u16, 4, 20, 24] {
        g.push(Req::new(3, vec![]).tail(tail));
        g.push(Req::new(4, vec![]).tail(tail));
    }
    g.push(Req::new(4, vec![]).tail(3));
    g.push(Req::new(4, vec![]).tail(25));
    g.push(Req::new(5, vec![F::Draft(true)]));
    g.push(Req::new(5, vec![]));
    g.push(Req::new(5, vec![F::Draft(false)]));
    g.push(Req::new(5, vec![F::Draft(true)]).tail(4));
    // unique identifier fields of every wire size 4..=36, several of them, optionally
    // followed by a 28-byte field (so that they are parsed as fields, not as a MAC) or a MAC
    let counts: &[usize] = if thorough { &[1, 2, 3, 4, 8, 12] } else { &[1, 2, 3, 8] };
    for body in (0u16..=32).step_by(4) {
        for &k in counts {
            g.push(Req::new(4, vec![F::Uid(body); k]));
            let mut f = vec![F::Uid(body); k];
            f.push(F::Unk(24));
            g.push(Req::new(4, f));
            g.push(Req::new(4, vec![F::Uid(body); k]).tail(20));
            if thorough {
                let mut f = vec![F::Unk(24)];
                f.extend(vec![F::Uid(body); k]);
                g.push(Req::new(4, f));
                g.push(Req::new(4, vec![F::Uid(body); k]).tail(24));
            }
        }
    }
    if thorough {
        // every word of 2 and 3 identifier fields over the nine body sizes (wire 4..36), bare,
        // followed by a 28-byte field, and followed by a 20-byte MAC
        let sizes: Vec<u16> = (0u16..=32).step_by(4).collect();
        for len in 2..=3usize {
            for w in common::product(sizes.len(), len) {
                if w.iter().all(|x| *x == w[0]) {
                    continue; // equal sizes are covered above
                }
                let f: Vec<F> = w.iter().map(|i| F::Uid(sizes[*i])).collect();
                g.push(Req::new(4, f.clone()));
                g.push(Req::new(4, f.clone()).tail(20));
                let mut f2 = f;
                f2.push(F::Unk(24));
                g.push(Req::new(4, f2));
            }
        }
    }
    // mixed sizes
    g.push(Req::new(4, vec![F::Uid(0), F::Uid(4), F::Uid(8), F::Uid(12), F::Uid(32)]));
    g.push(Req::new(4, vec![F::Uid(32), F::Uid(0)]));
    g.push(Req::new(4, vec![F::Uid(64), F::Unk(0), F::Uid(24)]));
    for body in [0u16, 1, 5, 12, 32] {
        for &k in counts {
            let mut f = vec![F::Draft(true)];
            f.extend(vec![F::Uid(body); k]);
            g.push(Req::new(5, f.clone()));
            f.rotate_left(1);
            g.push(Req::new(5, f));
        }
    }
    // NTS layouts
    let cookies: &[Ck] = if thorough {
        &[Ck::Cur, Ck::Prev, Ck::Next, Ck::WrongKey, Ck::Garbage]
    } else {
        &[Ck::Cur, Ck::Prev, Ck::Next, Ck::Garbage]
    };
    let auths = [Au::Ok, Au::N8, Au::BadTag, Au::WrongKey];
    let inners: Vec<Vec<F>> = vec![
        vec![],
        vec![F::Ph(0)],
        vec![F::Ph(0), F::Ph(0)],
        vec![F::Uid(0)],
        vec![F::Ph(-4)],
        vec![F::Uid(32), F::Unk(24)],
    ];
    let pres: Vec<Vec<F>> = vec![vec![F::Uid(32)], vec![], vec![F::Uid(0)], vec![F::Uid(12)], vec![F::Uid(32), F::Uid(0)]];
    for ver in [4u8, 5] {
        for (ci, ck) in cookies.iter().enumerate() {
            for (ai, au) in auths.iter().enumerate() {
                for (ii, inner) in inners.iter().enumerate() {
                    for (pi, pre) in pres.iter().enumerate() {
                        // quick: every pair of factor values with the canonical value of the others
                        let off = [ci != 0, ai != 0, ii != 0, pi != 0].iter().filter(|b| **b).count();
                        if !thorough && off > 2 {
                            continue;
                        }
                        let mut f = vec![];
                        if ver == 5 {
                            f.push(F::Draft(true));
                        }
                        f.extend(pre.iter().cloned());
                        f.push(F::Cookie(*ck));
                        f.push(F::Auth(*au, inner.clone()));
                        let mut r = Req::new(ver, f);
                        if (ci + ai + ii + pi) % 5 == 4 {
                            r = r.alg512();
                        }
                        g.push(r);
                    }
                }
            }
        }
        // placeholders outside the authenticator, two cookies, two authenticators, trailing fields
        let d = |mut f: Vec<F>| {
            if ver == 5 {
                f.insert(0, F::Draft(true));
            }
            Req::new(ver, f)
        };
        g.push(d(vec![F::Uid(32), F::Cookie(Ck::Cur), F::Ph(0), F::Ph(0), F::Auth(Au::Ok, vec![])]));
        g.push(d(vec![F::Uid(32), F::Cookie(Ck::Cur), F::Ph(0), F::Ph(0), F::Ph(0), F::Ph(0), F::Ph(0), F::Ph(0), F::Ph(0), F::Auth(Au::Ok, vec![])]));
        g.push(d(vec![F::Uid(32), F::Cookie(Ck::Cur), F::Cookie(Ck::Cur), F::Auth(Au::Ok, vec![])]));
        g.push(d(vec![F::Uid(32), F::Cookie(Ck::Cur), F::Auth(Au::Ok, vec![]), F::Auth(Au::Ok, vec![])]));
        g.push(d(vec![F::Uid(32), F::Cookie(Ck::Cur), F::Auth(Au::Ok, vec![]), F::Uid(0), F::Uid(0), F::Unk(24)]));
        g.push(d(vec![F::Uid(32), F::Auth(Au::Ok, vec![])]));
        g.push(d(vec![F::Cookie(Ck::Cur)]));
        g.push(d(vec![F::Uid(32), F::Cookie(Ck::Cur), F::Auth(Au::Ok, vec![])]).tail(20));
    }
    // non-client modes on plain, authenticating and non-authenticating layouts
    for mode in [0u8, 1, 2, 4, 5, 6, 7] {
        g.push(Req::new(4, vec![]).mode(mode));
        g.push(Req::new(3, vec![]).mode(mode));
        g.push(Req::new(5, vec![F::Draft(true)]).mode(mode));
        g.push(Req::new(4, vec![F::Uid(32), F::Cookie(Ck::Cur), F::Auth(Au::Ok, vec![])]).mode(mode));
        g.push(Req::new(4, vec![F::Uid(32), F::Cookie(Ck::Cur), F::Auth(Au::BadTag, vec![])]).mode(mode));
        g.push(Req::new(5, vec![F::Draft(true), F::Uid(32), F::Cookie(Ck::Cur), F::Auth(Au::BadTag, vec![])]).mode(mode));
    }
    // versions nobody speaks, broken framing
    for ver in [0u8, 1, 2, 6, 7] {
        g.push(Req::new(ver, vec![]));
    }
    g.push(Req::new(4, vec![F::Raw(T_UID, 64, 28)]));
    g.push(Req::new(4, vec![F::Raw(T_UID, 30, 28)]));
    g.push(Req::new(4, vec![F::Raw(T_UID, 0, 28)]));
    g.push(Req::new(4, vec![F::Raw(T_UNKNOWN, 0xFFFF, 28)]));
    g.push(Req::new(5, vec![F::Draft(true), F::Raw(T_UID, 3, 4)]));
    g
}

/// Bases whose every prefix (0..=len) is sent.
pub(super) fn truncation_bases(thorough: bool) -> Vec<Req> {
    let mut b = vec![
        Req::new(4, vec![]),
        Req::new(4, vec![F::Uid(32)]),
        Req::new(4, vec![F::Uid(0); 8].into_iter().chain([F::Unk(24)]).collect()),
        Req::new(4, vec![F::Uid(32), F::Cookie(Ck::Cur), F::Auth(Au::Ok, vec![F::Ph(0)])]),
        Req::new(5, vec![F::Draft(true), F::Uid(32), F::Cookie(Ck::Cur), F::Auth(Au::Ok, vec![])]),
    ];
    if thorough {
        b.push(Req::new(3, vec![]).tail(24));
        b.push(Req::new(5, vec![F::Uid(5), F::Uid(5), F::Draft(true)]));
        b.push(Req::new(4, vec![F::Uid(12), F::Uid(12), F::Uid(12)]).tail(24));
        b.push(Req::new(4, vec![F::Uid(32), F::Cookie(Ck::Cur), F::Ph(0), F::Auth(Au::BadTag, vec![F::Ph(0)])]));
        // every NTS layout of the quick grammar, and the plain ones with identifier fields
        for r in grammar(false) {
            let has_auth = r.fields.iter().any(|f| matches!(f, F::Auth(..)));
            let uids = r.fields.iter().filter(|f| matches!(f, F::Uid(_))).count();
            if r.mode == 3 && (has_auth || (uids >= 2 && uids <= 3)) && !b.contains(&r) {
                b.push(r);
            }
        }
    }
    b
}

/// Datagrams of 1024 / 1025 / 1500 / 9000 bytes: the task reads at most 1024.
pub(super) fn oversize(id: impl Fn() -> u64) -> Vec<Dg> {
    let mut v = vec![];
    for total in [1024usize, 1025, 1500, 9000] {
        // identifier field of 952 bytes: header + field = 1000, the next 24 bytes read as a MAC
        v.push(Req::new(4, vec![F::Uid(948)]).build(id()).extended(total));
        // field reaching exactly the 1024th byte
        v.push(Req::new(4, vec![F::Uid(972)]).build(id()).extended(total));
        // field that claims more than the task will ever read
        let mut big = Req::new(4, vec![F::Uid((total.min(9000) - 52) as u16)]).build(id());
        big.form = Form::Unknown;
        big.name = format!("{}#len{}", big.name, big.bytes.len());
        v.push(big);
        v.push(Req::new(4, vec![]).build(id()).extended(total));
        v.push(Req::new(5, vec![F::Draft(true), F::Uid(900)]).build(id()).extended(total));
        v.push(Req::new(4, vec![F::Uid(32), F::Cookie(Ck::Cur), F::Auth(Au::Ok, vec![])]).build(id()).extended(total));
    }
    v
}

// =====================================================================================
// C16 proper
// =====================================================================================

/// Per-worker tallies, merged into the `Ctx` at the end of a unit.
#[derive(Default)]
pub(super) struct Tally {
    pub counts: BTreeMap<String, u64>,
    pub maxes: BTreeMap<String, u64>,
    pub distinct: Vec<u64>,
}

impl Tally {
    pub(super) fn inc(&mut self, k: &str) {
        *self.counts.entry(k.to_string()).or_insert(0) += 1;
    }
    pub(super) fn add(&mut self, k: &str, n: u64) {
        *self.counts.entry(k.to_string()).or_insert(0) += n;
    }
    pub(super) fn max(&mut self, k: &str, n: u64) {
        let e = self.maxes.entry(k.to_string()).or_insert(0);
        *e = (*e).max(n);
    }
    pub(super) fn flush(self, ctx: &Ctx) {
        for (k, v) in self.counts {
            ctx.add(&k, v);
        }
        for (k, v) in self.maxes {
            ctx.max(&k, v);
        }
        ctx.distinct_many(self.distinct);
    }
}

/// Machinery problems (not verdicts): stale datagrams, client-side send failures.
pub(super) fn machinery(ctx: &Ctx, t: &mut Tally, case: &Case, o: &Obs) -> bool {
    let mut bad = false;
    if o.stale > 0 {
        t.add("machinery.stale_datagrams", o.stale as u64);
        ctx.cap_hit(&format!("stale datagram on a client socket before {}", case.trace().chars().take(120).collect::<String>()));
        bad = true;
    }
    if let Some(e) = &o.send_err {
        t.inc("machinery.client_send_errors");
        ctx.cap_hit(&format!("client could not send: {e}"));
        bad = true;
    }
    bad
}

fn judge_c16(ctx: &Ctx, t: &mut Tally, case: &Case, o: &Obs) {
    let req_len = case.dg.bytes.len();
    t.add("evaluations", case.copies as u64);
    t.add("transitions", case.copies as u64);
    t.inc(&format!("requests.v{}", case.dg.ver()));
    if req_len > 1024 {
        t.inc("requests.oversize");
    }
    if o.answers.len() > case.copies {
        ctx.violation(
            "C16:daemon-multiple-answers",
            format!("{} datagram(s) of {} bytes drew {} answers", case.copies, req_len, o.answers.len()),
            case.trace(),
        );
    }
    for a in &o.answers {
        t.inc(&format!("answers.{}", a.kind.code()));
        t.distinct.push(common::hash_of(&(case.cfg.code(), case.client, &case.dg.name, case.rotated)));
        let n = a.raw.len();
        if n > req_len {
            ctx.violation(
                "C16:daemon-amplification",
                format!("{}-byte {} answer to a {}-byte request ({}, client {})", n, a.kind.code(), req_len, case.dg.name, case.client),
                case.trace(),
            );
        } else if n == req_len {
            t.inc("answers.exactly_request_sized");
        } else {
            t.inc("answers.shorter_than_request");
        }
        if n > 48 {
            t.inc("answers.with_extension_fields");
        }
        if case.dg.nts == Nts::Valid && a.kind == Kind::Time {
            match a.open_nts(&Session { alg512: case.dg.alg512 }) {
                Ok(c) => {
                    t.inc("answers.nts_authenticated");
                    t.max("answers.max_fresh_cookies", c as u64);
                }
                Err(_) => t.inc("answers.nts_time_without_valid_authenticator"),
            }
        }
        t.max("answers.max_len", n as u64);
        t.max("answers.max_percent_of_request", (100 * n / req_len.max(1)) as u64);
    }
    if o.answers.is_empty() {
        t.inc("requests.unanswered");
    }
    match &o.sentinel {
        Sentinel::Ok => {}
        s => {
            // C22's subject; here it only means the observation is unusable
            t.inc("machinery.sentinel_failed");
            ctx.cap_hit(&format!("sentinel {:?} after {}", s, case.trace().chars().take(160).collect::<String>()));
        }
    }
}

fn c16_configs(thorough: bool) -> Vec<Cfg> {
    let mut v = vec![];
    let listens: &[Listen] = if thorough { &Listen::ALL } else { &[Listen::Lo4, Listen::Any6] };
    for &l in listens {
        let open = Cfg::open(l);
        v.push(open.clone());
        v.push(Cfg { deny: "all", deny_act: FilterAction::Deny, ..open.clone() });
        v.push(Cfg { allow: "none", allow_act: FilterAction::Deny, ..open.clone() });
        v.push(Cfg { require_nts: Some(FilterAction::Deny), ..open.clone() });
        v.push(Cfg { versions: "4", ..open.clone() });
        v.push(Cfg { rate_limit: true, ..open.clone() });
        if thorough {
            v.push(Cfg { require_nts: Some(FilterAction::Ignore), ..open.clone() });
            v.push(Cfg { deny: "all", deny_act: FilterAction::Ignore, ..open.clone() });
            v.push(Cfg { versions: "34", ..open.clone() });
            v.push(Cfg { versions: "5", require_nts: Some(FilterAction::Deny), ..open.clone() });
        }
    }
    v
}

pub(super) fn clients_of(l: Listen, thorough: bool) -> Vec<IpAddr> {
    match (l, thorough) {
        (Listen::Any6, false) => vec![CL_B, CL_6],
        (Listen::Any6, true) => vec![CL_A, CL_B, CL_D, CL_6],
        (_, false) => vec![CL_A],
        (_, true) => vec![CL_A, CL_B, CL_D],
    }
}

/// All datagrams of one unit, in order. `full`: include truncations and oversize.
pub(super) fn unit_datagrams(thorough: bool, full: bool) -> Vec<Dg> {
    let mut v: Vec<Dg> = grammar(thorough).iter().map(|r| r.build(fresh_id())).collect();
    if full {
        for b in truncation_bases(thorough) {
            let whole = b.build(fresh_id());
            for cut in 0..whole.bytes.len() {
                v.push(whole.truncated(cut));
            }
        }
        v.extend(oversize(fresh_id));
    }
    v
}

// ---- backlog: several requests queued before the task looks at the first ---------------

/// The size alphabet of the backlog part: valid requests of 48, 48, 120, 452 and 232 bytes.
fn backlog_alphabet() -> Vec<Req> {
    vec![
        Req::new(4, vec![]),
        Req::new(3, vec![]),
        Req::new(4, vec![F::Uid(32), F::Uid(32)]),
        Req::new(4, vec![F::Uid(400)]),
        Req::new(4, vec![F::Uid(32), F::Cookie(Ck::Cur), F::Auth(Au::Ok, vec![])]),
    ]
}

/// `backlog|cfg|ip=hex|ip=hex...`
fn backlog_trace(cfg: &Cfg, sends: &[(IpAddr, Vec<u8>)]) -> String {
    let mut t = format!("backlog|{}", cfg.code());
    for (ip, b) in sends {
        t.push_str(&format!("|{}={}", ip, hexz(b)));
    }
    t
}

fn parse_backlog(trace: &str) -> Option<(Cfg, Vec<(IpAddr, Vec<u8>)>)> {
    let mut it = trace.trim().split('|');
    if it.next()? != "backlog" {
        return None;
    }
    let cfg = Cfg::parse(it.next()?)?;
    let mut sends = vec![];
    for p in it {
        let (ip, h) = p.split_once('=')?;
        sends.push((ip.parse().ok()?, unhexz(h)?));
    }
    Some((cfg, sends))
}

/// Send the sequence, judge every reply against the request of the socket it arrived on.
fn run_backlog(ctx: &Ctx, t: &mut Tally, rig: &mut Rig, sends: &[(IpAddr, Vec<u8>)]) -> (String, bool) {
    let cfg = rig.st.cfg.clone();
    let (replies, sentinel, stale, err) = rig.backlog(sends);
    let trace = || backlog_trace(&cfg, sends);
    t.inc("backlog.sequences");
    t.add("evaluations", sends.len() as u64);
    t.add("transitions", sends.len() as u64);
    if stale > 0 || err.is_some() {
        t.inc("machinery.backlog_problems");
        ctx.cap_hit(&format!("backlog: stale={stale} err={err:?}"));
    }
    let mut text = vec![];
    for (i, ((ip, req), got)) in sends.iter().zip(replies.iter()).enumerate() {
        let own_id = id_offset(req).map(|o| u64::from_be_bytes(req[o..o + 8].try_into().unwrap()));
        text.push(format!("{}:{}->[{}]", ip, req.len(), got.iter().map(|a| format!("{}:{}", a.kind.code(), a.raw.len())).collect::<Vec<_>>().join(",")));
        if got.len() > 1 {
            ctx.violation(
                "C16:daemon-multiple-answers",
                format!("backlog position {i}: socket {ip} sent one {}-byte request and received {} datagrams", req.len(), got.len()),
                trace(),
            );
        }
        for a in got {
            t.inc("backlog.replies");
            t.distinct.push(common::hash_of(&("backlog", cfg.code(), i, sends.iter().map(|(_, b)| b.len()).collect::<Vec<_>>())));
            if a.raw.len() > req.len() {
                ctx.violation(
                    "C16:daemon-amplification",
                    format!(
                        "backlog position {i} of sizes {:?}: socket {ip} sent {} bytes and received a {}-byte {} reply",
                        sends.iter().map(|(_, b)| b.len()).collect::<Vec<_>>(),
                        req.len(),
                        a.raw.len(),
                        a.kind.code()
                    ),
                    trace(),
                );
            } else if a.raw.len() == req.len() {
                t.inc("backlog.replies_exactly_request_sized");
            }
            if Some(a.echo) != own_id {
                ctx.violation(
                    "C16:daemon-reply-to-other-request",
                    format!(
                        "backlog position {i} of sizes {:?}: the reply on socket {ip} does not echo that socket's request id",
                        sends.iter().map(|(_, b)| b.len()).collect::<Vec<_>>()
                    ),
                    trace(),
                );
            }
        }
    }
    if sentinel != Sentinel::Ok {
        t.inc("machinery.sentinel_failed");
        ctx.cap_hit(&format!("sentinel {:?} after {}", sentinel, trace().chars().take(160).collect::<String>()));
    }
    (format!("{} sentinel={:?}", text.join(" "), sentinel), sentinel == Sentinel::Ok)
}

/// All ordered pairs (thorough: triples) of the size alphabet, each element from its own
/// client socket, under a few configurations.
fn backlog_part(ctx: &Ctx, thorough: bool) -> u64 {
    let depth = if thorough { 3 } else { 2 };
    let mut units: Vec<(Cfg, Vec<IpAddr>)> = vec![];
    for l in if thorough { Listen::ALL.to_vec() } else { vec![Listen::Lo4, Listen::Any6] } {
        let open = Cfg::open(l);
        let v4 = vec![CL_A, CL_B, CL_D];
        units.push((open.clone(), v4.clone()));
        units.push((Cfg { deny: "all", deny_act: FilterAction::Deny, ..open.clone() }, v4.clone()));
        units.push((Cfg { require_nts: Some(FilterAction::Deny), ..open.clone() }, v4.clone()));
        if l == Listen::Any6 {
            units.push((open.clone(), vec![CL_6, CL_B, CL_A]));
        }
    }
    let failed = AtomicU64::new(0);
    let alpha = backlog_alphabet();
    common::par_for(units.len() as u64, 1, |u| {
        let (cfg, ips) = &units[u as usize];
        let mut t = Tally::default();
        let mut rig = match Rig::spawn(cfg) {
            Ok(r) if r.st.first_sentinel == Sentinel::Ok => r, // warm-up: the task is parked in its select
            Ok(_) | Err(_) => {
                ctx.cap_hit(&format!("backlog: could not start the server for {}", cfg.code()));
                failed.fetch_add(1, Ordering::Relaxed);
                return;
            }
        };
        for len in 2..=depth {
            for w in common::product(alpha.len(), len) {
                let sends: Vec<(IpAddr, Vec<u8>)> = w.iter().enumerate().map(|(i, a)| (ips[i], alpha[*a].build(fresh_id()).bytes)).collect();
                let (text, ok) = run_backlog(ctx, &mut t, &mut rig, &sends);
                if w[0] == 3 && w[1] == 0 {
                    ctx.sample(format!("backlog {} {}", cfg.code(), text));
                }
                if !ok {
                    failed.fetch_add(1, Ordering::Relaxed);
                    t.flush(ctx);
                    return;
                }
            }
        }
        t.flush(ctx);
    });
    failed.load(Ordering::Relaxed)
}

fn replay(ctx: &Ctx, trace: &str) -> String {
    if let Some((cfg, sends)) = parse_backlog(trace) {
        return match Rig::spawn(&cfg) {
            Err(e) => format!("rig: {e}"),
            Ok(mut rig) => run_backlog(ctx, &mut Tally::default(), &mut rig, &sends).0,
        };
    }
    let Some(case) = Case::parse(trace) else {
        return format!("unparsable trace {trace}");
    };
    match run_case(&case) {
        Err(e) => format!("rig: {e}"),
        Ok(o) => {
            let mut t = Tally::default();
            judge_c16(ctx, &mut t, &case, &o);
            obs_text(&o)
        }
    }
}

#[test]
fn check() {
    let ctx = Ctx::new("C16");
    if let Some(t) = common::replay_trace() {
        let a = replay(&ctx, &t);
        let b = replay(&ctx, &t);
        common::report_replay("C16", &a, &b, ctx.violation_count() > 0);
        return;
    }
    let thorough = !ctx.quick();
    ctx.rule(
        "daemon level: every datagram of the byte-level grammar (plain v3/v4/v5, 1..12 unique-identifier fields of every wire \
         size 4..36, NTS layouts cookie x authenticator x encrypted part x identifier, non-client modes, broken framing), every \
         prefix 0..=len of the truncation bases and 1024/1025/1500/9000-byte datagrams is sent over a real UDP socket to the real \
         ServerTask under every configuration x client address; a case is distinct and non-trivial when the task answered it. \
         Backlog part: every ordered pair (thorough: and triple) of five valid requests of 48/48/120/452/232 bytes, each from its own \
         client socket and address, queued back to back before the task runs; every reply must fit and echo the request of the \
         socket it arrives on",
    );
    ctx.assume("loopback delivers the task's answer to the client socket before the sentinel's answer reaches the sentinel socket (same sender thread, in-order softirq); a stale datagram found later is reported as CAP");
    ctx.assume("the harness' own AES-SIV is correct (known-answer tests + the real server authenticates its requests: answers.nts_authenticated > 0)");
    if let Err(e) = crypto_self_test() {
        ctx.cap_hit(&format!("crypto self test failed: {e}"));
        ctx.exhaustive(false);
        ctx.finish();
        return;
    }
    let cfgs = c16_configs(thorough);
    let mut units: Vec<(Cfg, IpAddr, bool)> = vec![];
    for (i, c) in cfgs.iter().enumerate() {
        for cl in clients_of(c.listen, thorough) {
            // truncations + oversize under the first three (thorough: four) configurations of each listener
            let full = if thorough { i % 10 < 4 } else { i % 6 < 3 };
            units.push((c.clone(), cl, full));
        }
    }
    ctx.set("states", units.len() as u64);
    let failed_units = AtomicU64::new(0);
    common::par_for(units.len() as u64, 1, |i| {
        let (cfg, client, full) = &units[i as usize];
        let mut t = Tally::default();
        let mut rig = match Rig::spawn(cfg) {
            Ok(r) => r,
            Err(e) => {
                ctx.cap_hit(&format!("could not spawn the server for {}: {e}", cfg.code()));
                failed_units.fetch_add(1, Ordering::Relaxed);
                return;
            }
        };
        if rig.st.first_sentinel != Sentinel::Ok {
            ctx.cap_hit(&format!("the fresh server for {} did not serve the sentinel: {:?}", cfg.code(), rig.st.first_sentinel));
            failed_units.fetch_add(1, Ordering::Relaxed);
            return;
        }
        let phases: &[bool] = if cfg.rate_limit || !(cfg.accepts(4) || cfg.accepts(5)) { &[false] } else { &[false, true] };
        for &rotated in phases {
            if rotated {
                if let Err(e) = rig.rotate_keys() {
                    ctx.cap_hit(&format!("key rotation failed for {}: {e}", cfg.code()));
                    failed_units.fetch_add(1, Ordering::Relaxed);
                    break;
                }
            }
            let mut dgs = unit_datagrams(thorough, *full && !rotated);
            if rotated {
                // after the rotation only the key-dependent layouts are new
                dgs.retain(|d| d.nts != Nts::Plain);
            }
            for dg in dgs {
                let case = Case { cfg: cfg.clone(), rotated, client: *client, copies: 1, broadcast: false, dg };
                let o = rig.exchange(case.client, &case.dg.bytes, 1, false);
                machinery(&ctx, &mut t, &case, &o);
                judge_c16(&ctx, &mut t, &case, &o);
                if o.answers.len() == 1 && o.answers[0].raw.len() == case.dg.bytes.len() && case.dg.bytes.len() > 48 {
                    ctx.sample(format!("{} {} {} -> {}", cfg.code(), client, case.dg.name, obs_text(&o)));
                }
                if o.sentinel != Sentinel::Ok {
                    failed_units.fetch_add(1, Ordering::Relaxed);
                    t.flush(&ctx);
                    return;
                }
            }
        }
        t.flush(&ctx);
    });
    let failed = failed_units.load(Ordering::Relaxed) + backlog_part(&ctx, thorough);
    ctx.set("machinery.failed_units", failed);
    ctx.exhaustive(failed == 0);
    ctx.finish();
}
