#[cfg(any(not(verif_select), verif_gr))] #[path = "/verif/harness/ntpd/gr_probe_pps.rs"] pub(crate) mod gr;
