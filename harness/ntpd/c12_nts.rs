//! c12_nts (ntpd): not implemented yet.
