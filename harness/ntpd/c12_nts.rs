//! C12 (NTS part, daemon level) — "an NTS source uses the version negotiated during key exchange".
//!
//! (The version state machine of a source is checked by ntp_proto/c12.rs. This file covers the
//! one hand-over the protocol crate cannot see: the daemon's NTS spawners carry the outcome of the
//! key exchange into the `SpawnAction`, from which `system.rs` builds the source.)
//!
//! Engine E-IN, every case one REAL key exchange: the real `NtsSpawner` / `NtsPoolSpawner`
//! (configuration parsed from TOML by the daemon's own deserialiser: `ntp-version = 4 | 5 | "auto"`)
//! talks over loopback TCP + TLS 1.3 to the harness KE server of `c35_nts::ke` (ntp-proto's real
//! `KeyExchangeServer`, configured per case with the list of NTP versions it accepts). The
//! `SourceCreateParameters` the spawner emits are turned into an `NtpSource` exactly as
//! `system.rs::create_source` does (`NtpManager::new_source(addr, config, protocol_version,
//! controller, nts, id)`), the source's timer is fired, and its poll datagrams are handed to a
//! real `ntp_proto::Server` that shares the KE server's key set and accepts NTPv4 and NTPv5; the
//! answer is fed back to the source.
//!
//! Enumerated: ntp-version in {4, 5, auto} x accepted list in {[4], [5], [4,5], [5,4], [3,4], [3]}
//!   x spawner in {nts, nts-pool (count 1)} x enable-srv-resolution in {off, on (SRV lookup finds
//!   nothing here and falls back to the direct lookup)} x the record the KE server hands out in
//!   {127.0.0.1:123, none (client falls back to the KE server's own name)} = 144 cases.
//!
//! Oracle (statement + RFC 8915 4.1.2 "the server picks from what the client offered"; nothing is
//! read back from the code under test): the client offers  4 -> {NTPv4},  5 -> {NTPv5},
//! auto -> {NTPv5 preferred, NTPv4};  the KE server accepts NTPv4/NTPv5 as listed (NTPv3 has no
//! NTS-KE protocol id);  negotiated = the first protocol of the client's offer the server accepts.
//!   no common protocol -> the exchange fails, no source  (`C12:nts-source-without-common-version`)
//!   otherwise          -> exactly one source             (`C12:nts-no-source-despite-common-version`)
//!     its initial state is the PLAIN state of the negotiated version, not an upgrading one
//!                                                         (`C12:nts-version-not-negotiated`;
//!                                                          `C12:nts-auto-offer-preference` when it
//!                                                          is the plain state of the OTHER common
//!                                                          version: the offer order was not v5, v4)
//!     every poll carries the negotiated version in its version bits  (`C12:nts-poll-version`)
//!     it accepts answers of exactly that version                     (`C12:nts-expected-answer-version`)
//!     the NTP server holding the KE server's keys answers the poll in that version, NTS
//!     authenticated, and the source takes a measurement from the answer
//!                                                         (`C12:nts-poll-not-served`)
//!   `C12:nts-panic`.
use std::net::{IpAddr, SocketAddr};
use std::sync::Arc;

use ntp_proto::{
    ClockId, Measurement, NtpClock, NtpDuration, NtpLeapIndicator, NtpManager, NtpSourceAction,
    NtpTimestamp, NtpVersion, ObservableSourceTimedata, PollInterval, ProtocolVersion, Server,
    ServerAction, SourceConfig, SourceController, SynchronizationConfig,
};
use serde::Deserialize;
use tokio::sync::mpsc;

use super::c35_nts::ke::{self, Answer};
use super::common::{self, Ctx};
use crate::daemon::config::{NtpSourceConfig, ServerConfig};
use crate::daemon::server::ServerStats;
use crate::daemon::spawn::nts::NtsSpawner;
use crate::daemon::spawn::nts_pool::NtsPoolSpawner;
use crate::daemon::spawn::{SourceCreateParameters, SpawnAction, SpawnEvent, Spawner};

const CFGS: [&str; 3] = ["4", "5", "auto"];
const ACCS: [&[u8]; 6] = [&[4], &[5], &[4, 5], &[5, 4], &[3, 4], &[3]];
const KINDS: [&str; 2] = ["nts", "nts-pool"];

#[derive(Clone, Copy, Debug, PartialEq, Eq, Hash)]
struct Case {
    cfg: usize,
    acc: usize,
    kind: usize,
    srv: bool,
    /// the KE server hands out 127.0.0.1:123 (true) or no server/port record (false)
    record: bool,
}

fn case_str(c: &Case) -> String {
    format!(
        "c12nts;cfg={};accept={};kind={};srv={};record={}",
        CFGS[c.cfg],
        ACCS[c.acc].iter().map(|v| v.to_string()).collect::<Vec<_>>().join(","),
        KINDS[c.kind],
        c.srv as u8,
        c.record as u8
    )
}

fn parse_case(t: &str) -> Option<Case> {
    let parts: Vec<&str> = t.trim().split(';').collect();
    if parts.first() != Some(&"c12nts") {
        return None;
    }
    let kv = |k: &str| parts.iter().find_map(|p| p.strip_prefix(k)?.strip_prefix('='));
    let acc_s = kv("accept")?;
    Some(Case {
        cfg: CFGS.iter().position(|c| *c == kv("cfg").unwrap_or(""))?,
        acc: ACCS.iter().position(|a| a.iter().map(|v| v.to_string()).collect::<Vec<_>>().join(",") == acc_s)?,
        kind: KINDS.iter().position(|c| *c == kv("kind").unwrap_or(""))?,
        srv: kv("srv")? == "1",
        record: kv("record")? == "1",
    })
}

fn all_cases() -> Vec<Case> {
    let mut v = Vec::new();
    for cfg in 0..CFGS.len() {
        for acc in 0..ACCS.len() {
            for kind in 0..KINDS.len() {
                for srv in [false, true] {
                    for record in [true, false] {
                        v.push(Case { cfg, acc, kind, srv, record });
                    }
                }
            }
        }
    }
    v
}

/// Statement level: what the client offers, in order of preference.
fn offer_of(cfg: usize) -> &'static [u8] {
    match CFGS[cfg] {
        "4" => &[4],
        "5" => &[5],
        _ => &[5, 4],
    }
}

/// The version the key exchange has to end with (None: no common protocol).
fn negotiated(c: &Case) -> Option<u8> {
    offer_of(c.cfg).iter().copied().find(|v| (*v == 4 || *v == 5) && ACCS[c.acc].contains(v))
}

fn ntp_version(v: u8) -> NtpVersion {
    match v {
        3 => NtpVersion::V3,
        4 => NtpVersion::V4,
        _ => NtpVersion::V5,
    }
}

// ---------------------------------------------------------------------------------------------
// rig
// ---------------------------------------------------------------------------------------------
#[derive(Deserialize)]
struct Wrapper {
    source: NtpSourceConfig,
}

fn source_config(c: &Case, port: u16) -> Result<NtpSourceConfig, String> {
    let ver = if CFGS[c.cfg] == "auto" { "\"auto\"".to_string() } else { CFGS[c.cfg].to_string() };
    let text = format!(
        "[source]\nmode = \"{}\"\naddress = \"localhost:{port}\"\ncertificate-authority = \"{}\"\nntp-version = {ver}\nenable-srv-resolution = {}\n{}",
        KINDS[c.kind],
        ke::test_keys().join("testca.pem").display(),
        c.srv,
        if c.kind == 1 { "count = 1\n" } else { "" }
    );
    toml::from_str::<Wrapper>(&text).map(|w| w.source).map_err(|e| format!("{e} in {text:?}"))
}

struct Recorder {
    tx: mpsc::UnboundedSender<Measurement>,
}

impl SourceController for Recorder {
    fn handle_measurement(&mut self, measurement: Measurement) {
        self.tx.send(measurement).ok();
    }
    fn set_usable(&mut self, _usable: bool) {}
    fn desired_poll_interval(&self) -> PollInterval {
        PollInterval::default()
    }
    fn observe(&self) -> ObservableSourceTimedata {
        ObservableSourceTimedata::default()
    }
}

#[derive(Clone)]
struct Clock;

impl NtpClock for Clock {
    type Error = std::io::Error;
    fn now(&self) -> Result<NtpTimestamp, Self::Error> {
        Ok(NtpTimestamp::from_seconds_nanos_since_ntp_era(1000, 500))
    }
    fn set_frequency(&self, _f: f64) -> Result<NtpTimestamp, Self::Error> {
        self.now()
    }
    fn get_frequency(&self) -> Result<f64, Self::Error> {
        Ok(0.0)
    }
    fn step_clock(&self, _o: NtpDuration) -> Result<NtpTimestamp, Self::Error> {
        self.now()
    }
    fn disable_ntp_algorithm(&self) -> Result<(), Self::Error> {
        Ok(())
    }
    fn error_estimate_update(&self, _e: NtpDuration, _m: NtpDuration) -> Result<(), Self::Error> {
        Ok(())
    }
    fn status_update(&self, _l: NtpLeapIndicator) -> Result<(), Self::Error> {
        Ok(())
    }
}

struct Rig {
    rt: tokio::runtime::Runtime,
    ke: ke::KeServer,
}

impl Rig {
    fn new() -> Rig {
        let rt = tokio::runtime::Builder::new_current_thread().enable_all().build().expect("runtime");
        let ke = rt.block_on(async { ke::KeServer::start(tokio::time::Instant::now()).await });
        Rig { rt, ke }
    }
}

/// The NTP server of the same deployment: shares the KE server's key set, speaks v4 and v5.
fn ntp_server(rig: &Rig) -> Result<Server<Clock>, String> {
    let cfg: ServerConfig = toml::from_str("listen = \"127.0.0.1:123\"\naccept-ntp-versions = [4, 5]\n").map_err(|e| format!("server config: {e}"))?;
    Ok(Server::new_internal(cfg.into(), Clock, Arc::default(), rig.ke.keyset.clone()))
}

#[derive(Default, Debug, Clone, PartialEq, Eq)]
struct Outcome {
    ke_connections: usize,
    ke_completed: usize,
    sources: usize,
    state: String,
    poll_versions: Vec<u8>,
    answer_versions: Vec<u8>,
    measurements: usize,
    complete: bool,
}

fn version_bits(datagram: &[u8]) -> u8 {
    datagram.first().map_or(0, |b| (b >> 3) & 0b111)
}

fn plain_state(v: u8) -> ProtocolVersion {
    if v == 4 { ProtocolVersion::V4 } else { ProtocolVersion::V5 }
}

fn run_case(ctx: &Ctx, rig: &mut Rig, c: &Case) -> Outcome {
    let trace = case_str(c);
    let mut out = Outcome::default();
    let accepted: Vec<NtpVersion> = ACCS[c.acc].iter().map(|v| ntp_version(*v)).collect();
    rig.ke.set_accepted(&accepted);
    let rec = if c.record { Answer::Hand(Some("127.0.0.1".to_string()), Some(123)) } else { Answer::Hand(None, None) };
    rig.ke.set_script(vec![rec.clone(), rec.clone(), rec], vec![Answer::Refuse]);
    let cfg = match source_config(c, rig.ke.port) {
        Ok(c) => c,
        Err(e) => {
            ctx.violation("C12:harness-config", e, trace);
            return out;
        }
    };
    let (tx, mut rx) = mpsc::channel::<SpawnEvent>(8);
    let rt = &rig.rt;
    let r = common::catch(|| -> Result<bool, String> {
        match cfg {
            NtpSourceConfig::Nts(pair) => {
                let mut sp = NtsSpawner::new(pair.first, SourceConfig::default()).map_err(|e| format!("NtsSpawner::new: {e}"))?;
                rt.block_on(async { tokio::time::timeout(std::time::Duration::from_secs(30), sp.try_spawn(&tx)).await })
                    .map_err(|_| "try_spawn did not return within 30 s".to_string())?
                    .map_err(|e| format!("try_spawn: {e}"))?;
                Ok(sp.is_complete())
            }
            NtpSourceConfig::NtsPool(pair) => {
                let mut sp = NtsPoolSpawner::new(pair.first, SourceConfig::default()).map_err(|e| format!("NtsPoolSpawner::new: {e}"))?;
                rt.block_on(async { tokio::time::timeout(std::time::Duration::from_secs(30), sp.try_spawn(&tx)).await })
                    .map_err(|_| "try_spawn did not return within 30 s".to_string())?
                    .map_err(|e| format!("try_spawn: {e}"))?;
                Ok(sp.is_complete())
            }
            _ => Err("configuration did not parse as an NTS source".to_string()),
        }
    });
    rt.block_on(async {
        for _ in 0..4 {
            tokio::task::yield_now().await;
        }
    });
    let conns = rig.ke.take_log();
    out.ke_connections = conns.len();
    out.ke_completed = conns.iter().filter(|c| c.result.is_ok()).count();
    match r {
        Ok(Ok(complete)) => out.complete = complete,
        Ok(Err(e)) | Err(e) => {
            ctx.violation("C12:nts-panic", format!("spawner failed: {e}"), trace);
            return out;
        }
    }
    let mut created = Vec::new();
    while let Ok(ev) = rx.try_recv() {
        let SpawnAction::Create(params) = ev.action;
        if let SourceCreateParameters::Ntp(p) = params {
            created.push(p);
        }
    }
    out.sources = created.len();
    let want = negotiated(c);
    let Some(v) = want else {
        if !created.is_empty() || out.complete {
            ctx.violation(
                "C12:nts-source-without-common-version",
                format!(
                    "client offers {:?}, KE server accepts {:?}: no common protocol, yet {} source(s) created (spawner complete: {})",
                    offer_of(c.cfg), ACCS[c.acc], created.len(), out.complete
                ),
                trace,
            );
        }
        return out;
    };
    if created.len() != 1 {
        ctx.violation(
            "C12:nts-no-source-despite-common-version",
            format!("client offers {:?}, KE server accepts {:?}: NTPv{v} must be negotiated, but {} sources were created ({} KE connections, {} completed)", offer_of(c.cfg), ACCS[c.acc], created.len(), out.ke_connections, out.ke_completed),
            trace,
        );
        return out;
    }
    let mut p = created.pop().expect("one source");
    out.state = format!("{:?}", p.protocol_version);
    if p.protocol_version != plain_state(v) {
        let other: Option<u8> = offer_of(c.cfg).iter().copied().find(|o| *o != v && ACCS[c.acc].contains(o));
        let class = if other.map(plain_state) == Some(p.protocol_version) { "C12:nts-auto-offer-preference" } else { "C12:nts-version-not-negotiated" };
        ctx.violation(
            class,
            format!(
                "ntp-version = {}, KE server accepts {:?}: the key exchange negotiates NTPv{v}; the source is created in state {:?} instead of {:?}",
                CFGS[c.cfg], ACCS[c.acc], p.protocol_version, plain_state(v)
            ),
            trace.clone(),
        );
    }
    if !p.protocol_version.is_expected_incoming_version(ntp_version(v)) || p.protocol_version.is_expected_incoming_version(ntp_version(9 - v)) {
        ctx.violation(
            "C12:nts-expected-answer-version",
            format!("NTPv{v} negotiated; a source in state {:?} accepts NTPv4 answers: {}, NTPv5 answers: {}", p.protocol_version, p.protocol_version.is_expected_incoming_version(NtpVersion::V4), p.protocol_version.is_expected_incoming_version(NtpVersion::V5)),
            trace.clone(),
        );
    }
    // the source, built exactly as system.rs::create_source builds it
    let (mtx, mut mrx) = mpsc::unbounded_channel();
    let manager = NtpManager::new(SynchronizationConfig::default(), Arc::new([]));
    let built = common::catch(|| manager.new_source(p.addr, p.config, p.protocol_version, Recorder { tx: mtx }, p.nts.take(), p.id));
    let (mut source, initial) = match built {
        Ok(x) => x,
        Err(e) => {
            ctx.violation("C12:nts-panic", format!("new_source panicked: {e}"), trace);
            return out;
        }
    };
    let mut server = match ntp_server(rig) {
        Ok(s) => s,
        Err(e) => {
            ctx.violation("C12:harness-config", e, trace);
            return out;
        }
    };
    let mut stats = ServerStats::default();
    let client_ip: IpAddr = "127.0.0.1".parse().unwrap();
    let mut actions: Vec<NtpSourceAction> = initial.collect();
    for round in 0..3u32 {
        if round > 0 || !actions.iter().any(|a| matches!(a, NtpSourceAction::Send(_))) {
            match common::catch(|| source.handle_timer().collect::<Vec<_>>()) {
                Ok(a) => actions.extend(a),
                Err(e) => {
                    ctx.violation("C12:nts-panic", format!("handle_timer panicked: {e}"), trace);
                    return out;
                }
            }
        }
        let polls: Vec<Vec<u8>> = actions.drain(..).filter_map(|a| if let NtpSourceAction::Send(b) = a { Some(b) } else { None }).collect();
        if polls.is_empty() {
            ctx.violation("C12:nts-poll-version", format!("the source did not send a poll on timer event {round}"), trace.clone());
            return out;
        }
        for poll in polls {
            let pv = version_bits(&poll);
            out.poll_versions.push(pv);
            if pv != v {
                ctx.violation(
                    "C12:nts-poll-version",
                    format!("NTPv{v} negotiated during key exchange; poll {round} of the source carries version {pv} (state at creation {})", out.state),
                    trace.clone(),
                );
            }
            // the NTP server that shares the KE server's keys
            let mut buf = vec![0u8; 4096];
            let recv = NtpTimestamp::from_seconds_nanos_since_ntp_era(1000, 400 + round);
            let answer = match server.handle(client_ip, recv, &poll, &mut buf, &mut stats) {
                ServerAction::Respond { message } => Some(message.to_vec()),
                ServerAction::Ignore => None,
            };
            let before = out.measurements;
            if let Some(a) = &answer {
                out.answer_versions.push(version_bits(a));
                let send = NtpTimestamp::from_seconds_nanos_since_ntp_era(1000, 300 + round);
                let back = NtpTimestamp::from_seconds_nanos_since_ntp_era(1000, 600 + round);
                let _ = common::catch(|| source.handle_incoming(a, send, back).count());
                while mrx.try_recv().is_ok() {
                    out.measurements += 1;
                }
            }
            // (a two-way source hands its controller one Measurement per direction)
            let served = answer.as_ref().is_some_and(|a| version_bits(a) == v && a.len() > 48) && out.measurements > before;
            if !served {
                ctx.violation(
                    "C12:nts-poll-not-served",
                    format!(
                        "NTPv{v} negotiated; poll {round} (version {pv}, {} bytes) sent to the NTP server holding the KE server's keys: {}, measurements taken from it: {}",
                        poll.len(),
                        answer.as_ref().map_or("ignored".to_string(), |a| format!("answered with version {} ({} bytes)", version_bits(a), a.len())),
                        out.measurements - before
                    ),
                    trace.clone(),
                );
            }
        }
    }
    out
}

fn replay(ctx: &Ctx, trace: &str) -> String {
    let Some(c) = parse_case(trace) else {
        return format!("unparseable trace {trace:?}");
    };
    let mut rig = Rig::new();
    let o = run_case(ctx, &mut rig, &c);
    format!("negotiated must be {:?}; observed {o:?}", negotiated(&c))
}

#[test]
fn check() {
    let ctx = Ctx::new("C12");
    if let Some(t) = common::replay_trace() {
        let a = replay(&ctx, &t);
        let b = replay(&ctx, &t);
        common::report_replay("C12", &a, &b, ctx.violation_count() > 0);
        return;
    }
    ctx.rule(
        "NTS part of C12 at daemon level: ntp-version in {4, 5, auto} (parsed from TOML by the daemon) x KE server accepted list in {[4],[5],[4,5],[5,4],[3,4],[3]} x \
         spawner in {NtsSpawner, NtsPoolSpawner(count 1)} x enable-srv-resolution {off, on} x handed-out record {127.0.0.1:123, none}; every case one real key exchange \
         (loopback TCP + TLS 1.3, ntp-proto's KeyExchangeServer), the emitted SourceCreateParameters turned into an NtpSource as system.rs does, 3 timer events, every poll \
         served by a real ntp-proto Server sharing the KE key set and fed back. Distinct & non-trivial = a distinct case.",
    );
    ctx.assume("client offer per configuration: 4 -> NTPv4, 5 -> NTPv5, auto -> NTPv5 preferred then NTPv4 (ntp.toml(5): auto uses NTPv5 where the server supports it); RFC 8915 4.1.2: the server answers with one protocol out of the client's list — here the first of the client's list it accepts");
    ctx.assume("system.rs::create_source passes addr, config, protocol_version, nts, id of the SourceCreateParameters unchanged to NtpManager::new_source (read; the harness does the same call)");
    ctx.assume("SRV mode: the SRV lookup of _ntske._tcp.localhost finds nothing here and resolve_ke falls back to the direct lookup (as the crate's own test allow_srv_direct_name_resolution assumes)");
    let cases = all_cases();
    ctx.set("cases_planned", cases.len() as u64);
    common::par_for_with(
        cases.len() as u64,
        2,
        || None::<Rig>,
        |rig, i| {
            let rig = rig.get_or_insert_with(Rig::new);
            let c = &cases[i as usize];
            let o = run_case(&ctx, rig, c);
            ctx.inc("evaluations");
            ctx.add("transitions", 1 + o.poll_versions.len() as u64 * 2);
            ctx.distinct(common::hash_of(c));
            ctx.add("ke_connections", o.ke_connections as u64);
            ctx.add("ke_exchanges_completed", o.ke_completed as u64);
            ctx.add("sources_created", o.sources as u64);
            ctx.add("polls_sent", o.poll_versions.len() as u64);
            ctx.add("polls_answered", o.answer_versions.len() as u64);
            ctx.add("measurements_taken", o.measurements as u64);
            match negotiated(c) {
                None => ctx.inc("cases_without_common_version"),
                Some(4) => ctx.inc("cases_negotiating_v4"),
                Some(_) => ctx.inc("cases_negotiating_v5"),
            }
            if CFGS[c.cfg] == "auto" && negotiated(c).is_some() {
                ctx.inc(&format!("auto_cases_in_state_{}", o.state.split([' ', '{']).next().unwrap_or("")));
            }
            if o.sources == 0 {
                ctx.inc("cases_without_source");
            }
            if i % 11 == 3 {
                ctx.sample(format!("{} -> {o:?}", case_str(c)));
            }
            // determinism: every 7th case twice
            if i % 7 == 0 {
                let tmp = Ctx::new("C12");
                let o2 = run_case(&tmp, rig, c);
                ctx.inc("determinism_reruns");
                if o2 != o {
                    ctx.violation("C12:harness-nondeterminism", format!("{o:?} vs {o2:?}"), case_str(c));
                }
            }
        },
    );
    ctx.set("states", ctx.get("evaluations"));
    ctx.exhaustive(ctx.get("evaluations") == cases.len() as u64);
    ctx.finish();
}
