//! Group gl probe (child of `ntpd::daemon::config::ntp_source::verif_probe`).
//!
//! Gives the harness a handle on the address list of the maintainers' `cfg(test)` DNS stub
//! (`HardcodedDnsResolve`), the same seam `NormalizedAddress::with_hardcoded_dns` uses, so that the
//! answer of *every* lookup is chosen by the harness. Nothing here changes the behaviour of
//! `lookup_host`: the stub still rotates its list by one (last element to the front) and answers
//! with the rotated list; the script simply stores the list pre-rotated.
use std::net::SocketAddr;
use std::sync::{Arc, Mutex};

use super::super::{HardcodedDnsResolve, NormalizedAddress};

/// Shared handle on the stub's address list.
#[derive(Clone)]
pub(crate) struct DnsScript {
    cell: Arc<Mutex<Vec<SocketAddr>>>,
}

/// A `NormalizedAddress` whose DNS stub is scripted through the returned handle.
pub(crate) fn scripted(server_name: &str, port: u16) -> (NormalizedAddress, DnsScript) {
    let cell = Arc::new(Mutex::new(Vec::new()));
    let addr = NormalizedAddress {
        server_name: server_name.to_string(),
        port,
        hardcoded_dns_resolve: Some(HardcodedDnsResolve {
            addresses: cell.clone(),
        }),
    };
    (addr, DnsScript { cell })
}

impl DnsScript {
    /// Make the *next* lookup answer exactly `answer` (in this order). The stub moves the last
    /// element to the front before answering, so the list is stored rotated the other way.
    pub(crate) fn set_next_answer(&self, answer: &[SocketAddr]) {
        let mut v = answer.to_vec();
        if !v.is_empty() {
            v.rotate_left(1);
        }
        *self.cell.lock().unwrap() = v;
    }

    /// Store the raw (pre-rotation) list. With `n` pairwise distinct entries `x1..xn` the k-th
    /// lookup answers with first element `x(n-k+1)`: every lookup is visible in the raw list and
    /// in the address that a single-server spawner picks.
    pub(crate) fn set_raw(&self, raw: &[SocketAddr]) {
        *self.cell.lock().unwrap() = raw.to_vec();
    }

    /// The raw list as it is now (rotated once per lookup performed since it was set).
    pub(crate) fn raw(&self) -> Vec<SocketAddr> {
        self.cell.lock().unwrap().clone()
    }

    /// Number of lookups since `set_raw(raw0)`, modulo `raw0.len()`; `None` if the current list is
    /// not a rotation of `raw0` (cannot happen unless someone else writes the list).
    pub(crate) fn rotations_since(&self, raw0: &[SocketAddr]) -> Option<usize> {
        let cur = self.raw();
        if cur.len() != raw0.len() {
            return None;
        }
        if cur.is_empty() {
            return Some(0);
        }
        let n = raw0.len();
        (0..n).find(|k| {
            // k lookups: element i of raw0 moved to position (i + k) % n
            (0..n).all(|i| cur[(i + k) % n] == raw0[i])
        })
    }
}
