#[cfg(any(not(verif_select), verif_gt))] #[path = "/verif/harness/ntpd/gt_probe_system.rs"] pub(crate) mod gt;
