//! gm probe for `ntpd::daemon::observer` (C38): call the private `handle_connection` (the
//! function the observer task runs for every accepted connection) on a harness stream.
use std::collections::HashMap;
use std::time::Instant;

use ntp_proto::{ClockId, NtpTimestamp, ObservableSourceState, SystemSnapshot};

use crate::daemon::system::ServerData;

pub(crate) async fn publish(
    stream: &mut (impl tokio::io::AsyncWrite + Unpin),
    sources: &std::sync::RwLock<HashMap<ClockId, ObservableSourceState>>,
    servers: tokio::sync::watch::Receiver<Vec<ServerData>>,
    system: tokio::sync::watch::Receiver<SystemSnapshot>,
    now: NtpTimestamp,
) -> std::io::Result<()> {
    super::super::handle_connection(stream, Instant::now(), sources, servers, system, now).await
}
