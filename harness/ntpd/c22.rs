//! C22 (daemon level) — no datagram stops the REAL server task, and its statistics stay exact.
//!
//! The library-level module (harness/ntp_proto/c22.rs) shows that `Server::handle` returns for
//! every datagram. Whether the daemon's receive loop survives — parse and send error paths of
//! `ServerTask::serve` included — is checked here against the real task on real UDP sockets:
//! after EVERY datagram a sentinel poll must still be answered with time and the task's
//! `JoinHandle` must not be finished. In addition the `ServerStats` the task publishes (the
//! harness keeps a clone of the handle it passed to `ServerTask::spawn`, as `System` does for
//! the observer) must move by exactly one `received` per datagram, keep
//! received = accepted + denied + ignored + rate_limited + nak, and agree with what actually
//! arrived on the client socket.
//!
//! Datagrams: the daemon-level grammar of c16.rs, every prefix of the truncation bases,
//! oversize datagrams, positional byte edits of a few bases (also of authenticating NTS
//! requests), length-field edits, bursts of 2 and 3 copies, and — through the wildcard
//! listeners — datagrams sent to the loopback *broadcast* address: the task receives them with
//! 127.255.255.255 as local address and its answer (sent *from* that address) fails in the
//! kernel, which is the one remotely reachable way into the send-error path.
#![allow(clippy::all)]

use std::net::IpAddr;
use std::sync::atomic::{AtomicU64, Ordering};

use ntp_proto::FilterAction;

use super::c16::{
    Au, Case, Cfg, Ck, Dg, F, Form, Kind, Listen, Nts, Obs, Req, Rig, Sentinel, Tally, CL_6, CL_A, CL_B, CL_D,
    crypto_self_test, fmt_delta, fresh_id, id_offset, machinery, obs_text, run_case, unit_datagrams,
};
use super::common::{self, Ctx};

fn configs(thorough: bool) -> Vec<Cfg> {
    let mut v = vec![];
    for l in Listen::ALL {
        let open = Cfg::open(l);
        v.push(open.clone());
        v.push(Cfg { deny: "all", deny_act: FilterAction::Deny, ..open.clone() });
        v.push(Cfg { require_nts: Some(FilterAction::Deny), versions: "45", ..open.clone() });
        v.push(Cfg { rate_limit: true, ..open.clone() });
        if thorough {
            v.push(Cfg { deny: "all", deny_act: FilterAction::Ignore, ..open.clone() });
            v.push(Cfg { allow: "none", allow_act: FilterAction::Deny, ..open.clone() });
            v.push(Cfg { require_nts: Some(FilterAction::Ignore), ..open.clone() });
            v.push(Cfg { versions: "4", ..open.clone() });
            v.push(Cfg { versions: "3", ..open.clone() });
        }
    }
    v
}

fn clients(l: Listen, thorough: bool) -> Vec<IpAddr> {
    match (l, thorough) {
        (Listen::Any6, false) => vec![CL_B, CL_6],
        (Listen::Any6, true) => vec![CL_A, CL_B, CL_D, CL_6],
        (_, false) => vec![CL_B],
        (_, true) => vec![CL_A, CL_B, CL_D],
    }
}

/// Positional edits of a base: every offset x {0x00, 0xFF, ^0x80, ^0x01}; 16-bit length fields
/// (every even offset >= 48 that currently holds a plausible length) x {-4, -1, +1, +4, 0, 0xFFFF}.
fn edits(base: &Dg, thorough: bool) -> Vec<Dg> {
    let mut v = vec![];
    let subs: &[fn(u8) -> u8] = if thorough {
        &[|_| 0x00, |_| 0xFF, |b| b ^ 0x80, |b| b ^ 0x01]
    } else {
        &[|_| 0xFF, |b| b ^ 0x01]
    };
    let idr = id_offset(&base.bytes).map(|o| o..o + 8);
    for off in 0..base.bytes.len() {
        // the echo id stays: it only labels the request
        if idr.as_ref().map_or(false, |r| r.contains(&off)) {
            continue;
        }
        for (k, f) in subs.iter().enumerate() {
            let nb = f(base.bytes[off]);
            if nb == base.bytes[off] {
                continue;
            }
            let mut d = base.clone();
            d.bytes[off] = nb;
            d.name = format!("{}#b{}.{}", base.name, off, k);
            d.form = Form::Unknown;
            if d.nts != Nts::Plain {
                d.nts = Nts::Ambiguous;
            }
            v.push(d);
        }
    }
    let mut off = 50;
    while off + 2 <= base.bytes.len() {
        let cur = u16::from_be_bytes([base.bytes[off], base.bytes[off + 1]]);
        if cur >= 4 && (cur as usize) <= base.bytes.len() {
            for (k, nv) in [cur.wrapping_sub(4), cur.wrapping_sub(1), cur + 1, cur + 4, 0, 0xFFFF].iter().enumerate() {
                let mut d = base.clone();
                d.bytes[off..off + 2].copy_from_slice(&nv.to_be_bytes());
                d.name = format!("{}#l{}.{}", base.name, off, k);
                d.form = Form::Unknown;
                if d.nts != Nts::Plain {
                    d.nts = Nts::Ambiguous;
                }
                v.push(d);
            }
        }
        off += 2;
    }
    v
}

fn edit_bases(thorough: bool) -> Vec<Req> {
    let mut b = vec![
        Req::new(4, vec![F::Uid(32)]),
        Req::new(5, vec![F::Draft(true), F::Uid(5)]),
        Req::new(4, vec![F::Uid(32), F::Cookie(Ck::Cur), F::Auth(Au::Ok, vec![F::Ph(0)])]),
    ];
    if thorough {
        b.push(Req::new(3, vec![]).tail(20));
        b.push(Req::new(5, vec![F::Draft(true), F::Uid(32), F::Cookie(Ck::Cur), F::Auth(Au::Ok, vec![])]));
        b.push(Req::new(4, vec![F::Uid(0), F::Uid(0), F::Unk(24)]));
    }
    b
}

/// Requests sent to the broadcast address (wildcard listeners only).
fn broadcast_set() -> Vec<Req> {
    vec![
        Req::new(4, vec![]),
        Req::new(3, vec![]),
        Req::new(4, vec![F::Uid(32)]),
        Req::new(4, vec![F::Uid(32), F::Cookie(Ck::Cur), F::Auth(Au::Ok, vec![])]),
        Req::new(4, vec![F::Uid(32), F::Cookie(Ck::Cur), F::Auth(Au::BadTag, vec![])]),
        Req::new(4, vec![]).mode(4),
        Req::new(2, vec![]),
    ]
}

/// The per-datagram oracle.
fn judge(ctx: &Ctx, t: &mut Tally, case: &Case, o: &Obs) -> bool {
    let copies = case.copies as i64;
    t.add("evaluations", case.copies as u64);
    t.add("transitions", case.copies as u64);
    let short = |s: String| s.chars().take(300).collect::<String>();
    // 1. the task is still there and still serves
    if o.finished {
        ctx.violation(
            "C22:daemon-task-ended",
            short(format!("the server task ended after {} from {} ({})", case.dg.name, case.client, if case.broadcast { "sent to the broadcast address" } else { "unicast" })),
            case.trace(),
        );
        return false;
    }
    match &o.sentinel {
        Sentinel::Ok => {}
        Sentinel::Timeout => {
            ctx.violation(
                "C22:daemon-sentinel-unanswered",
                short(format!("no answer to the sentinel poll after {} from {}", case.dg.name, case.client)),
                case.trace(),
            );
            return false;
        }
        Sentinel::Wrong(w) => {
            ctx.violation(
                "C22:daemon-sentinel-refused",
                short(format!("sentinel poll after {} from {} answered with {w}", case.dg.name, case.client)),
                case.trace(),
            );
            return false;
        }
    }
    if o.send_err.is_some() {
        return true;
    }
    // 2. statistics
    let d = o.own_delta();
    let cats = d[1] + d[2] + d[3] + d[4] + d[10];
    if d[0] != copies {
        ctx.violation(
            "C22:daemon-stats-received",
            short(format!("{} datagram(s) {}: received moved by {} [{}]", copies, case.dg.name, d[0], fmt_delta(&d))),
            case.trace(),
        );
    } else if cats != copies || d.iter().any(|x| *x < 0) {
        ctx.violation(
            "C22:daemon-stats-categories",
            short(format!("{} datagram(s) {}: categories moved by {} [{}]", copies, case.dg.name, cats, fmt_delta(&d))),
            case.trace(),
        );
    }
    let a = &o.after;
    if a[0] != a[1] + a[2] + a[3] + a[4] + a[10] {
        ctx.violation(
            "C22:daemon-stats-sum",
            short(format!("after {}: received={} accepted={} denied={} ignored={} rate_limited={} nak={}", case.dg.name, a[0], a[1], a[2], a[3], a[4], a[10])),
            case.trace(),
        );
    }
    let count = |k: Kind| o.answers.iter().filter(|x| x.kind == k).count() as i64;
    let other = o.answers.len() as i64 - count(Kind::Time) - count(Kind::Deny) - count(Kind::Nak);
    let sent = d[1] + d[2] + d[10] - d[5];
    let mismatch = if d[5] == 0 {
        count(Kind::Time) != d[1] || count(Kind::Deny) != d[2] || count(Kind::Nak) != d[10] || other != 0
    } else {
        o.answers.len() as i64 != sent
    };
    if mismatch {
        ctx.violation(
            "C22:daemon-stats-disagree-with-wire",
            short(format!("{}: wire {} vs statistics [{}]", case.dg.name, obs_text(o), fmt_delta(&d))),
            case.trace(),
        );
    }
    if d[4] != 0 && !case.cfg.rate_limit {
        ctx.violation("C22:daemon-stats-rate-limited-without-limiter", short(format!("{}: [{}]", case.dg.name, fmt_delta(&d))), case.trace());
    }
    if d[7] > d[1] || d[8] > d[2] || d[9] > d[4] || d[6] > d[0] || d[7] + d[8] + d[9] > d[6] {
        ctx.violation("C22:daemon-stats-nts-subcounters", short(format!("{}: [{}]", case.dg.name, fmt_delta(&d))), case.trace());
    }
    // vacuity
    if d[5] > 0 {
        t.add("reached.send_error_path", d[5] as u64);
    }
    for (i, n) in ["received", "accepted", "denied", "ignored", "rate_limited"].iter().enumerate() {
        if d[i] > 0 {
            t.add(&format!("stats.{n}"), d[i] as u64);
        }
    }
    if d[10] > 0 {
        t.add("stats.nak", d[10] as u64);
    }
    if !o.answers.is_empty() {
        t.distinct.push(common::hash_of(&(case.cfg.code(), case.client, &case.dg.name, case.copies, case.broadcast)));
    }
    true
}

fn replay(ctx: &Ctx, trace: &str) -> String {
    let Some(case) = Case::parse(trace) else {
        return format!("unparsable trace {trace}");
    };
    match run_case(&case) {
        Err(e) => format!("rig: {e}"),
        Ok(o) => {
            let mut t = Tally::default();
            judge(ctx, &mut t, &case, &o);
            obs_text(&o)
        }
    }
}

#[test]
fn check() {
    let ctx = Ctx::new("C22");
    if let Some(t) = common::replay_trace() {
        let a = replay(&ctx, &t);
        let b = replay(&ctx, &t);
        common::report_replay("C22", &a, &b, ctx.violation_count() > 0);
        return;
    }
    let thorough = !ctx.quick();
    ctx.rule(
        "daemon level: grammar + every prefix of the truncation bases + oversize datagrams + positional byte and length-field \
         edits of the edit bases + bursts of 2 and 3 copies + requests sent to the loopback broadcast address (send-error \
         path), each over a real UDP socket to the real ServerTask under every configuration x listener x client; after every \
         datagram: sentinel answered, JoinHandle not finished, statistics exact; distinct and non-trivial = answered",
    );
    ctx.assume("a panic inside the task is observed as a finished JoinHandle / unanswered sentinel (tokio catches it; in the daemon the NTP service would be gone)");
    ctx.assume("receive-side socket errors and datagrams without a kernel time stamp cannot be provoked from a client on loopback and are not exercised");
    if let Err(e) = crypto_self_test() {
        ctx.cap_hit(&format!("crypto self test failed: {e}"));
        ctx.exhaustive(false);
        ctx.finish();
        return;
    }
    let mut units: Vec<(Cfg, IpAddr, bool)> = vec![];
    for (i, c) in configs(thorough).iter().enumerate() {
        for cl in clients(c.listen, thorough) {
            units.push((c.clone(), cl, thorough || i % 4 < 2));
        }
    }
    ctx.set("states", units.len() as u64);
    let dead = AtomicU64::new(0);
    common::par_for(units.len() as u64, 1, |i| {
        let (cfg, client, full) = &units[i as usize];
        let mut t = Tally::default();
        let mut rig = match Rig::spawn(cfg) {
            Ok(r) => r,
            Err(e) => {
                ctx.cap_hit(&format!("could not spawn the server for {}: {e}", cfg.code()));
                dead.fetch_add(1, Ordering::Relaxed);
                return;
            }
        };
        if rig.st.first_sentinel != Sentinel::Ok {
            let dg = super::c16::sentinel_request(cfg, fresh_id());
            let case = Case { cfg: cfg.clone(), rotated: false, client: "127.200.0.1".parse().unwrap(), copies: 1, broadcast: false, dg };
            ctx.violation(
                "C22:daemon-sentinel-refused",
                format!("the freshly spawned task for {} did not serve the first sentinel poll: {:?}", cfg.code(), rig.st.first_sentinel),
                case.trace(),
            );
            dead.fetch_add(1, Ordering::Relaxed);
            return;
        }
        // (datagram, copies, broadcast)
        let mut plan: Vec<(Dg, usize, bool)> = vec![];
        if cfg.listen != Listen::Lo4 && client.is_ipv4() {
            for r in broadcast_set() {
                plan.push((r.build(fresh_id()), 1, true));
            }
        }
        for d in unit_datagrams(thorough, *full) {
            plan.push((d, 1, false));
        }
        if *full {
            for b in edit_bases(thorough) {
                // a fixed id: the set of edits depends on the bytes (the authenticator covers the id)
                for d in edits(&b.build(0x5E17_EDED_0000_0001), thorough) {
                    plan.push((d, 1, false));
                }
            }
        }
        for r in broadcast_set() {
            plan.push((r.build(fresh_id()), 2, false));
            plan.push((r.build(fresh_id()), 3, false));
        }
        if cfg.listen != Listen::Lo4 && client.is_ipv4() {
            // once more at the end: the task must have survived everything above as well
            plan.push((Req::new(4, vec![]).build(fresh_id()), 2, true));
        }
        t.add("states.datagrams_planned", plan.len() as u64);
        for (dg, copies, broadcast) in plan {
            let case = Case { cfg: cfg.clone(), rotated: false, client: *client, copies, broadcast, dg };
            let o = rig.exchange(case.client, &case.dg.bytes, copies, broadcast);
            machinery(&ctx, &mut t, &case, &o);
            if broadcast {
                t.inc("requests.to_broadcast_address");
            }
            if !judge(&ctx, &mut t, &case, &o) {
                // the task is gone: nothing more can be learnt from this unit
                dead.fetch_add(1, Ordering::Relaxed);
                t.inc("units.task_lost");
                break;
            }
            if o.own_delta()[5] > 0 {
                ctx.sample(format!("{} {} {}{} -> {}", cfg.code(), client, case.dg.name, if broadcast { " (to broadcast)" } else { "" }, obs_text(&o)));
            }
        }
        if rig.finished() {
            t.inc("units.task_finished_at_end");
        }
        t.flush(&ctx);
    });
    ctx.set("units.dead", dead.load(Ordering::Relaxed));
    ctx.exhaustive(dead.load(Ordering::Relaxed) == 0);
    ctx.finish();
}
