//! C11 / C09 (system-task link) — the daemon-level end of "is reset (re-resolved) … or demobilised … and sends
//! nothing further": what `ntpd/src/daemon/system.rs` does with the ONE message a source task sends when it gives up.
//!
//! gd/ge check the decision inside `NtpSource`, gs (c11_task) that the real source task turns it into exactly one
//! `MsgForSystem::{Unreachable, MustDemobilize}` and ends. This module checks the next hop with the REAL system
//! task: the report must remove exactly that source from the system's table and reach exactly the spawner that
//! created it with the matching reason — `Unreachable` (the spawner re-resolves), `Demobilized` (never respawned),
//! `NetworkIssue` (respawned on the cached address) — and no other source may be touched (a source that keeps
//! answering is never reset).
//!
//! The rig, the reference model and the judge are shared with c36_system.rs (same exploration: part X); this module
//! reports only the classes that are the image of C11/C09 and counts what the sibling would say. Part E' runs ALL
//! words over {W, RD, RU, RN} against the real `StandardSpawner` under the real `run` loop; part K lets the REAL
//! source task give up by itself (three unanswered polls on a closed loopback port) and follows its report through
//! the real system to a re-resolved replacement, the old source's published snapshot gone.
use std::sync::Mutex;

use super::c36_system as rig;
use super::common::{self, Ctx};
use rig::{E2, Finding, Kind};

/// C36 judge code -> C11 class (None: not an image of C11/C09, the sibling c36_system reports it)
fn c11_class(code: &str) -> Option<&'static str> {
    Some(match code {
        "wrong-removal-reason" => "C11:system-reset-vs-demobilize",
        "source-not-removed" | "e2e-source-not-removed" | "soak-source-not-removed" => {
            "C11:system-source-kept-after-report"
        }
        "removal-not-notified" | "removal-misdelivered" | "removal-wrong-id" | "removal-duplicated"
        | "e2e-removal-not-notified" => "C11:system-report-not-forwarded-to-owner",
        "wrong-source-removed" => "C11:system-other-source-removed",
        "panic" | "handler-error" | "e2e-system-task-ended" | "soak-system-task-ended" => "C11:system-task-ended",
        "e2e-demobilized-respawned" => "C11:system-demobilized-respawned",
        "e2e-unreachable-not-reresolved" | "soak-unreachable-not-reresolved" => "C11:system-unreachable-not-reresolved",
        "e2e-not-respawned" | "soak-unreachable-source-not-replaced" => "C11:system-unreachable-source-not-replaced",
        "soak-snapshot-left-behind" => "C11:system-snapshot-left-behind",
        _ => return None,
    })
}

fn report(ctx: &Ctx, f: &Finding, trace: String) {
    match c11_class(f.code) {
        Some(c) => ctx.violation(c, f.what.clone(), trace),
        None => ctx.inc(&format!("sibling_findings.{}", f.code)),
    }
}

fn replay(ctx: &Ctx, trace: &str) -> String {
    // run through the shared replayer with a scratch context, then map the classes
    let scratch = Ctx::new("C11");
    let obs = rig::replay_any(&scratch, "C36", trace);
    let t = trace.trim();
    if let Some(rest) = t.strip_prefix("E:") {
        if let Some(evs) = rig::parse_e2(rest) {
            if let (Some(f), _) = rig::judge_e2e(&evs, &rig::run_e2e(&evs)) {
                report(ctx, &f, t.to_string());
            }
        }
    } else if let Some(rest) = t.strip_prefix("K:") {
        let n: usize = rest.trim().parse().unwrap_or(3);
        if let Some(f) = rig::judge_soak(&rig::run_soak(n), n) {
            report(ctx, &f, t.to_string());
        }
    } else if let Some(evs) = rig::parse_trace(t.strip_prefix("X:").unwrap_or(t)) {
        if let (Some(f), _, _) = rig::judge(&evs, &rig::run_trace(&evs)) {
            report(ctx, &f, t.to_string());
        }
    }
    obs
}

#[test]
fn check() {
    let ctx = Ctx::new("C11");
    if let Some(t) = common::replay_trace() {
        let a = replay(&ctx, &t);
        let b = replay(&ctx, &t);
        common::report_replay("C11", &a, &b, ctx.violation_count() > 0);
        return;
    }
    ctx.rule(
        "X: every (state,event) of the deduplicated state graph and ALL event sequences up to the depth over S<i> / \
         R<j><k> against the real SystemTask (as c36_system), judged for: reported source gone from the table, the owner \
         — and nobody else — told once with that id and the reason of the report, no other source touched; a case is \
         distinct by (trace, observation). E': all words over {W,RD,RU,RN} with the real StandardSpawner under the real run \
         loop. K: the real source task gives up by itself.",
    );
    ctx.assume(
        "the source task sends exactly one report and ends, removing its own published snapshot (c11_task); the system \
         task holds no handle on source tasks, so 'sends nothing further' is the task's own doing — here only part K \
         observes it (snapshot of the replaced source gone, system task alive = no second report arrived)",
    );
    ctx.assume("reports for ids that are not live are outside the environment (see c36_system); recorded, not judged");
    ctx.assume("mock clock; cfg(test) DNS stub with 8 distinct addresses; closed loopback port, nobody answers");

    let quick = ctx.quick();
    let stale_terminal = rig::stale_report_aborts();
    let (d_full, d_graph) = if quick { (5, 7) } else { (7, 9) };
    let mut states = 0u64;
    let mut edges = 0u64;
    let mut traces = 0u64;
    for (name, plan) in [
        ("graph", rig::state_graph(d_graph, 3)),
        ("tree", rig::full_tree(d_full, 3, stale_terminal)),
    ] {
        states = states.max(plan.states.len() as u64);
        edges += plan.edges;
        traces += plan.traces.len() as u64;
        ctx.set(&format!("x_{name}_traces"), plan.traces.len() as u64);
        ctx.set(&format!("x_{name}_edges"), plan.edges);
        ctx.set(&format!("x_{name}_states"), plan.states.len() as u64);
        for (f, t) in rig::run_plan(&ctx, &plan, 41) {
            report(&ctx, &f, format!("X:{t}"));
        }
        if let Some(t) = plan.traces.iter().rev().find(|t| t.len() >= 4) {
            ctx.sample(format!("X:{}", rig::fmt_trace(t)));
        }
    }
    ctx.set("x_graph_depth", d_graph as u64);
    ctx.set("x_tree_depth", d_full as u64);
    ctx.set("states", states);
    ctx.set("transitions", edges);
    ctx.set("evaluations", traces);

    // ---- part E': the reasons travel the real path to the real single-server spawner
    let alphabet = [E2::W, E2::R(Kind::D), E2::R(Kind::U), E2::R(Kind::N)];
    let n = if quick { 6 } else { 8 };
    let total = common::pow(alphabet.len(), n);
    let found: Mutex<Vec<(Finding, String)>> = Mutex::new(Vec::new());
    let agg: Mutex<rig::E2Stats> = Mutex::new(rig::E2Stats::default());
    common::par_for(total, 8, |i| {
        let w: Vec<E2> = common::word_of(i, alphabet.len(), n).iter().map(|x| alphabet[*x]).collect();
        let obs = rig::run_e2e(&w);
        ctx.distinct(common::hash_of(&(&w, &obs)));
        let (f, s) = rig::judge_e2e(&w, &obs);
        {
            let mut a = agg.lock().unwrap();
            a.steps += s.steps;
            a.s1_creates += s.s1_creates;
            a.respawn_after_unreachable += s.respawn_after_unreachable;
            a.respawn_after_network_issue += s.respawn_after_network_issue;
            a.runs_with_demobilisation += s.runs_with_demobilisation;
            a.steps_after_demobilisation += s.steps_after_demobilisation;
        }
        if let Some(f) = f {
            let upto = (f.step + 1).min(w.len());
            found.lock().unwrap().push((f, rig::fmt_e2(&w[..upto])));
        }
    });
    {
        let a = agg.lock().unwrap();
        ctx.set("e_words", total);
        ctx.set("e_steps", a.steps);
        ctx.set("e_sources_created_by_real_spawner", a.s1_creates);
        ctx.set("e_replaced_after_unreachable_with_fresh_lookup", a.respawn_after_unreachable);
        ctx.set("e_replaced_after_network_issue", a.respawn_after_network_issue);
        ctx.set("e_runs_with_demobilisation", a.runs_with_demobilisation);
        ctx.set("e_steps_after_demobilisation_without_respawn", a.steps_after_demobilisation);
        ctx.add("evaluations", total);
        ctx.add("transitions", a.steps);
    }
    let mut v = found.into_inner().unwrap();
    v.sort_by(|a, b| (a.1.len(), &a.1, a.0.code).cmp(&(b.1.len(), &b.1, b.0.code)));
    v.dedup_by(|a, b| a.1 == b.1 && a.0.code == b.0.code);
    for (f, t) in v {
        report(&ctx, &f, format!("E:{t}"));
    }
    ctx.sample("E:W,RU,W,RD,W,W");

    // ---- part K
    let k_n = if quick { 3 } else { 6 };
    let a = rig::run_soak(k_n);
    let b = rig::run_soak(k_n);
    if (rig::SoakObs { clock_adjustments: 0, ..a.clone() }) != (rig::SoakObs { clock_adjustments: 0, ..b }) {
        ctx.inc("determinism_differences");
    }
    ctx.set("k_sources_replaced_after_real_unreachable_report", a.addresses.len().saturating_sub(1) as u64);
    ctx.set("k_clock_adjustments_on_mock", a.clock_adjustments);
    ctx.add("evaluations", 1);
    if let Some(f) = rig::judge_soak(&a, k_n) {
        report(&ctx, &f, format!("K:{k_n}"));
    }
    ctx.sample(format!("K:{k_n} -> {:?}", a.addresses));

    if ctx.get("determinism_differences") > 0 {
        ctx.violation("C11:system-nondeterministic-observation", "a re-run of the same trace observed something else", "");
    }
    ctx.exhaustive(true);
    ctx.finish();
}
