//! c11_system (ntpd): not implemented yet.
