//! Group gs — probe of `crate::daemon::ntp_source` (child module `verif_probe::gs`).
//!
//! `SourceTask`'s fields and its `run` loop are private to the module; the crate's own tests
//! build the struct literally and call `run` with a test `Wait`. This probe does exactly the
//! same (construct + call, nothing else), so the harness can hand the REAL `run` loop a
//! harness-controlled poll timer (`T: Wait`), a recording clock and a recording controller.
//! It never changes behaviour of the code under test.
#![allow(dead_code)]

use std::marker::PhantomData;
use std::net::SocketAddr;
use std::pin::Pin;

use ntp_proto::{ClockId, NtpClock, NtpSource, SourceController};

use super::super::{SourceChannels, SourceTask, Wait};
use crate::daemon::config::TimestampMode;

/// Exactly the struct literal of `SourceTask::spawn` (socket not yet opened, no request sent).
pub(crate) fn build<C, Controller, T>(
    index: ClockId,
    name: String,
    source_addr: SocketAddr,
    clock: C,
    timestamp_mode: TimestampMode,
    channels: SourceChannels,
    source: NtpSource<Controller>,
) -> SourceTask<C, Controller, T>
where
    C: 'static + NtpClock + Send + Sync,
    Controller: SourceController,
    T: Wait,
{
    SourceTask {
        _wait: PhantomData,
        index,
        name,
        clock,
        channels,
        interface: None,
        timestamp_mode,
        source_addr,
        socket: None,
        source,
        last_send_timestamp: None,
    }
}

/// The real receive/timer loop.
pub(crate) async fn run<C, Controller, T>(task: &mut SourceTask<C, Controller, T>, wait: Pin<&mut T>)
where
    C: 'static + NtpClock + Send + Sync,
    Controller: SourceController,
    T: Wait,
{
    task.run(wait).await;
}

/// Does the task currently hold a socket? (read only)
pub(crate) fn has_socket<C, Controller, T>(task: &SourceTask<C, Controller, T>) -> bool
where
    C: 'static + NtpClock + Send + Sync,
    Controller: SourceController,
    T: Wait,
{
    task.socket.is_some()
}
