//! gm probe for `ntpd::daemon::server` (C38): construct a `Counter` with a given value
//! (its field is private and the only other constructors are `Default` and `Deserialize`,
//! the latter being code under test in C38).
use std::sync::Arc;
use std::sync::atomic::AtomicU64;

use super::super::Counter;

pub(crate) fn counter(v: u64) -> Counter {
    Counter {
        value: Arc::new(AtomicU64::new(v)),
    }
}
