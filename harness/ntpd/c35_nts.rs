//! C35 (NTS pool part) — pool sources are distinct, bounded (and respect the ignore list).
//!
//! (The plain `PoolSpawner` is checked by c35.rs, group gl. This file covers what gl declared "not
//! covered": `NtsPoolSpawner`, `ntpd/src/daemon/spawn/nts_pool.rs`.)
//!
//! Engine E-SEQ: explicit-state breadth-first search over the REAL `NtsPoolSpawner`. Every
//! transition is a call of the real `try_spawn` / `handle_source_removed`. Every spawn round makes
//! the spawner open real TCP connections to a local NTS-KE server (loopback, ephemeral port, real
//! TLS 1.3 with the PKI of `ntpd/test-keys`, ntp-proto's real `KeyExchangeServer` at the other
//! end) — the harness decides PER CONNECTION which NTP server record (name, port) that KE server
//! hands out, or that it slams the door. That is the analogue of the DNS answer of the plain pool.
//!
//! Roots   : count in {1,2,3} (thorough: + 4), `enable_srv_resolution = false`.
//! Events  : `S:<w>`  one spawn round (enabled when `!is_complete()`, exactly as `spawner_task`
//!                    calls it). w is the list of answers the KE server gives to the successive
//!                    connections of the round: a word over the record alphabet of length
//!                    m = number of missing sources, or a shorter word followed by `F` (the KE server
//!                    closes the connection without answering). Should the spawner connect more
//!                    often than |w| the KE server goes on handing out fresh, never used, resolvable
//!                    records Z1, Z2, ... (so "too many connections" becomes visible as too many
//!                    sources instead of being masked).
//!           records  A = 127.0.0.1:123   B = 127.0.0.2:123   C = 127.0.0.3:123
//!                    D = localhost:123   (another NAME for A's address)
//!                    P = 127.0.0.1:124   (A's name, another port => a different server address)
//!                    X = unresolvable.invalid:123
//!                    N = no server/port record (client falls back to the KE server's own name,
//!                        localhost:123)
//!                    thorough adds  Q = 127.0.0.2:124,  L = LOCALHOST:123
//!           `R:<i>:<r>` the system reports active source #i (creation order) removed for reason r
//!                    in {D(emobilized), N(etworkIssue), U(nreachable)}.
//! Depth   : until the frontier is empty (fixpoint) or 8 events, whichever comes first.
//! Key     : (count, the spawner's `current_sources` names IN ORDER (read through the read-only
//!           probe), each flagged whether the harness ledger still has it, the ledger's active
//!           sources sorted by (name, address), each flagged whether the spawner still has it).
//! States  : are plain data. `NtsPoolSpawner` cannot be copied (TLS client configuration), so a
//!           worker re-creates a state on its long-lived spawner by reporting every remembered
//!           source removed (public interface) and re-executing the state's event history from the
//!           root — no private field is ever written; the re-created state must have the same key
//!           (`C35:harness-nondeterminism` otherwise).
//!
//! Oracle (from the statement, on the harness' own ledger "created on the SpawnEvent stream minus
//! reported removed"; the address is the `SocketAddr` the SpawnEvent tells the system to poll):
//!   * `C35:nts-pool-over-count`                 |active| <= count
//!   * `C35:nts-pool-duplicate-active-server`    no two active sources for the same KE record name
//!   * `C35:nts-pool-duplicate-active-address`   no two active sources with the same socket address
//!                                                (reported when the names differ)
//!   * `C35:nts-pool-source-address-not-handed-out`  a created source's address is a resolution of a
//!                                                record the KE server handed out in that round
//!   * `C35:nts-pool-panic` / `C35:nts-pool-round-hung`
//! The statement's third clause (ignore list) has no counterpart: `NtsPoolSourceConfig` has no
//! `ignore` field (the client instead tells the KE server which servers it already has; the KE
//! server of this harness ignores that, like ntp-proto's own server does).
//! A violating state is reported and not expanded further (BFS => first report is shortest).
use std::collections::{BTreeMap, HashMap, HashSet, VecDeque};
use std::net::{IpAddr, SocketAddr, ToSocketAddrs};
use std::sync::{Arc, Mutex};

use ntp_proto::{ClockId, ProtocolVersion, SourceConfig};
use tokio::sync::mpsc;

use super::common::{self, Ctx};
use crate::daemon::config::{NormalizedAddress, NtsKeAddress, NtsPoolSourceConfig};
use crate::daemon::spawn::nts_pool::verif_probe::gr as probe;
use crate::daemon::spawn::nts_pool::NtsPoolSpawner;
use crate::daemon::spawn::{
    SourceCreateParameters, SourceRemovalReason, SourceRemovedEvent, SpawnAction, SpawnEvent,
    Spawner,
};

// ---------------------------------------------------------------------------------------------
// the harness NTS-KE server (also used by c36_nts.rs)
// ---------------------------------------------------------------------------------------------
pub(super) mod ke {
    use std::collections::{HashMap, VecDeque};
    use std::path::PathBuf;
    use std::sync::{Arc, Mutex};

    use ntp_proto::tls_utils::Certificate;
    use ntp_proto::{KeyExchangeServer, KeySet, KeySetProvider, NtpVersion, NtsServerConfig};
    use tokio::net::TcpListener;

    /// What the KE server does with one connection.
    #[derive(Clone, Debug, PartialEq, Eq, Hash)]
    pub(crate) enum Answer {
        /// complete the key exchange, handing out this NTP server record
        Hand(Option<String>, Option<u16>),
        /// accept the TCP connection and close it at once
        Refuse,
    }

    #[derive(Clone, Debug)]
    pub(crate) struct Conn {
        /// time since the rig's t0 on the runtime's clock (virtual when paused), microseconds
        pub(crate) at_us: u64,
        pub(crate) answer: Answer,
        /// taken from the scripted queue (false: the fallback tail)
        pub(crate) scripted: bool,
        /// `Ok` or the server-side error text
        pub(crate) result: Result<(), String>,
        /// position of the accept in the process-wide order of harness observations
        pub(crate) order: u64,
    }

    static ORDER: std::sync::atomic::AtomicU64 = std::sync::atomic::AtomicU64::new(0);

    /// Next number of a process-wide monotonic counter: observations made on one thread sort into
    /// their true order.
    pub(crate) fn next_order() -> u64 {
        ORDER.fetch_add(1, std::sync::atomic::Ordering::SeqCst)
    }

    pub(crate) struct Script {
        pub(crate) queue: VecDeque<Answer>,
        /// answers for connections beyond the queue, used cyclically
        pub(crate) tail: Vec<Answer>,
        pub(crate) tail_used: usize,
        pub(crate) log: Vec<Conn>,
        /// incremented by `set_script`; a connection accepted under an older script is not logged
        pub(crate) epoch: u64,
        /// the NTP versions the KE server accepts, in its configured order (default [4])
        pub(crate) accepted: Vec<NtpVersion>,
    }

    impl Script {
        fn next(&mut self) -> (Answer, bool) {
            if let Some(a) = self.queue.pop_front() {
                (a, true)
            } else if self.tail.is_empty() {
                (Answer::Refuse, false)
            } else {
                let a = self.tail[self.tail_used % self.tail.len()].clone();
                self.tail_used += 1;
                (a, false)
            }
        }
    }

    pub(crate) fn test_keys() -> PathBuf {
        PathBuf::from(concat!(env!("CARGO_MANIFEST_DIR"), "/test-keys"))
    }

    /// The CA the test PKI is signed with (what a client puts in `certificate-authority`).
    pub(crate) fn test_ca() -> Arc<[Certificate]> {
        crate::daemon::keyexchange::certificates_from_file(&test_keys().join("testca.pem"))
            .expect("testca.pem")
            .into()
    }

    fn build_server(name: &Option<String>, port: Option<u16>, accepted: &[NtpVersion]) -> KeyExchangeServer {
        let chain = std::fs::File::open(test_keys().join("end.fullchain.pem")).expect("end.fullchain.pem");
        let key = std::fs::File::open(test_keys().join("end.key")).expect("end.key");
        let certificate_chain: Vec<Certificate> =
            ntp_proto::tls_utils::pemfile::certs(&mut std::io::BufReader::new(chain))
                .collect::<std::io::Result<Vec<_>>>()
                .expect("certificate chain");
        let private_key =
            ntp_proto::tls_utils::pemfile::private_key(&mut std::io::BufReader::new(key)).expect("private key");
        KeyExchangeServer::new(NtsServerConfig {
            certificate_chain,
            private_key,
            accepted_versions: accepted.to_vec(),
            server: name.clone(),
            port,
            pool_authentication_tokens: vec![],
        })
        .expect("KeyExchangeServer")
    }

    /// Handle on a KE server task living on some runtime.
    pub(crate) struct KeServer {
        pub(crate) port: u16,
        pub(crate) script: Arc<Mutex<Script>>,
        pub(crate) task: tokio::task::JoinHandle<()>,
        /// the key set the cookies are made with (an NTP server of this "deployment" shares it)
        pub(crate) keyset: Arc<KeySet>,
    }

    impl KeServer {
        /// Must be called inside the runtime that is to run the server. The server is the
        /// certificate's `localhost`, listening on 127.0.0.1 and an ephemeral port.
        pub(crate) async fn start(t0: tokio::time::Instant) -> KeServer {
            let listener = TcpListener::bind("127.0.0.1:0").await.expect("bind KE listener");
            let port = listener.local_addr().expect("local addr").port();
            let script = Arc::new(Mutex::new(Script {
                queue: VecDeque::new(),
                tail: Vec::new(),
                tail_used: 0,
                log: Vec::new(),
                epoch: 0,
                accepted: vec![NtpVersion::V4],
            }));
            let s2 = script.clone();
            let keyset: Arc<KeySet> = KeySetProvider::new(1).get();
            let keyset_out = keyset.clone();
            let task = tokio::spawn(async move {
                let mut cache: HashMap<(Option<String>, Option<u16>, Vec<u8>), Arc<KeyExchangeServer>> = HashMap::new();
                loop {
                    let Ok((stream, _)) = listener.accept().await else {
                        tokio::task::yield_now().await;
                        continue;
                    };
                    let at_us = t0.elapsed().as_micros() as u64;
                    let order = next_order();
                    let (answer, scripted, epoch, accepted) = {
                        let mut s = s2.lock().unwrap();
                        let (a, sc) = s.next();
                        (a, sc, s.epoch, s.accepted.clone())
                    };
                    let result = match &answer {
                        Answer::Refuse => {
                            drop(stream);
                            Err("refused".to_string())
                        }
                        Answer::Hand(name, port) => {
                            let srv = cache
                                .entry((name.clone(), *port, accepted.iter().map(|v| v.as_u8()).collect()))
                                .or_insert_with(|| Arc::new(build_server(name, *port, &accepted)))
                                .clone();
                            match srv.handle_connection(stream, &keyset, || None::<()>).await {
                                Ok(_) => Ok(()),
                                Err(e) => Err(format!("{e}")),
                            }
                        }
                    };
                    let mut s = s2.lock().unwrap();
                    if s.epoch == epoch {
                        s.log.push(Conn { at_us, answer, scripted, result, order });
                    }
                }
            });
            KeServer { port, script, task, keyset: keyset_out }
        }

        pub(crate) fn set_script(&self, queue: Vec<Answer>, tail: Vec<Answer>) {
            let mut s = self.script.lock().unwrap();
            s.queue = queue.into();
            s.tail = tail;
            s.tail_used = 0;
            s.log.clear();
            s.epoch += 1;
        }

        /// The NTP versions the KE server accepts from now on (order as configured).
        pub(crate) fn set_accepted(&self, accepted: &[NtpVersion]) {
            self.script.lock().unwrap().accepted = accepted.to_vec();
        }

        pub(crate) fn take_log(&self) -> Vec<Conn> {
            std::mem::take(&mut self.script.lock().unwrap().log)
        }
    }

    impl Drop for KeServer {
        fn drop(&mut self) {
            self.task.abort();
        }
    }
}

use ke::Answer;

// ---------------------------------------------------------------------------------------------
// record alphabet
// ---------------------------------------------------------------------------------------------
struct Rec {
    c: char,
    name: Option<&'static str>,
    port: Option<u16>,
}

const RECS: [Rec; 9] = [
    Rec { c: 'A', name: Some("127.0.0.1"), port: Some(123) },
    Rec { c: 'B', name: Some("127.0.0.2"), port: Some(123) },
    Rec { c: 'C', name: Some("127.0.0.3"), port: Some(123) },
    Rec { c: 'D', name: Some("localhost"), port: Some(123) },
    Rec { c: 'P', name: Some("127.0.0.1"), port: Some(124) },
    Rec { c: 'X', name: Some("unresolvable.invalid"), port: Some(123) },
    Rec { c: 'N', name: None, port: None },
    Rec { c: 'Q', name: Some("127.0.0.2"), port: Some(124) },
    Rec { c: 'L', name: Some("LOCALHOST"), port: Some(123) },
];
const QUICK_RECS: usize = 7;
/// the KE server name of the rig (what the certificate says)
const KE_NAME: &str = "localhost";

fn rec_of(c: char) -> Option<usize> {
    RECS.iter().position(|r| r.c == c)
}

fn answer_of(i: usize) -> Answer {
    Answer::Hand(RECS[i].name.map(str::to_string), RECS[i].port)
}

fn tail_answers() -> Vec<Answer> {
    (1..=5).map(|k| Answer::Hand(Some(format!("127.0.0.10{k}")), Some(123))).collect()
}

/// The socket addresses a handed-out record may legitimately resolve to (harness' own resolution,
/// only used for the `source-address-not-handed-out` sanity class).
fn resolutions(a: &Answer) -> Vec<SocketAddr> {
    let Answer::Hand(name, port) = a else { return vec![] };
    let name = name.clone().unwrap_or_else(|| KE_NAME.to_string());
    let port = port.unwrap_or(123);
    if let Ok(ip) = name.parse::<IpAddr>() {
        return vec![SocketAddr::new(ip, port)];
    }
    (name.as_str(), port).to_socket_addrs().map(|i| i.collect()).unwrap_or_default()
}

fn answer_label(a: &Answer) -> String {
    match a {
        Answer::Refuse => "F".to_string(),
        Answer::Hand(name, port) => {
            if let Some(r) = RECS.iter().find(|r| r.name.map(str::to_string) == *name && r.port == *port) {
                r.c.to_string()
            } else {
                format!("Z({}:{})", name.clone().unwrap_or_default(), port.unwrap_or(0))
            }
        }
    }
}

// ---------------------------------------------------------------------------------------------
// events, traces
// ---------------------------------------------------------------------------------------------
#[derive(Clone, Debug, PartialEq, Eq)]
enum Ev {
    /// record indices; `refuse_last`: one more connection is refused after them
    Spawn(Vec<usize>, bool),
    Remove(usize, u8),
}

fn reason_of(r: u8) -> SourceRemovalReason {
    match r {
        0 => SourceRemovalReason::Demobilized,
        1 => SourceRemovalReason::NetworkIssue,
        _ => SourceRemovalReason::Unreachable,
    }
}

fn ev_str(e: &Ev) -> String {
    match e {
        Ev::Spawn(w, f) => format!("S:{}{}", w.iter().map(|i| RECS[*i].c).collect::<String>(), if *f { "F" } else { "" }),
        Ev::Remove(i, r) => format!("R:{}:{}", i, ['D', 'N', 'U'][*r as usize]),
    }
}

fn trace_str(count: usize, srv: bool, evs: &[Ev]) -> String {
    let mut s = format!("count={count}{}", if srv { ";srv=1" } else { "" });
    for e in evs {
        s.push(';');
        s.push_str(&ev_str(e));
    }
    s
}

fn parse_trace(t: &str) -> Option<(usize, bool, Vec<Ev>)> {
    let mut parts = t.trim().split(';');
    let count: usize = parts.next()?.strip_prefix("count=")?.parse().ok()?;
    let mut evs = Vec::new();
    let mut srv = false;
    for p in parts {
        if p == "srv=1" {
            srv = true;
            continue;
        }
        if let Some(w) = p.strip_prefix("S:") {
            let (w, f) = match w.strip_suffix('F') {
                Some(x) => (x, true),
                None => (w, false),
            };
            evs.push(Ev::Spawn(w.chars().map(rec_of).collect::<Option<_>>()?, f));
        } else if let Some(r) = p.strip_prefix("R:") {
            let (i, r) = r.split_once(':')?;
            let r = match r {
                "D" => 0,
                "N" => 1,
                "U" => 2,
                _ => return None,
            };
            evs.push(Ev::Remove(i.parse().ok()?, r));
        } else if !p.is_empty() {
            return None;
        }
    }
    Some((count, srv, evs))
}

/// All spawn events for a round in which `m` sources are missing, over the first `k` records.
fn spawn_events(k: usize, m: usize) -> Vec<Ev> {
    let mut v = Vec::new();
    for len in 0..=m {
        for w in common::product(k, len) {
            // a full-length word, or a shorter one followed by a refused connection
            v.push(Ev::Spawn(w, len < m));
        }
    }
    v
}

// ---------------------------------------------------------------------------------------------
// search state (plain data; the one spawner object of a worker is put into it before each step)
// ---------------------------------------------------------------------------------------------
#[derive(Clone, Debug)]
struct St {
    count: usize,
    /// `enable_srv_resolution`
    srv: bool,
    /// the spawner's `known_resolutions` (SRV mode), in order
    known: Vec<(SocketAddr, Option<String>)>,
    /// the spawner's `current_sources`: (local id, remembered name), in order
    cur: Vec<(u32, String)>,
    /// harness ledger, creation order: (local id, name the spawner remembered it under, address)
    active: Vec<(u32, String, SocketAddr)>,
    next_id: u32,
    complete: bool,
    evs: Vec<Ev>,
    violated: bool,
}

type Key = (usize, bool, Vec<(SocketAddr, Option<String>)>, Vec<(String, bool)>, Vec<(String, SocketAddr, bool)>);

fn key_of(s: &St) -> Key {
    let cur = s
        .cur
        .iter()
        .map(|(id, n)| (n.clone(), s.active.iter().any(|a| a.0 == *id)))
        .collect();
    let mut act: Vec<(String, SocketAddr, bool)> = s
        .active
        .iter()
        .map(|(id, n, a)| (n.clone(), *a, s.cur.iter().any(|c| c.0 == *id)))
        .collect();
    act.sort();
    (s.count, s.srv, s.known.clone(), cur, act)
}

fn root(count: usize, srv: bool) -> St {
    St { count, srv, known: vec![], cur: vec![], active: vec![], next_id: 0, complete: count == 0, evs: vec![], violated: false }
}

fn active_str(s: &St) -> String {
    s.active.iter().map(|(_, n, a)| format!("{n}->{a}")).collect::<Vec<_>>().join(", ")
}

// ---------------------------------------------------------------------------------------------
// per-worker rig
// ---------------------------------------------------------------------------------------------
struct Rig {
    rt: tokio::runtime::Runtime,
    ke: ke::KeServer,
    /// one long-lived spawner per count (index = count)
    sps: BTreeMap<(usize, bool), NtsPoolSpawner>,
    tx: mpsc::Sender<SpawnEvent>,
    rx: mpsc::Receiver<SpawnEvent>,
}

impl Rig {
    fn new() -> Rig {
        let rt = tokio::runtime::Builder::new_current_thread().enable_all().build().expect("runtime");
        let ke = rt.block_on(async { ke::KeServer::start(tokio::time::Instant::now()).await });
        let (tx, rx) = mpsc::channel(crate::daemon::system::MESSAGE_BUFFER_SIZE);
        Rig { rt, ke, sps: BTreeMap::new(), tx, rx }
    }

    fn spawner(&mut self, count: usize, srv: bool) -> &mut NtsPoolSpawner {
        let port = self.ke.port;
        self.sps.entry((count, srv)).or_insert_with(|| {
            NtsPoolSpawner::new(
                NtsPoolSourceConfig {
                    addr: NtsKeAddress(NormalizedAddress::new_from_parts(KE_NAME, port)),
                    enable_srv_resolution: srv,
                    certificate_authorities: ke::test_ca(),
                    count,
                    ntp_version: ProtocolVersion::V4,
                },
                SourceConfig::default(),
            )
            .expect("NtsPoolSpawner::new")
        })
    }
}

/// Rigs are expensive (listener, key set, TLS client configuration): they are kept in a pool and
/// leased by the worker threads of every BFS level; a worker without work never builds one.
struct Lease<'a> {
    rig: Option<Rig>,
    pool: &'a Mutex<Vec<Rig>>,
}

impl Lease<'_> {
    fn get(&mut self) -> &mut Rig {
        if self.rig.is_none() {
            let pooled = self.pool.lock().unwrap().pop();
            self.rig = Some(pooled.unwrap_or_else(Rig::new));
        }
        self.rig.as_mut().expect("rig")
    }
}

impl Drop for Lease<'_> {
    fn drop(&mut self) {
        if let Some(r) = self.rig.take() {
            self.pool.lock().unwrap().push(r);
        }
    }
}

#[derive(Default)]
struct StepObs {
    created: Vec<SocketAddr>,
    conns: Vec<ke::Conn>,
    panic: Option<String>,
    hung: bool,
    /// created sources whose address no record handed out in this round resolves to
    foreign: Vec<SocketAddr>,
    without_keys: usize,
}

/// A search state together with the `ClockId`s its sources have in the live spawner object.
struct Live {
    st: St,
    ids: HashMap<u32, ClockId>,
}

/// Bring the worker's long-lived spawner for `count` back to "no sources" through its public
/// interface only: every source it still remembers is reported removed.
fn reset(rig: &mut Rig, count: usize, srv: bool) {
    rig.spawner(count, srv);
    let Rig { rt, sps, rx, .. } = rig;
    let sp = sps.get_mut(&(count, srv)).expect("spawner");
    let (view, _) = probe::view(sp);
    for (id, _) in view {
        let _ = common::catch(|| rt.block_on(sp.handle_source_removed(SourceRemovedEvent { id, reason: SourceRemovalReason::NetworkIssue })));
    }
    while rx.try_recv().is_ok() {}
    let (view, known) = probe::view(sp);
    if !view.is_empty() || !known.is_empty() {
        // the spawner did not forget everything it was told is gone (only with a broken removal
        // handler): start from a brand-new object instead
        sps.remove(&(count, srv));
        rig.spawner(count, srv);
    }
}

/// Apply `e` to the live spawner (calls into the real code) and update state + ledger.
fn step(rig: &mut Rig, live: &mut Live, e: &Ev) -> StepObs {
    let mut obs = StepObs::default();
    let count = live.st.count;
    let srv = live.st.srv;
    let Rig { rt, ke, sps, tx, rx } = rig;
    let sp = sps.get_mut(&(count, srv)).expect("spawner");
    let n = &mut live.st;
    n.evs.push(e.clone());
    match e {
        Ev::Spawn(w, refuse_last) => {
            let mut q: Vec<Answer> = w.iter().map(|i| answer_of(*i)).collect();
            if *refuse_last {
                q.push(Answer::Refuse);
            }
            ke.set_script(q, tail_answers());
            let r = common::catch(|| {
                rt.block_on(async { tokio::time::timeout(std::time::Duration::from_secs(60), sp.try_spawn(tx)).await })
            });
            match r {
                Ok(Ok(Ok(()))) => {}
                Ok(Ok(Err(err))) => obs.panic = Some(format!("try_spawn returned Err({err}) (the spawner task would end)")),
                Ok(Err(_)) => obs.hung = true,
                Err(p) => obs.panic = Some(p),
            }
            // let the KE server task finish logging its last connection
            rt.block_on(async {
                for _ in 0..4 {
                    tokio::task::yield_now().await;
                }
            });
            obs.conns = ke.take_log();
            let mut created: Vec<(ClockId, SocketAddr)> = Vec::new();
            while let Ok(ev) = rx.try_recv() {
                let SpawnAction::Create(params) = ev.action;
                if let SourceCreateParameters::Ntp(p) = params {
                    if p.nts.is_none() {
                        obs.without_keys += 1;
                    }
                    created.push((p.id, p.addr));
                }
            }
            let handed: Vec<SocketAddr> = obs.conns.iter().flat_map(|c| resolutions(&c.answer)).collect();
            let (view, known) = probe::view(sp);
            n.known = known;
            let mut to_local: HashMap<ClockId, u32> = live.ids.iter().map(|(l, c)| (*c, *l)).collect();
            let all_ids: Vec<ClockId> = view.iter().map(|(c, _)| *c).chain(created.iter().map(|(c, _)| *c)).collect();
            for cid in all_ids {
                if !to_local.contains_key(&cid) {
                    to_local.insert(cid, n.next_id);
                    live.ids.insert(n.next_id, cid);
                    n.next_id += 1;
                }
            }
            n.cur = view.iter().map(|(c, name)| (to_local[c], name.clone())).collect();
            for (cid, addr) in created {
                let name = view.iter().find(|(c, _)| *c == cid).map(|(_, n)| n.clone()).unwrap_or_else(|| "?".to_string());
                n.active.push((to_local[&cid], name, addr));
                obs.created.push(addr);
                if !handed.contains(&addr) {
                    obs.foreign.push(addr);
                }
            }
            n.complete = sp.is_complete();
        }
        Ev::Remove(i, r) => {
            if *i >= n.active.len() {
                obs.panic = Some(format!("harness: no active source #{i} to remove (history did not replay identically)"));
                return obs;
            }
            let (lid, _, _) = n.active.remove(*i);
            let ev = SourceRemovedEvent { id: live.ids[&lid], reason: reason_of(*r) };
            let r = common::catch(|| rt.block_on(sp.handle_source_removed(ev)));
            match r {
                Ok(Ok(())) => {}
                Ok(Err(err)) => obs.panic = Some(format!("handle_source_removed returned Err({err})")),
                Err(p) => obs.panic = Some(p),
            }
            let (view, known) = probe::view(sp);
            n.known = known;
            let to_local: HashMap<ClockId, u32> = live.ids.iter().map(|(l, c)| (*c, *l)).collect();
            n.cur = view.iter().map(|(c, name)| (to_local.get(c).copied().unwrap_or(u32::MAX), name.clone())).collect();
            n.complete = sp.is_complete();
        }
    }
    obs
}

/// Re-create search state `s` on the worker's spawner by re-executing its history from the root
/// (public interface only — no private field of the spawner is ever written), then apply `e`.
/// `Err` = the re-executed history did not lead to `s` again (the code under test or the rig is
/// not deterministic).
fn apply(rig: &mut Rig, s: &St, e: &Ev) -> Result<(St, StepObs, u64), String> {
    reset(rig, s.count, s.srv);
    let mut live = Live { st: root(s.count, s.srv), ids: HashMap::new() };
    let mut replayed = 0u64;
    for h in &s.evs {
        let o = step(rig, &mut live, h);
        replayed += o.conns.len() as u64;
    }
    if key_of(&live.st) != key_of(s) {
        return Err(format!("history {} led to [{}] before and to [{}] now", trace_str(s.count, s.srv, &s.evs), active_str(s), active_str(&live.st)));
    }
    let obs = step(rig, &mut live, e);
    Ok((live.st, obs, replayed))
}

/// The statement's invariants on the ledger.
fn judge(s: &St, obs: &StepObs) -> Vec<(&'static str, String)> {
    let mut out = Vec::new();
    if let Some(p) = &obs.panic {
        out.push(("C35:nts-pool-panic", format!("spawner failed: {p}")));
    }
    if obs.hung {
        out.push(("C35:nts-pool-round-hung", "try_spawn did not return within 60 s of real time".to_string()));
    }
    if s.active.len() > s.count {
        out.push((
            "C35:nts-pool-over-count",
            format!("{} active sources [{}] for count={}", s.active.len(), active_str(s), s.count),
        ));
    }
    let mut by_name: BTreeMap<&str, usize> = BTreeMap::new();
    let mut by_addr: BTreeMap<SocketAddr, Vec<&str>> = BTreeMap::new();
    for (_, n, a) in &s.active {
        *by_name.entry(n.as_str()).or_insert(0) += 1;
        by_addr.entry(*a).or_default().push(n.as_str());
    }
    if let Some((n, k)) = by_name.iter().find(|(_, k)| **k > 1) {
        out.push((
            "C35:nts-pool-duplicate-active-server",
            format!("{k} active sources for the server the KE server calls {n:?}; active = [{}], count={}", active_str(s), s.count),
        ));
    }
    for (a, names) in &by_addr {
        let mut d = names.clone();
        d.sort();
        d.dedup();
        if names.len() > 1 && d.len() > 1 {
            out.push((
                "C35:nts-pool-duplicate-active-address",
                format!("{} active sources poll the same server address {a} (handed out under the names {d:?}); active = [{}], count={}", names.len(), active_str(s), s.count),
            ));
        }
    }
    for a in &obs.foreign {
        out.push((
            "C35:nts-pool-source-address-not-handed-out",
            format!("source created for {a}, which no record handed out in this round ({}) resolves to", obs.conns.iter().map(|c| answer_label(&c.answer)).collect::<Vec<_>>().join(",")),
        ));
    }
    out
}

// ---------------------------------------------------------------------------------------------
// level-synchronous parallel BFS
// ---------------------------------------------------------------------------------------------
struct Stats {
    states: u64,
    transitions: u64,
    max_depth: u64,
    fixpoint: bool,
}

fn explore(ctx: &Ctx, roots: Vec<St>, nrecs: usize, max_depth: u64) -> Stats {
    let mut seen: HashSet<Key> = HashSet::new();
    let mut frontier: Vec<St> = Vec::new();
    for r in roots {
        if seen.insert(key_of(&r)) {
            frontier.push(r);
        }
    }
    let mut stats = Stats { states: 0, transitions: 0, max_depth: 0, fixpoint: false };
    let mut depth = 0u64;
    let mut sample_tick = 0u64;
    let pool: Mutex<Vec<Rig>> = Mutex::new(Vec::new());
    while !frontier.is_empty() && depth < max_depth {
        if ctx.over_budget() {
            ctx.cap_hit(&format!("depth {} not started (budget); all histories of <= {} events complete", depth + 1, depth));
            break;
        }
        let mut jobs: Vec<(usize, Ev)> = Vec::new();
        for (si, s) in frontier.iter().enumerate() {
            if s.violated {
                continue;
            }
            if !s.complete {
                let m = s.count.saturating_sub(s.cur.len()).max(1);
                for e in spawn_events(nrecs, m) {
                    jobs.push((si, e));
                }
            } else {
                ctx.inc("states_complete");
            }
            for i in 0..s.active.len() {
                for r in 0..3u8 {
                    jobs.push((si, Ev::Remove(i, r)));
                }
            }
        }
        let results: Mutex<Vec<Option<Result<(St, StepObs, u64), String>>>> = Mutex::new((0..jobs.len()).map(|_| None).collect());
        common::par_for_with(
            jobs.len() as u64,
            4,
            || Lease { rig: None, pool: &pool },
            |lease, j| {
                let (si, e) = &jobs[j as usize];
                let r = apply(lease.get(), &frontier[*si], e);
                results.lock().unwrap()[j as usize] = Some(r);
            },
        );
        let results = results.into_inner().unwrap();
        let mut next = Vec::new();
        for (j, r) in results.into_iter().enumerate() {
            let e = &jobs[j].1;
            let (mut n, obs, replayed) = match r.expect("job result") {
                Ok(x) => x,
                Err(msg) => {
                    ctx.violation("C35:harness-nondeterminism", msg, trace_str(frontier[jobs[j].0].count, frontier[jobs[j].0].srv, &frontier[jobs[j].0].evs));
                    continue;
                }
            };
            ctx.add("ke_connections_replaying_history", replayed);
            stats.transitions += 1;
            ctx.inc("evaluations");
            match e {
                Ev::Spawn(..) => {
                    ctx.inc("spawn_rounds");
                    ctx.inc(&format!("rounds_creating_{}", obs.created.len()));
                    ctx.add("sources_created", obs.created.len() as u64);
                    ctx.add("ke_connections", obs.conns.len() as u64);
                    ctx.add("ke_connections_beyond_the_word", obs.conns.iter().filter(|c| !c.scripted).count() as u64);
                    ctx.add("ke_exchanges_completed", obs.conns.iter().filter(|c| c.result.is_ok()).count() as u64);
                    ctx.add("ke_connections_refused", obs.conns.iter().filter(|c| c.answer == Answer::Refuse).count() as u64);
                    let handed_ok = obs.conns.iter().filter(|c| c.result.is_ok()).count();
                    ctx.add("ke_records_not_turned_into_a_source", (handed_ok - obs.created.len().min(handed_ok)) as u64);
                    ctx.add("sources_created_without_nts_keys", obs.without_keys as u64);
                }
                Ev::Remove(_, r) => {
                    ctx.inc("removals");
                    ctx.inc(&format!("removals_reason_{}", ['D', 'N', 'U'][*r as usize]));
                }
            }
            if n.active.len() == n.count {
                ctx.inc("transitions_into_full_pool");
            }
            let verdicts = judge(&n, &obs);
            if !verdicts.is_empty() {
                n.violated = true;
                let tr = trace_str(n.count, n.srv, &n.evs);
                for (class, what) in verdicts {
                    ctx.violation(class, what, tr.clone());
                }
            }
            ctx.distinct(common::hash_of(&key_of(&n)));
            if n.evs.len() >= 3 && !obs.created.is_empty() && n.evs.iter().any(|e| matches!(e, Ev::Remove(..))) {
                sample_tick += 1;
                if sample_tick % 97 == 1 {
                    ctx.sample(format!("{} => active [{}]", trace_str(n.count, n.srv, &n.evs), active_str(&n)));
                }
            }
            if seen.insert(key_of(&n)) {
                next.push(n);
            }
        }
        depth += 1;
        if !next.is_empty() {
            stats.max_depth = depth;
        }
        frontier = next;
    }
    stats.fixpoint = frontier.is_empty();
    stats.states = seen.len() as u64;
    stats
}

fn replay(ctx: &Ctx, trace: &str) -> String {
    let Some((count, srv, evs)) = parse_trace(trace) else {
        return format!("unparsable trace {trace:?}");
    };
    let mut rig = Rig::new();
    let mut s = root(count, srv);
    let mut out = String::new();
    for e in &evs {
        if let Ev::Remove(i, _) = e {
            if *i >= s.active.len() {
                out.push_str(&format!("{} -> no such active source; stop", ev_str(e)));
                break;
            }
        }
        if let Ev::Spawn(..) = e {
            if s.complete {
                out.push_str(&format!("{} -> skipped (spawner complete, the task would not call try_spawn) | ", ev_str(e)));
                continue;
            }
        }
        let (n, obs, _) = match apply(&mut rig, &s, e) {
            Ok(x) => x,
            Err(msg) => {
                out.push_str(&format!("NONDETERMINISTIC: {msg}"));
                break;
            }
        };
        out.push_str(&format!(
            "{} -> KE connections [{}] created [{}] active [{}] spawner remembers [{}] | ",
            ev_str(e),
            obs.conns.iter().map(|c| format!("{}{}", answer_label(&c.answer), if c.result.is_ok() { "" } else { "!" })).collect::<Vec<_>>().join(","),
            obs.created.iter().map(|a| a.to_string()).collect::<Vec<_>>().join(","),
            active_str(&n),
            n.cur.iter().map(|c| c.1.clone()).collect::<Vec<_>>().join(",")
        ));
        for (class, what) in judge(&n, &obs) {
            ctx.violation(class, what.clone(), trace);
            out.push_str(&format!("VIOLATION {class}: {what} | "));
        }
        s = n;
    }
    out
}

#[test]
fn check() {
    let ctx = Ctx::new("C35");
    if let Some(t) = common::replay_trace() {
        let a = replay(&ctx, &t);
        let b = replay(&ctx, &t);
        common::report_replay("C35", &a, &b, ctx.violation_count() > 0);
        return;
    }
    let quick = ctx.quick();
    let nrecs = if quick { QUICK_RECS } else { RECS.len() };
    let max_count = if quick { 3 } else { 4 };
    let depth = 8u64;
    ctx.rule(&format!(
        "NTS pool part of C35: explicit-state BFS on the real NtsPoolSpawner (enable_srv_resolution=false) from roots count in 1..={max_count}; \
         events: S:<w> = one spawn round (enabled when !is_complete(), as spawner_task does) in which a real local NTS-KE server (loopback TCP + TLS 1.3, \
         ntp-proto's KeyExchangeServer) answers the successive connections with the records of w — ALL words over the {nrecs} records \
         {{{}}} of length m = missing sources, and all shorter words followed by a refused connection; further connections get fresh records; \
         R:<i>:<r> = removal of active source i for reason r in {{D,N,U}}; depth <= {depth} or fixpoint. A state is distinct by (count, the spawner's \
         current_sources names in order, the ledger of active (name, address) pairs); non-trivial = reached by >= 1 event. Violating states are reported, not expanded.",
        RECS[..nrecs].iter().map(|r| format!("{}={}:{}", r.c, r.name.unwrap_or("<none>"), r.port.map_or("-".to_string(), |p| p.to_string()))).collect::<Vec<_>>().join(", ")
    ));
    ctx.assume("the KE server named in the pool configuration is the harness' server on loopback (certificate CN/SAN localhost from ntpd/test-keys, trusted through certificate_authorities); the names it hands out are resolved by the real tokio::net::lookup_host (NormalizedAddress::new_from_parts has no cfg(test) DNS stub): IP literals, localhost via /etc/hosts, *.invalid unresolvable");
    ctx.assume("the system reports a removal only for a source it created from this spawner's SpawnEvent and reports it once (system.rs removes the source from its table before notifying)");
    ctx.assume("NtsPoolSourceConfig has no ignore list, so the statement's third clause has nothing to be checked against here");
    ctx.assume("NOT exercised: enable_srv_resolution=true (SRV lookups through hickory need a DNS server), a KE server that neither answers nor closes (NTS_TIMEOUT branch: 5 s of real time per connection), a full action channel");

    let mut roots: Vec<St> = (1..=max_count).map(|c| root(c, false)).collect();
    if !quick {
        // SRV mode whose SRV lookup finds nothing and falls back to the direct lookup of the KE
        // server name (what the crate's own test `allow_srv_direct_name_resolution` relies on)
        roots.extend((1..=3).map(|c| root(c, true)));
    }
    ctx.set("roots", roots.len() as u64);
    ctx.set("records", nrecs as u64);
    let st = explore(&ctx, roots, nrecs, depth);
    ctx.set("states", st.states);
    ctx.set("transitions", st.transitions);
    ctx.set("max_depth", st.max_depth);
    ctx.set("fixpoint_reached", st.fixpoint as u64);
    ctx.note(
        "bound",
        &if st.fixpoint {
            format!("frontier emptied at depth {}: every history of ANY length over this alphabet stays inside the {} explored states (violating states are not expanded)", st.max_depth, st.states)
        } else {
            format!("all histories of <= {} events (deduplicated on the state key)", st.max_depth)
        },
    );

    // determinism: replay a handful of fixed traces twice
    for t in ["count=2;S:AB;R:0:N;S:C;R:1:U;S:X", "count=3;S:ABF;S:P;R:0:D;S:BF", "count=1;S:X;S:B;R:0:D;S:B"] {
        let tmp = Ctx::new("C35");
        let a = replay(&tmp, t);
        let b = replay(&tmp, t);
        ctx.inc("determinism_replays");
        if a != b {
            ctx.violation("C35:harness-nondeterminism", format!("two replays differ: {a} vs {b}"), t);
        }
    }
    ctx.exhaustive(ctx.get("fixpoint_reached") == 1 || st.max_depth >= depth);
    ctx.finish();
}
