#[cfg(any(not(verif_select), verif_gl))] #[path = "/verif/harness/ntpd/gl_probe_pool.rs"] pub(crate) mod gl;
