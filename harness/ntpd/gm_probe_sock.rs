//! gm probe for `ntpd::daemon::sock_source` (C40): read-only access to the private sample
//! decoder. Only calls `deserialize_sample` and copies its result out.
use super::super::{SOCK_MAGIC, SOCK_SAMPLE_SIZE, SampleError, deserialize_sample};

/// What the code under test believes (reported as a note only; the harness oracle uses the
/// gpsd wire format, not these).
pub(crate) const CODE_SAMPLE_SIZE: usize = SOCK_SAMPLE_SIZE;
pub(crate) const CODE_MAGIC: i32 = SOCK_MAGIC;

#[derive(Debug, Clone, PartialEq, Eq)]
pub(crate) enum Decoded {
    Sample {
        offset_bits: u64,
        pulse: i32,
        leap: i32,
        magic: i32,
    },
    Rejected(&'static str),
}

/// `claimed`: `Ok(n)` = what `recv` returned, `Err(())` = an I/O error from `recv`.
pub(crate) fn decode(claimed: Result<usize, ()>, buf: [u8; SOCK_SAMPLE_SIZE]) -> Decoded {
    let r = claimed.map_err(|()| std::io::Error::other("harness: recv failed"));
    match deserialize_sample(r, buf) {
        Ok(s) => Decoded::Sample {
            offset_bits: s.offset.to_bits(),
            pulse: s.pulse,
            leap: s.leap,
            magic: s.magic,
        },
        Err(SampleError::IOError(_)) => Decoded::Rejected("io"),
        Err(SampleError::SliceError(_)) => Decoded::Rejected("slice"),
        Err(SampleError::WrongSize(_)) => Decoded::Rejected("size"),
        Err(SampleError::WrongMagic(_)) => Decoded::Rejected("magic"),
        Err(SampleError::WrongPulse(_)) => Decoded::Rejected("pulse"),
        #[allow(unreachable_patterns)]
        Err(_) => Decoded::Rejected("other"),
    }
}
