#[cfg(any(not(verif_select), verif_gl))] #[path = "/verif/harness/ntpd/gl_probe_config_source.rs"] pub(crate) mod gl;
#[cfg(any(not(verif_select), verif_gt))] #[path = "/verif/harness/ntpd/gt_probe_config_source.rs"] pub(crate) mod gt;
