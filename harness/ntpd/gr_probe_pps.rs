//! Group gr probe (child of `ntpd::daemon::pps_source::verif_probe`).
//!
//! `PpsSourceTask` has private fields and a private `run`, and its only constructor (`spawn`)
//! opens a real PPS character device. A child module sees the private items of its ancestors, so
//! this probe builds the task value exactly as `spawn` does — except that the receiving end of the
//! fetch channel is handed in by the harness instead of being fed by `PpsDeviceFetchTask` — and
//! returns the REAL `run` loop as a future. Nothing of the loop body is copied or re-implemented:
//! the `Measurement` is constructed by the code in `pps_source.rs`.
use std::path::PathBuf;

use ntp_proto::{ClockId, OneWaySource, SourceController};
use tokio::sync::mpsc;

use super::super::PpsSourceTask;
use crate::daemon::ntp_source::SourceChannels;

/// The event type the fetch thread hands to the task (what `PpsDevice::fetch_blocking` returns).
pub(crate) type FetchData = pps_time::pps::pps_fdata;

/// The real `PpsSourceTask::run` loop over a harness-fed fetch channel. Never completes (the loop
/// has no exit); the harness aborts the tokio task it runs in.
pub(crate) async fn run_task<C: SourceController>(
    index: ClockId,
    path: PathBuf,
    channels: SourceChannels,
    source: OneWaySource<C>,
    fetch_receiver: mpsc::Receiver<FetchData>,
) {
    let mut task = PpsSourceTask {
        index,
        channels,
        path,
        source,
        fetch_receiver,
    };
    task.run().await;
}
