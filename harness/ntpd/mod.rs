//! Harness root for `ntpd` (compiled into its unit-test binary under
//! `--cfg pendulum_project_ntpd_rs_verif`). See /verif/harness/README.md.
#![allow(dead_code, unused_imports, unused_variables, unused_macros, unused_mut)]
#![allow(clippy::all, clippy::pedantic)]

extern crate std;

#[path = "/verif/harness/common/mod.rs"]
pub(crate) mod common;

/// Run `f` inside a fresh current-thread tokio runtime whose clock is paused.
pub(crate) fn block_on_paused<T>(f: impl std::future::Future<Output = T>) -> T {
    let rt = tokio::runtime::Builder::new_current_thread()
        .enable_all()
        .start_paused(true)
        .build()
        .expect("runtime");
    rt.block_on(f)
}

#[cfg(any(not(verif_select), verif_gi))]
mod c27;
#[cfg(any(not(verif_select), verif_gl))]
mod c35;
#[cfg(any(not(verif_select), verif_gl))]
mod c36;
#[cfg(any(not(verif_select), verif_gm))]
mod c38;
#[cfg(any(not(verif_select), verif_gm))]
mod c39;
#[cfg(any(not(verif_select), verif_gm))]
mod c40;
#[cfg(any(not(verif_select), verif_gf))]
mod c21;
#[cfg(any(not(verif_select), verif_gm))]
mod c05;
#[cfg(any(not(verif_select), verif_gq))]
mod c15;
#[cfg(any(not(verif_select), verif_gq))]
mod c16;
#[cfg(any(not(verif_select), verif_gq))]
mod c22;
#[cfg(any(not(verif_select), verif_gr))]
mod c35_nts;
#[cfg(any(not(verif_select), verif_gr))]
mod c36_nts;
#[cfg(any(not(verif_select), verif_gr))]
mod c05_pps;
#[cfg(any(not(verif_select), verif_gs))]
mod c08_task;
#[cfg(any(not(verif_select), verif_gs))]
mod c09_task;
#[cfg(any(not(verif_select), verif_gs))]
mod c10_task;
#[cfg(any(not(verif_select), verif_gs))]
mod c11_task;
#[cfg(any(not(verif_select), verif_gr))]
mod c12_nts;
#[cfg(any(not(verif_select), verif_gt))]
mod c36_system;
#[cfg(any(not(verif_select), verif_gt))]
mod c11_system;
