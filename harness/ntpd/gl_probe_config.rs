//! Group gl probe (child of `ntpd::daemon::config::verif_probe`). `config::ntp_source` is a private
//! module of `config` and `config`'s own `verif_probe` shadows the glob re-export of
//! `ntp_source::verif_probe`, so the DNS-script probe is re-exported here to make it nameable from
//! the harness root as `crate::daemon::config::verif_probe::gl::dns`.
pub(crate) use super::super::ntp_source::verif_probe::gl as dns;
