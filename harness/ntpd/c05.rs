//! C05 (ntpd part) — one-way sources report offset = remote time minus local time.
//!
//! (The two-way formulas and the one-way *wrapper* are checked in ntp_proto/c05.rs by group gb;
//! this file checks the daemon-side construction of the one-way `Measurement`s.)
//!
//! GPSd / chrony SOCK protocol: `sample.offset = reference time - system time` (gpsd
//! timehint.c `TS_SUB(&offset, &td->real, &td->clock)`, chrony refclock_sock.c
//! `ref = sys + offset`). `OneWaySourceControllerWrapper` feeds the filter with
//! `sender_ts - receiver_ts` ("remote - local"). So the `Measurement` built from a sample must
//! satisfy  receiver_ts == clock.now()  and  sender_ts - receiver_ts == +sample.offset.
//!
//! Engine E-IN over the real `SockSourceTask` (C40's socket rig: real `UnixDatagram`, constant
//! mock clock, recording `SourceController`, sentinel sample after every datagram):
//!   clock value (incl. both NTP era edges) x every finite boundary offset (both signs; sub-unit,
//!   1 unit, ns .. 1e5 s, 2^k for k = -34..=33, values around the NtpDuration saturation
//!   2^31 s, 1e300, f64::MAX, subnormals) x leap {0,1,2,3}.
//! Oracle: an integer reference `clamp(floor(offset * 2^32), i64::MIN, i64::MAX)` (exact: the
//! product is a power-of-two scaling) and  |measured - reference| <= 2 units, where measured is
//! read with exact comparisons against durations built from raw bits. 2 units = 1 for
//! `NtpDuration::from_seconds` (which scales the fraction by 2^32-1) + 1 for rounding direction.
//!
//! There is no direct-level variant: `deserialize_sample` only copies the offset out of the
//! datagram, the conversion to timestamps happens inside `SockSourceTask::run`.
//!
//! PPS: `PpsSourceTask`'s fields and `run` are private to `pps_source.rs`, that file has no
//! probe include, and `spawn` opens a real PPS device (ioctl), so its `Measurement`
//! construction cannot be driven here. Only the helper it uses for both timestamps
//! (`util::convert_unix_timestamp`) is checked: receiver(sec, nsec) - sender(sec, 0) == nsec.
use std::path::PathBuf;

use ntp_proto::{Measurement, NtpDuration, NtpLeapIndicator, NtpTimestamp};

use super::c40::{MAGIC, Rig, SAMPLE_SIZE, sample_bytes};
use super::common::{self, Ctx};
use crate::daemon::util::convert_unix_timestamp;

// --- exact construction / reading of fixed-point values (public arithmetic only) -----------

fn mk_ts(v: u64) -> NtpTimestamp {
    let mut t = NtpTimestamp::default();
    for b in 0..63u32 {
        if (v >> b) & 1 == 1 {
            t += NtpDuration::from_exponent(b as i8 - 32);
        }
    }
    if v >> 63 == 1 {
        t += NtpDuration::from_exponent(30);
        t += NtpDuration::from_exponent(30);
    }
    t
}

fn mk_dur(v: i64) -> NtpDuration {
    mk_ts(v as u64) - NtpTimestamp::default()
}

/// Raw units of a duration, by binary search with exact comparisons.
fn units_of(d: NtpDuration) -> i64 {
    let (mut lo, mut hi) = (i64::MIN as i128, i64::MAX as i128);
    while lo < hi {
        let mid = (lo + hi + 1).div_euclid(2);
        if mk_dur(mid as i64) <= d { lo = mid } else { hi = mid - 1 }
    }
    lo as i64
}

/// floor(offset * 2^32) clamped to i64 (offset finite). Exact: scaling by a power of two.
fn reference_units(offset: f64) -> i64 {
    let x = (offset * 4_294_967_296.0).floor();
    if x >= 9.223_372_036_854_775_807e18 {
        i64::MAX
    } else if x <= -9.223_372_036_854_775_808e18 {
        i64::MIN
    } else {
        x as i64
    }
}

fn self_test() -> Result<(), String> {
    for v in [0i64, 1, -1, 1 << 32, -(1 << 32), i64::MAX, i64::MIN, 0x0123_4567_89ab_cdef] {
        if units_of(mk_dur(v)) != v {
            return Err(format!("units_of(mk_dur({v})) = {}", units_of(mk_dur(v))));
        }
    }
    if mk_dur(i64::MAX) != NtpDuration::MAX || mk_dur(0) != NtpDuration::ZERO {
        return Err("mk_dur constants".into());
    }
    if mk_ts((17u64 << 32) + (1 << 31)) != NtpTimestamp::from_seconds_nanos_since_ntp_era(17, 500_000_000) {
        return Err("mk_ts vs from_seconds_nanos_since_ntp_era".into());
    }
    for (o, want) in [(0.5, 1i64 << 31), (-0.5, -(1i64 << 31)), (1e300, i64::MAX), (-1e300, i64::MIN), (2f64.powi(-33), 0), (-2f64.powi(-33), -1)] {
        if reference_units(o) != want {
            return Err(format!("reference_units({o}) = {}", reference_units(o)));
        }
    }
    Ok(())
}

// --- alphabets ----------------------------------------------------------------------------------

fn clocks(thorough: bool) -> Vec<u64> {
    let mut v = vec![
        0xE875_4700_4000_0000, // 2023-ish, .25 s (the clock C40 uses)
        0xFFFF_FFFF_F000_0000, // a fraction of a second before the era ends
        0x0000_0000_1000_0000, // just after an era began
        0x8000_0000_0000_0000, // mid era
    ];
    if thorough {
        v.extend([0, u64::MAX, 0x7FFF_FFFF_FFFF_FFFF, 0xFFFF_FFFE_0000_0001]);
    }
    v
}

fn offsets(thorough: bool) -> Vec<f64> {
    let mut m: Vec<f64> = vec![
        0.0,
        f64::MIN_POSITIVE,
        f64::from_bits(1),
        1e-12,
        1e-9,
        1e-6,
        1e-3,
        0.1,
        0.5,
        0.999_999_999_9,
        1.0,
        1.000_000_000_1,
        1.5,
        17.25,
        1e3,
        86_400.0,
        1e5,
        318_975.704_798_661,
        1e6,
        31_557_600.0,
        2_147_483_646.75,
        2_147_483_647.0,
        2_147_483_647.5,
        2_147_483_647.999_999_8,
        2_147_483_648.0,
        2_147_483_648.000_000_5,
        2_147_483_649.0,
        4_294_967_296.0,
        1e10,
        1e18,
        9.3e18,
        1e300,
        f64::MAX,
    ];
    for k in -34..=33 {
        m.push(2f64.powi(k));
        if thorough {
            for f in [1.25, 1.5, 1.75, 1.999_999_9, 1.000_000_1] {
                m.push(2f64.powi(k) * f);
            }
        }
    }
    let mut v = Vec::with_capacity(m.len() * 2);
    for x in m {
        v.push(x);
        v.push(-x);
    }
    v
}

const LEAPS: [i32; 4] = [0, 1, 2, 3];

fn scratch_dir() -> PathBuf {
    PathBuf::from(format!("/verif/work/c05-{}", std::process::id()))
}

// --- GPSd ----------------------------------------------------------------------------------------

fn fmt_m(m: &Measurement) -> String {
    format!(
        "sender-receiver={} units ({:e} s) leap={:?}",
        units_of(m.sender_ts - m.receiver_ts),
        (m.sender_ts - m.receiver_ts).to_seconds(),
        m.leap
    )
}

fn gpsd_case(ctx: &Ctx, rig: &mut Rig, clock: u64, offset_bits: u64, leap: i32) -> String {
    let trace = format!("gpsd:{clock:016x}:{offset_bits:016x}:{leap}");
    let offset = f64::from_bits(offset_bits);
    let dgram: [u8; SAMPLE_SIZE] = sample_bytes(offset_bits, 0, leap, MAGIC);
    ctx.add("transitions", 2);
    let got = match rig.run_case(&dgram) {
        Ok(ms) => ms,
        Err(e) => {
            rig.stalls += 1;
            ctx.violation("C05:gpsd-task-crashed", format!("SockSourceTask stopped working: {e}"), trace);
            return format!("stalled: {e}");
        }
    };
    let [m] = got.as_slice() else {
        ctx.violation(
            "C05:gpsd-sample-not-measured",
            format!("well-formed finite sample (offset {offset:?}) produced {} measurements", got.len()),
            trace,
        );
        return format!("{} measurements", got.len());
    };
    ctx.inc("gpsd_measurements");
    ctx.inc(match m.leap {
        NtpLeapIndicator::NoWarning => "gpsd_leap_nowarning",
        NtpLeapIndicator::Leap61 => "gpsd_leap_61",
        NtpLeapIndicator::Leap59 => "gpsd_leap_59",
        _ => "gpsd_leap_unknown",
    });
    if m.receiver_ts != mk_ts(clock) {
        ctx.violation(
            "C05:gpsd-receiver-ts-not-now",
            format!("receiver_ts {:?} is not the local clock reading {:?} (sample offset {offset:?})", m.receiver_ts, mk_ts(clock)),
            trace.clone(),
        );
    }
    let want = reference_units(offset);
    let measured = units_of(m.sender_ts - m.receiver_ts);
    let diff = |a: i64, b: i64| (a as i128 - b as i128).abs();
    let saturated = want == i64::MAX || want == i64::MIN;
    ctx.inc(if saturated {
        "gpsd_outcome_saturated"
    } else if want.unsigned_abs() <= 2 {
        "gpsd_outcome_sub_resolution"
    } else if want > 0 {
        "gpsd_outcome_positive"
    } else {
        "gpsd_outcome_negative"
    });
    if diff(measured, want) > 2 {
        // what the opposite convention would give (local - remote)
        let inverted = reference_units(-offset);
        let inverted_alt = (want as i128).checked_neg().map_or(i64::MAX, |x| x.clamp(i64::MIN as i128, i64::MAX as i128) as i64);
        let class = if diff(measured, inverted) <= 2 || diff(measured, inverted_alt) <= 2 {
            "C05:gpsd-offset-sign-inverted"
        } else {
            "C05:gpsd-offset-value"
        };
        ctx.violation(
            class,
            format!(
                "sample.offset (reference - system) = {offset:?} s = {want} units, but the measurement has sender_ts - receiver_ts (remote - local) = {measured} units ({:e} s)",
                (m.sender_ts - m.receiver_ts).to_seconds()
            ),
            trace,
        );
    }
    format!("want={want} {}", fmt_m(m))
}

fn run_gpsd(ctx: &Ctx) {
    let thorough = !ctx.quick();
    let offs = offsets(thorough);
    let dir = scratch_dir();
    for (ci, clock) in clocks(thorough).into_iter().enumerate() {
        let mut rig = Rig::new_in(&dir, &format!("clock{ci}.sock"), mk_ts(clock));
        // canonical minimal cases first
        let mut order: Vec<f64> = vec![0.5, -0.5, 1.0];
        order.extend(offs.iter().copied());
        for (oi, o) in order.iter().enumerate() {
            for leap in LEAPS {
                if oi < 3 && leap != 0 {
                    continue;
                }
                if rig.stalls >= 3 {
                    ctx.inc("gpsd_cases_skipped_after_stall");
                    continue;
                }
                let obs = gpsd_case(ctx, &mut rig, clock, o.to_bits(), leap);
                ctx.inc("evaluations");
                ctx.inc("gpsd_cases");
                ctx.distinct(common::hash_of(&("gpsd", clock, o.to_bits(), leap)));
                if ci == 0 && oi < 3 || (ci <= 1 && leap == 1 && (*o == 86_400.0 || *o == -1e300 || *o == -2f64.powi(-33))) {
                    ctx.sample(format!("gpsd clock={clock:#018x} offset={o:?} leap={leap} -> {obs}"));
                }
            }
        }
    }
    std::fs::remove_dir_all(&dir).ok();
    std::fs::remove_dir("/verif/work").ok();
}

// --- PPS helper ----------------------------------------------------------------------------------

fn pps_case(ctx: &Ctx, sec: u64, nsec: u32) -> String {
    let trace = format!("pps:{sec}:{nsec}");
    ctx.add("transitions", 2);
    let r = common::catch(|| (convert_unix_timestamp(sec, 0), convert_unix_timestamp(sec, nsec)));
    let (sender, receiver) = match r {
        Ok(x) => x,
        Err(p) => {
            ctx.violation("C05:pps-timestamp-panic", format!("convert_unix_timestamp({sec}, {nsec}) panicked: {p}"), trace);
            return format!("panic: {p}");
        }
    };
    // remote (the pulse marks the whole second) - local (when the system clock saw it) = -nsec
    let want = -((((nsec as u128) << 32) / 1_000_000_000) as i64);
    let measured = units_of(sender - receiver);
    if (measured as i128 - want as i128).abs() > 1 {
        ctx.violation(
            "C05:pps-offset",
            format!("pulse at second {sec} seen at +{nsec} ns: remote - local should be {want} units, timestamps give {measured}"),
            trace,
        );
    }
    format!("want={want} measured={measured}")
}

fn run_pps(ctx: &Ctx) {
    let secs: [u64; 9] = [0, 1, 1_700_000_000, 2_085_978_495, 2_085_978_496, 2_085_978_497, u32::MAX as u64, u32::MAX as u64 + 1, u64::MAX];
    let nsecs: [u32; 9] = [0, 1, 2, 499_999_999, 500_000_000, 500_000_001, 999_999_998, 999_999_999, 250_000_000];
    for s in secs {
        for n in nsecs {
            let obs = pps_case(ctx, s, n);
            ctx.inc("evaluations");
            ctx.inc("pps_helper_cases");
            ctx.distinct(common::hash_of(&("pps", s, n)));
            if n == 250_000_000 && (s == 2_085_978_496 || s == 1_700_000_000) {
                ctx.sample(format!("pps helper sec={s} nsec={n} -> {obs}"));
            }
        }
    }
}

fn replay(ctx: &Ctx, trace: &str) -> String {
    let p: Vec<&str> = trace.split(':').collect();
    match p.as_slice() {
        ["gpsd", clock, bits, leap] => {
            let (Ok(clock), Ok(bits), Ok(leap)) = (u64::from_str_radix(clock, 16), u64::from_str_radix(bits, 16), leap.parse::<i32>()) else {
                return format!("unparseable trace {trace:?}");
            };
            let dir = scratch_dir();
            let mut rig = Rig::new_in(&dir, "replay.sock", mk_ts(clock));
            let r = gpsd_case(ctx, &mut rig, clock, bits, leap);
            drop(rig);
            std::fs::remove_dir_all(&dir).ok();
            std::fs::remove_dir("/verif/work").ok();
            r
        }
        ["pps", sec, nsec] => match (sec.parse(), nsec.parse()) {
            (Ok(s), Ok(n)) => pps_case(ctx, s, n),
            _ => format!("unparseable trace {trace:?}"),
        },
        _ => format!("unparseable trace {trace:?}"),
    }
}

#[test]
fn check() {
    let ctx = Ctx::new("C05");
    if let Some(t) = common::replay_trace() {
        let a = replay(&ctx, &t);
        let b = replay(&ctx, &t);
        common::report_replay("C05", &a, &b, ctx.violation_count() > 0);
        return;
    }
    ctx.rule(
        "ntpd part of C05 (one-way sources). GPSd: 4 (thorough 8) mock-clock readings incl. both NTP era edges x every finite boundary \
         offset (both signs: 0, subnormals, 1e-12 .. 1e6 s, 2^k for k=-34..=33 (thorough x 6 mantissas), 9 values around the 2^31 s \
         saturation point, 2^32, 1e10, 1e18, 9.3e18, 1e300, f64::MAX) x leap {0,1,2,3}, each sent as a well-formed 40-byte sample over a \
         real UnixDatagram to the real SockSourceTask and delimited by a sentinel sample. PPS: the timestamp helper used by \
         PpsSourceTask over 9 seconds values (incl. the 2036 era edge, 2^32, 2^64-1) x 9 nanosecond values. Distinct & non-trivial = \
         a distinct (clock, offset, leap) / (sec, nsec).",
    );
    ctx.assume("GPSd/chrony SOCK protocol: sample.offset = reference (remote) time - system (local) time, in seconds");
    ctx.assume("the filter offset of a one-way source is Measurement.sender_ts - Measurement.receiver_ts (OneWaySourceControllerWrapper, checked by ntp_proto/c05.rs)");
    ctx.assume("Unix datagrams from one connected sender are delivered in order (sentinel delimiting); the clock handed to the task is constant");
    ctx.assume("offsets whose magnitude is <= 2 units of 2^-32 s cannot show a sign; offsets beyond +-2^31 s must saturate to NtpDuration MAX / MIN");
    ctx.assume("PPS: PpsSourceTask (private fields, private run, no probe include in pps_source.rs, spawn needs a real PPS device) cannot be driven; only util::convert_unix_timestamp, which it uses for sender_ts (sec, 0) and receiver_ts (sec, nsec), is checked. Needed hook to do better: a verif_probe include at the end of ntpd/src/daemon/pps_source.rs");
    if let Err(e) = self_test() {
        ctx.violation("C05:harness-self-test", e, "self_test");
    }
    run_gpsd(&ctx);
    run_pps(&ctx);
    if ctx.get("gpsd_cases_skipped_after_stall") > 0 {
        ctx.cap_hit("GPSd sweep abandoned for some clock after 3 task stalls");
    }
    ctx.set("states", ctx.get("evaluations"));
    ctx.exhaustive(ctx.get("gpsd_cases_skipped_after_stall") == 0);
    ctx.finish();
}
