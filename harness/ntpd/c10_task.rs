//! C10 (daemon level, group gs): every datagram the REAL source task puts on the wire carries a
//! poll exponent within [min, max(max, server-requested)], and the duration the task hands to
//! its poll timer after sending with exponent p lies in [1.01, 1.05] * 2^p s — exactly once per
//! poll. Two parts:
//!  * part M (manual timer): the shared exploration of `c11_task.rs` with the alphabet that
//!    moves the poll interval (RATE, NTPv5 answers asking for max+2, valid, none);
//!  * part S (real `tokio::time::Sleep`): `SourceTask::spawn` — the production entry point, with
//!    its handling of the initial actions and the real `impl Wait for Sleep` — on a paused
//!    clock. The harness advances virtual time to just below 1.01 * 2^p after a poll and checks
//!    that the task's timer branch has NOT run, then to just above 1.05 * 2^p and checks that it
//!    has; the first poll must leave at virtual time 0 (initial `SetTimer(0)`).
#![allow(dead_code)]

use std::collections::HashMap;
use std::net::SocketAddr;
use std::sync::atomic::{AtomicU32, Ordering};
use std::sync::{Arc, Mutex, RwLock};
use std::time::Duration;

use ntp_proto::{
    ClockId, NtpManager, ObservableSourceState, PollInterval, PollIntervalLimits, ProtocolVersion,
    SourceConfig, SynchronizationConfig,
};

use super::c11_task::{self as rig, Atom, Case, Cfg, Io, Kind, MsgKind, Plan, Ts, Ver, Worker, cfg, plan};
use super::common::{self, Ctx};
use crate::daemon::config::TimestampMode;
use crate::daemon::ntp_source::{SourceChannels, SourceTask};

fn replay(ctx: &Ctx, trace: &str) -> String {
    if let Some(t) = trace.strip_prefix("S;") {
        let Some(case) = Case::parse(t) else {
            return format!("unparsable trace {trace:?}");
        };
        let mut w = match Worker::new() {
            Ok(w) => w,
            Err(e) => return format!("worker: {e}"),
        };
        let o = spawn_case(&mut w, &case);
        judge_spawn(ctx, &case, &o);
        return o.text;
    }
    rig::replay_case(ctx, "C10", trace)
}

// ---------------------------------------------------------------------------------------
// part S: SourceTask::spawn with the real Sleep
// ---------------------------------------------------------------------------------------

#[derive(Default, Debug)]
struct SpawnObs {
    /// per poll: (exponent on the wire, timer branch ran before 1.01*2^p - 1 ms, ran by 1.05*2^p + 1 ms)
    polls: Vec<(i8, bool, bool)>,
    /// virtual time at which the first request was seen
    first_at: Option<Duration>,
    msgs: Vec<MsgKind>,
    finished: bool,
    problem: Option<String>,
    /// a real-time dead-man expired
    deadman: bool,
    text: String,
}

async fn rounds(n: usize) {
    for _ in 0..n {
        tokio::task::yield_now().await;
    }
}

async fn spawn_drive(io: &mut Io, case: &Case) -> SpawnObs {
    let mut o = SpawnObs::default();
    let mut buf = [0u8; 2048];
    for sock in [&io.server, &io.alt_ip, &io.alt_port] {
        while sock.recv_from(&mut buf).is_ok() {}
    }
    let c = case.cfg;
    let limits = PollIntervalLimits {
        min: PollInterval::from_byte(c.min as u8),
        max: PollInterval::from_byte(c.max as u8),
    };
    let source_config = SourceConfig { poll_interval_limits: limits, initial_poll_interval: limits.min };
    let pv = match c.ver {
        Ver::V4 => ProtocolVersion::V4,
        Ver::V5 => ProtocolVersion::V5,
        Ver::Auto => ProtocolVersion::v4_upgrading_to_v5_with_default_tries(),
    };
    let index = ClockId::new();
    let rec = Arc::new(Mutex::new(rig::Rec::default()));
    let clock = Arc::new(AtomicU32::new(0));
    let snaps: Arc<RwLock<HashMap<ClockId, ObservableSourceState>>> = Arc::new(RwLock::new(HashMap::new()));
    let (tx, mut rx) = tokio::sync::mpsc::channel(32);
    let manager = NtpManager::new(SynchronizationConfig::default(), Arc::new([]));
    let (source, initial) =
        manager.new_source(io.server_addr, source_config, pv, rig::rec_ctl(rec.clone(), PollInterval::from_byte(c.des as u8)), None, index);
    let start = tokio::time::Instant::now();
    let timer0 = io.log.timer.load(Ordering::SeqCst);
    // the production entry point
    let join = SourceTask::spawn(
        index,
        "verif".to_string(),
        io.server_addr,
        None,
        rig::SeqClock(clock.clone()),
        match c.ts {
            Ts::Sw => TimestampMode::Software,
            Ts::Kr => TimestampMode::KernelRecv,
            Ts::Ka => TimestampMode::KernelAll,
        },
        SourceChannels { msg_for_system_sender: tx, source_snapshots: snaps.clone() },
        source,
        initial,
    );
    let dead = rig::deadman();
    let total = case.script.len() + rig::TAIL;
    let mut timer_seen = timer0;
    'polls: for i in 0..total {
        let none: Vec<Atom> = Vec::new();
        let reaction = case.script.get(i).unwrap_or(&none).clone();
        // the timer branch must have run once more (i == 0: at virtual time 0, without any advance)
        let t0 = std::time::Instant::now();
        let mut n = 0u32;
        let req = loop {
            tokio::task::yield_now().await;
            match io.server.recv_from(&mut buf) {
                Ok((len, from)) => {
                    if let Some(r) = rig::parse_req(&buf[..len], from, 0) {
                        break Some(r);
                    }
                }
                Err(_) => {}
            }
            while let Ok(m) = rx.try_recv() {
                o.msgs.push(rig::msg_kind(&m, index));
            }
            if !o.msgs.is_empty() || join.is_finished() {
                break None;
            }
            n += 1;
            rig::backoff(n);
            if t0.elapsed() > dead {
                o.deadman = true;
                o.problem = Some(format!("poll #{}: timer ran but no datagram, no message", i + 1));
                break None;
            }
        };
        let Some(req) = req else { break 'polls };
        if i == 0 {
            o.first_at = Some(tokio::time::Instant::now().duration_since(start));
        }
        timer_seen += 1;
        if io.log.timer.load(Ordering::SeqCst) != timer_seen {
            o.problem = Some(format!(
                "poll #{}: {} timer events, expected {}",
                i + 1,
                io.log.timer.load(Ordering::SeqCst) - timer0,
                timer_seen - timer0
            ));
            break;
        }
        // scripted answers + sentinel
        let recv0 = io.log.recv.load(Ordering::SeqCst);
        let mut n_answers = 0u64;
        for atom in &reaction {
            let kind = match atom {
                Atom::V => Some(Kind::Valid),
                Atom::R => Some(Kind::Rate),
                Atom::D => Some(Kind::Deny),
                Atom::Q | Atom::J | Atom::G | Atom::H => Some(Kind::ValidAsking(atom.asks(c.max).unwrap_or(c.max))),
                _ => None,
            };
            if let Some(k) = kind {
                let serial = io.next_serial();
                let _ = io.server.send_to(&rig::build_answer(&req, k, serial), req.from);
                n_answers += 1;
            }
        }
        let (size, before) = match io.send_sentinel(req.from) {
            Ok(x) => x,
            Err(e) => {
                o.problem = Some(e);
                break;
            }
        };
        let t0 = std::time::Instant::now();
        let mut n = 0u32;
        // done when the sentinel's log line appeared, or (a task that does not log short
        // datagrams) when as many datagrams were taken as were sent
        while !(io.sentinel_seen(size, before) || io.log.recv.load(Ordering::SeqCst) - recv0 >= n_answers + 1) {
            tokio::task::yield_now().await;
            n += 1;
            rig::backoff(n);
            if t0.elapsed() > dead || join.is_finished() {
                o.deadman = t0.elapsed() > dead;
                o.problem = Some(format!("poll #{}: sentinel never consumed", i + 1));
                break 'polls;
            }
        }
        // the real Sleep: not before 1.01 * 2^p, not after 1.05 * 2^p
        let unit = rig::two_pow_ns(req.poll);
        let lo = Duration::from_nanos((unit * 101 / 100) as u64);
        let hi = Duration::from_nanos((unit * 105 / 100) as u64);
        let ms = Duration::from_millis(1);
        tokio::time::advance(lo - ms).await;
        rounds(8).await;
        let early = io.log.timer.load(Ordering::SeqCst) != timer_seen;
        let mut fired = early;
        if !early {
            tokio::time::advance(hi - lo + ms + ms).await;
            rounds(8).await;
            fired = io.log.timer.load(Ordering::SeqCst) != timer_seen;
        }
        o.polls.push((req.poll, early, fired));
        if !fired {
            // it will never come within the statement's bound; do not wait for it
            break;
        }
    }
    while let Ok(m) = rx.try_recv() {
        o.msgs.push(rig::msg_kind(&m, index));
    }
    rounds(4).await;
    o.finished = join.is_finished();
    join.abort();
    rounds(4).await;
    o.text = format!(
        "S;{} => first@{:?} polls {:?} msgs {:?} finished {} {}",
        case.trace(),
        o.first_at,
        o.polls,
        o.msgs.iter().map(|m| format!("{m:?}")).collect::<Vec<_>>(),
        o.finished,
        o.problem.clone().unwrap_or_default()
    );
    o
}

fn spawn_case(w: &mut Worker, case: &Case) -> SpawnObs {
    let Worker { rt, io, .. } = w;
    rt.block_on(spawn_drive(io, case))
}

fn judge_spawn(ctx: &Ctx, case: &Case, o: &SpawnObs) {
    let trace = format!("S;{}", case.trace());
    if let Some(p) = &o.problem {
        ctx.violation("C10:task-spawn-irregular", format!("{p} [{}]", o.text), trace.clone());
        return;
    }
    match o.first_at {
        Some(d) if d.is_zero() => ctx.inc("spawn.first_poll_at_time_zero"),
        Some(d) => ctx.violation(
            "C10:task-spawn-first-poll-delayed",
            format!("first poll left at virtual time {d:?}, the initial action is SetTimer(0) [{}]", o.text),
            trace.clone(),
        ),
        None => ctx.violation("C10:task-spawn-no-first-poll", o.text.clone(), trace.clone()),
    }
    for (i, (p, early, fired)) in o.polls.iter().enumerate() {
        if *early {
            ctx.violation(
                "C10:task-sleep-fires-early",
                format!("poll #{} exponent {p}: the timer branch ran before 1.01*2^{p} s - 1 ms [{}]", i + 1, o.text),
                trace.clone(),
            );
        } else if !*fired {
            ctx.violation(
                "C10:task-sleep-fires-late",
                format!("poll #{} exponent {p}: the timer branch had not run at 1.05*2^{p} s + 1 ms [{}]", i + 1, o.text),
                trace.clone(),
            );
        } else {
            ctx.inc("spawn.sleep_in_range");
        }
    }
    if o.msgs.len() == 1 && o.finished {
        ctx.inc("spawn.ended_with_one_report");
    } else {
        ctx.violation(
            "C10:task-spawn-no-clean-end",
            format!("after {} silent polls: messages {:?}, finished {} [{}]", rig::TAIL, o.msgs, o.finished, o.text),
            trace,
        );
    }
}

fn part_s(ctx: &Ctx) {
    let quick = ctx.quick();
    let mut plans: Vec<Plan> = Vec::new();
    let len = if quick { 3 } else { 5 };
    plans.push(plan(cfg(Ver::V4, 4, 10, Ts::Kr), "VR", 1, len));
    plans.push(plan(cfg(Ver::V4, 4, 4, Ts::Ka), "VR", 1, len - 1));
    plans.push(plan(cfg(Ver::V5, 4, 6, Ts::Sw), "VRQ", 1, len - 1));
    plans.push(plan(cfg(Ver::Auto, 0, 17, Ts::Kr), "VR", 1, len - 1));
    // the longest intervals: exponent 17 configured, 18 and 20 asked for by an NTPv5 server
    plans.push(plan(cfg(Ver::V4, 17, 17, Ts::Sw), "VR", 1, 2));
    plans.push(plan(Cfg { des: 17, ..cfg(Ver::V4, 10, 17, Ts::Kr) }, "VR", 1, 2));
    plans.push(plan(cfg(Ver::V4, 15, 17, Ts::Sw), "VR", 1, len));
    plans.push(plan(cfg(Ver::V5, 4, 10, Ts::Sw), "VGHJ", 1, 2));
    plans.push(plan(cfg(Ver::V5, 17, 17, Ts::Kr), "VGHJ", 1, 2));
    let mut offsets = Vec::new();
    let mut reacts = Vec::new();
    let mut total = 0u64;
    for p in &plans {
        offsets.push(total);
        let r = rig::reactions(&p.atoms, p.per_poll);
        total += common::pow(r.len(), p.polls);
        reacts.push(r);
    }
    ctx.set("spawn.cases_planned", total);
    let stuck = std::sync::atomic::AtomicU64::new(0);
    common::par_for_with(
        total,
        2,
        || Worker::new().ok(),
        |w, idx| {
            let Some(w) = w.as_mut() else {
                ctx.inc("cases_not_run");
                return;
            };
            if stuck.load(Ordering::SeqCst) >= 3 {
                ctx.inc("cases_not_run");
                return;
            }
            let pi = offsets.partition_point(|o| *o <= idx) - 1;
            let plan = &plans[pi];
            let word = common::word_of(idx - offsets[pi], reacts[pi].len(), plan.polls);
            let case = Case { cfg: plan.cfg, script: word.iter().map(|i| reacts[pi][*i].clone()).collect() };
            let o = spawn_case(w, &case);
            if o.deadman && stuck.fetch_add(1, Ordering::SeqCst) == 2 {
                ctx.cap_hit("part S: three dead-man expiries, the remaining spawned cases were not run");
                ctx.exhaustive(false);
            }
            ctx.inc("spawn.cases");
            ctx.inc("evaluations");
            ctx.add("transitions", o.polls.len() as u64 * 3);
            ctx.add("spawn.polls", o.polls.len() as u64);
            for (p, _, _) in &o.polls {
                ctx.max("spawn.largest_exponent", (*p).max(0) as u64);
                if *p >= 17 {
                    ctx.inc("spawn.polls_at_exponent_17_or_more");
                }
            }
            ctx.distinct(common::hash_of(&o.text));
            if idx % 29 == 0 {
                ctx.sample(o.text.clone());
            }
            judge_spawn(ctx, &case, &o);
        },
    );
}

#[test]
fn check() {
    let ctx = Ctx::new("C10");
    if let Some(t) = common::replay_trace() {
        let a = replay(&ctx, &t);
        let b = replay(&ctx, &t);
        common::report_replay("C10", &a, &b, ctx.violation_count() > 0);
        return;
    }
    ctx.rule("part M: every script of exactly n polls with at most k datagrams per poll over {V valid, R RATE, Q/J/G/H (v5) valid asking for max+2 / max+1 / 18 / 20, D DENY, U unknown KISS} against the real SourceTask::run with a harness-fired timer, for poll limits {4-10 default, 4-4, 4-6, 0-17, 6-6, 10-17, 17-17} and every controller desire min..=max for 0-17, 10-17, 17-17, 4-10, plus the RATE ladders 4->10, 10->17, 0->17; part S: scripts over {V, R, Q, J, G, H} against SourceTask::spawn with the real Sleep on a paused clock incl. exponents 17, 18, 20; distinct = canonical observation differs");
    rig::common_assumptions(&ctx);
    ctx.assume("part S decides 'the timer branch has not run' 8 scheduler rounds after virtual time was advanced to 1 ms below the bound: a tokio timer that is due is woken by the advance itself, no network is involved");
    let quick = ctx.quick();
    let alpha = "VRQDU";
    let len = if quick { 5 } else { 7 };
    let mut plans = Vec::new();
    for (c, l) in [
        (cfg(Ver::V4, 4, 10, Ts::Kr), len + 1),
        (cfg(Ver::V4, 4, 4, Ts::Sw), len),
        (cfg(Ver::V4, 4, 6, Ts::Ka), len),
        (cfg(Ver::V4, 0, 17, Ts::Sw), len),
        (cfg(Ver::V4, 10, 17, Ts::Sw), len),
        (cfg(Ver::V5, 4, 10, Ts::Kr), if quick { len + 1 } else { len }),
        (cfg(Ver::V5, 6, 6, Ts::Sw), len),
        (cfg(Ver::V5, 4, 6, Ts::Sw), len),
        (cfg(Ver::Auto, 4, 10, Ts::Ka), len),
    ] {
        plans.push(plan(c, alpha, 1, l));
    }
    // two datagrams per poll (RATE twice, RATE then valid, ...)
    plans.push(plan(cfg(Ver::V4, 4, 10, Ts::Sw), "VR", 2, if quick { 4 } else { 5 }));
    plans.push(plan(cfg(Ver::V5, 4, 10, Ts::Sw), "VRQ", 2, if quick { 3 } else { 4 }));
    // the whole RATE ladder 4 -> 10 and past it; 10 -> 17 and past it; 0 -> 17
    plans.push(plan(cfg(Ver::V4, 4, 10, Ts::Sw), "RV", 1, if quick { 9 } else { 12 }));
    plans.push(plan(cfg(Ver::V4, 10, 17, Ts::Sw), "RV", 1, if quick { 9 } else { 11 }));
    plans.push(plan(cfg(Ver::V4, 0, 17, Ts::Kr), "R", 2, 9));
    // every exponent min..=max as the controller's own desire
    for (min, max) in [(0i8, 17i8), (10, 17), (17, 17), (4, 10)] {
        for des in min..=max {
            plans.push(plan(Cfg { des, ..cfg(Ver::V4, min, max, Ts::Sw) }, "VR", 1, 3));
            plans.push(plan(Cfg { des, ..cfg(Ver::V5, min, max, if des % 2 == 0 { Ts::Kr } else { Ts::Ka }) }, "VRJGH", 1, if quick { 2 } else { 3 }));
        }
    }
    // NTPv5 server requests above the configured maximum: max+1, max+2, 18, 20
    plans.push(plan(cfg(Ver::V5, 4, 10, Ts::Sw), "VRQJGH", 1, if quick { 4 } else { 5 }));
    plans.push(plan(cfg(Ver::V5, 10, 17, Ts::Sw), "VRQJGH", 1, if quick { 3 } else { 4 }));
    plans.push(plan(cfg(Ver::V5, 17, 17, Ts::Kr), "VRQJGH", 1, if quick { 3 } else { 4 }));
    rig::explore(&ctx, "C10", &plans);
    part_s(&ctx);
    ctx.finish();
}
