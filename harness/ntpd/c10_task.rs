//! c10_task (ntpd): not implemented yet.
