//! C09 (daemon level, group gs): what the REAL source task does with kiss-o'-death answers.
//! DENY / RSTR to a plain source: no message to the system task, the task keeps polling, and
//! only when the source also becomes unreachable it reports `MustDemobilize` (never
//! `Unreachable`); without a deny since the last usable answer it reports `Unreachable`.
//! RATE: the next poll exponent on the wire is not smaller than the one just used (and one step
//! longer until the maximum), and the value handed to the poll timer is >= 1.01 * 2^floor.
//! Unknown KISS: nothing observable changes. A KISS never keeps a usable answer that arrives
//! after it in the same poll from being used. Rig, reference and driver: `c11_task.rs`.
#![allow(dead_code)]

use super::c11_task::{self as rig, Cfg, Ts, Ver, cfg, plan};
use super::common::{self, Ctx};

fn replay(ctx: &Ctx, trace: &str) -> String {
    rig::replay_case(ctx, "C09", trace)
}

#[test]
fn check() {
    let ctx = Ctx::new("C09");
    if let Some(t) = common::replay_trace() {
        let a = replay(&ctx, &t);
        let b = replay(&ctx, &t);
        common::report_replay("C09", &a, &b, ctx.violation_count() > 0);
        return;
    }
    ctx.rule("every script of exactly n polls (shorter scripts are their prefixes: silence follows anyway) in which the scripted UDP server reacts to each poll with any sequence of at most k datagrams, in every order, over {V valid, D DENY, S RSTR (v4), R RATE, U unknown KISS, O wrong origin, Q (v5) valid asking for max+2}, played against the real SourceTask::run, then silent polls until the task gives up; controller desire = min, and = max for the RATE ladders; distinct = canonical observation differs");
    rig::common_assumptions(&ctx);
    ctx.assume("a KISS answer does not consume the pending request: a second RATE in the same poll counts as a second RATE, a valid answer after a KISS in the same poll is usable (the statement is silent; only lower bounds are derived from it)");
    let quick = ctx.quick();
    let alpha = "VDSRUOQ";
    let mut plans = Vec::new();
    // up to two datagrams per poll, every order
    plans.push(plan(cfg(Ver::V4, 4, 10, Ts::Kr), alpha, 2, if quick { 2 } else { 3 }));
    plans.push(plan(cfg(Ver::V5, 4, 6, Ts::Sw), alpha, 2, 2));
    plans.push(plan(cfg(Ver::Auto, 4, 10, Ts::Ka), "VDRU", 2, 2));
    plans.push(plan(cfg(Ver::V4, 4, 6, Ts::Sw), "VDR", 2, 3));
    if !quick {
        plans.push(plan(cfg(Ver::V4, 4, 6, Ts::Ka), "VDRU", 3, 2));
    }
    // one datagram per poll
    let n = if quick { 5 } else { 6 };
    for c in [
        cfg(Ver::V4, 4, 10, Ts::Kr),
        cfg(Ver::V4, 4, 4, Ts::Sw),
        cfg(Ver::V4, 4, 6, Ts::Sw),
        cfg(Ver::V5, 4, 10, Ts::Kr),
        cfg(Ver::V5, 4, 6, Ts::Sw),
        cfg(Ver::Auto, 4, 10, Ts::Ka),
    ] {
        plans.push(plan(c, alpha, 1, n));
    }
    if !quick {
        plans.push(plan(cfg(Ver::V4, 4, 10, Ts::Ka), alpha, 1, 7));
    }
    // RATE ladders to the configured maximum and beyond: 4 -> 10 needs six RATE answers
    plans.push(plan(cfg(Ver::V4, 4, 10, Ts::Sw), "RV", 1, if quick { 8 } else { 11 }));
    plans.push(plan(cfg(Ver::V4, 10, 17, Ts::Sw), "RV", 1, if quick { 8 } else { 9 }));
    // the source's own interval is already the longest: RATE must not shorten anything
    plans.push(plan(Cfg { des: 10, ..cfg(Ver::V4, 4, 10, Ts::Sw) }, "RVD", 1, 4));
    plans.push(plan(Cfg { des: 6, ..cfg(Ver::V5, 4, 10, Ts::Sw) }, "RVQ", 1, 4));
    rig::explore(&ctx, "C09", &plans);
    ctx.finish();
}
