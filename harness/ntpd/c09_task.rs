//! C09 (daemon level, group gs): what the REAL source task does with kiss-o'-death answers.
//! DENY / RSTR to a plain source: no message to the system task, the task keeps polling, and
//! only when the source also becomes unreachable it reports `MustDemobilize` (never
//! `Unreachable`); without a deny since the last usable answer it reports `Unreachable`.
//! RATE: the next poll exponent on the wire is not smaller than the one just used (and one step
//! longer until the maximum), and the value handed to the poll timer is >= 1.01 * 2^floor.
//! Unknown KISS: nothing observable changes. Rig, reference and driver: `c11_task.rs`.
#![allow(dead_code)]

use super::c11_task::{self as rig, Plan, Sym, Ts, Ver, cfg};
use super::common::{self, Ctx};

fn replay(ctx: &Ctx, trace: &str) -> String {
    rig::replay_case(ctx, "C09", trace)
}

#[test]
fn check() {
    let ctx = Ctx::new("C09");
    if let Some(t) = common::replay_trace() {
        let a = replay(&ctx, &t);
        let b = replay(&ctx, &t);
        common::report_replay("C09", &a, &b, ctx.violation_count() > 0);
        return;
    }
    ctx.rule("every script of exactly n poll reactions (shorter scripts are their prefixes: silence follows anyway) over {N none, V valid, D DENY, S RSTR (v4), R RATE, U unknown KISS, O wrong origin, Q (v5) valid asking for max+2} played by a scripted UDP server against the real SourceTask::run, then silent polls until the task gives up; distinct = canonical observation differs");
    rig::common_assumptions(&ctx);
    ctx.assume("a KISS answer does not consume the pending request (statement silent; one KISS per poll is sent, so this is not exercised)");
    let quick = ctx.quick();
    let alpha = vec![Sym::N, Sym::V, Sym::D, Sym::S, Sym::R, Sym::U, Sym::O, Sym::Q];
    let len = if quick { 5 } else { 6 };
    let mut plans = Vec::new();
    for c in [
        cfg(Ver::V4, 4, 10, Ts::Kr),
        cfg(Ver::V4, 4, 4, Ts::Sw),
        cfg(Ver::V4, 4, 6, Ts::Sw),
        cfg(Ver::V5, 4, 10, Ts::Kr),
        cfg(Ver::V5, 4, 6, Ts::Sw),
        cfg(Ver::Auto, 4, 10, Ts::Ka),
    ] {
        plans.push(Plan { cfg: c, alphabet: alpha.iter().copied().filter(|s| s.applies(c.ver)).collect(), len });
    }
    if !quick {
        plans.push(Plan { cfg: cfg(Ver::V4, 4, 10, Ts::Ka), alphabet: alpha.iter().copied().filter(|s| s.applies(Ver::V4)).collect(), len: 7 });
    }
    // RATE ladder to the configured maximum and beyond: 4 -> 10 needs six RATE answers
    plans.push(Plan { cfg: cfg(Ver::V4, 4, 10, Ts::Sw), alphabet: vec![Sym::R, Sym::V, Sym::N], len: if quick { 8 } else { 11 } });
    rig::explore(&ctx, "C09", &plans);
    ctx.finish();
}
