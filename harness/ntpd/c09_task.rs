//! c09_task (ntpd): not implemented yet.
