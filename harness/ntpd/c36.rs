//! C36 — Source (re)spawning is paced and follows removal reasons.
//!
//! Engine E-SCHED (timed): the REAL `spawner_task` loop (`ntpd/src/daemon/spawn/mod.rs`) runs as a
//! tokio task on a current-thread runtime with a PAUSED clock; the harness plays the system and
//! sends `SystemEvent`s at scripted instants. Virtual time only moves by tokio's paused-clock
//! auto-advance (the driver sleeps until the next scripted instant; when every task is parked the
//! clock jumps exactly to the earliest pending timer). `tokio::time::advance(250ms)` is deliberately
//! NOT used: it jumps over deadlines lying between two grid points (e.g. the 1.3 s ticket deadline
//! after a 0.3 s attempt) and would make the observed attempt times late by up to one grid step —
//! a harness artefact, not behaviour of the code under test.
//!
//! Part A — scripted spawner (`Scr`, implements the real `Spawner` trait):
//!   script   mode in {C: attempt creates a source and completes the spawner,
//!                     I: attempt creates a source, spawner stays incomplete (a pool wanting more),
//!                     F: attempt creates nothing, spawner stays incomplete (resolution failure)}
//!            x try_spawn duration in {0, 300 ms, 1200 ms};   any removal makes `Scr` incomplete;
//!   schedule n slots on a 250 ms grid shifted by `phase` ms; every slot carries one of
//!            {none, Idle, Registered, Removed(Demobilized), Removed(NetworkIssue), Removed(Unreachable)};
//!            ALL 6^n placements x all phases (phases put events exactly on, 1 ms before and 1 ms
//!            after the instants at which attempts end / tickets are regranted);
//!   quick    n = 5, phases {0,1,50,249};  thorough adds n = 6 x phases {49,51,199,200,201} and
//!            n = 7 x phases {0,1,50,249}.
//!   Oracle (from the statement; `s_i`/`e_i` start/end of attempt i, all in virtual time):
//!     `C36:spawn-too-early`  s_{i+1} - s_i >= 1 s;
//!     `C36:spawn-stalled`    first attempt by 1 s + 1 ms; after an attempt that leaves the spawner
//!                            incomplete s_{i+1} <= e_i + 1 s + 1 ms (= s_i + duration + 1 s + 1 ms);
//!                            after a Removed sent at t: an attempt starts no later than
//!                            max(t, E + 1 s) + 1 ms, E = end of the attempt running at / last
//!                            finished before t (checked when that deadline lies before the horizon);
//!     `C36:event-delivery`   Registered/Removed events reach the spawner's handlers exactly once, in
//!                            order, with the id and reason that were sent (events queued behind an
//!                            attempt that is still running at the horizon may be outstanding);
//!     `C36:task-ended`       the task neither ends nor panics while the system keeps its channel open.
//!
//! Part B — the real `StandardSpawner` under the real `spawner_task` with the scripted DNS stub
//!   (8 pairwise distinct loopback addresses, so every lookup is visible as one rotation of the stub
//!   list and yields a new first address):
//!   schedule n slots on a 500 ms grid (+ phase), slot alphabet as above; Removed applies to the
//!            source that is active at that instant (none active => the slot is a no-op),
//!            Registered hands back the parameters of the last created source;
//!   quick    n = 5, phases {0,1};  thorough adds n = 6, phases {0,1,499}.
//!   Oracle:
//!     `C36:demobilized-respawned`       no source is created after a Demobilized removal;
//!     `C36:unreachable-not-reresolved`  the first source created after an Unreachable removal comes
//!                                       from a lookup performed after that removal (stub rotated,
//!                                       address = first address of that fresh answer);
//!     `C36:spawn-too-early` / `C36:spawn-stalled` as above with creations as attempts (every attempt
//!                                       succeeds: the stub always answers and loopback connects).
//!
//! Determinism is asserted: every 61st schedule is executed twice and the observations compared.
use std::net::{IpAddr, Ipv4Addr, SocketAddr};
use std::sync::{Arc, Mutex};
use std::time::Duration;

use ntp_proto::{ClockId, ProtocolVersion, SourceConfig};
use tokio::sync::mpsc;
use tokio::time::Instant;

use super::common::{self, Ctx};
use crate::daemon::config::verif_probe::gl::dns::{self as dnsp, DnsScript};
use crate::daemon::config::StandardSource;
use crate::daemon::spawn::standard::StandardSpawner;
use crate::daemon::spawn::{
    spawner_task, SockSourceCreateParameters, SourceCreateParameters, SourceRemovalReason,
    SourceRemovedEvent, SpawnAction, SpawnEvent, Spawner, SpawnerId, SystemEvent,
};

const MS: u64 = 1000; // microseconds per millisecond; all observation times are in µs
const WAIT: u64 = 1000 * MS; // the statement's "network wait period (one second)"
const SLACK: u64 = MS; // 1 ms timer granularity

fn us(t0: Instant) -> u64 {
    Instant::now().duration_since(t0).as_micros() as u64
}

// ---------------------------------------------------------------------------------------------
// slot alphabet
// ---------------------------------------------------------------------------------------------
const K_NONE: usize = 0;
const K_IDLE: usize = 1;
const K_REG: usize = 2;
const K_RD: usize = 3;
const K_RN: usize = 4;
const K_RU: usize = 5;
const KNAMES: [&str; 6] = ["-", "I", "G", "D", "N", "U"];

fn reason_of(k: usize) -> SourceRemovalReason {
    match k {
        K_RD => SourceRemovalReason::Demobilized,
        K_RN => SourceRemovalReason::NetworkIssue,
        _ => SourceRemovalReason::Unreachable,
    }
}

fn reason_code(r: &SourceRemovalReason) -> usize {
    match r {
        SourceRemovalReason::Demobilized => K_RD,
        SourceRemovalReason::NetworkIssue => K_RN,
        SourceRemovalReason::Unreachable => K_RU,
    }
}

fn slots_str(w: &[usize]) -> String {
    w.iter().map(|k| KNAMES[*k]).collect::<Vec<_>>().join("")
}

fn parse_slots(s: &str) -> Option<Vec<usize>> {
    s.chars()
        .map(|c| KNAMES.iter().position(|n| n.chars().next() == Some(c)))
        .collect()
}

// ---------------------------------------------------------------------------------------------
// Part A: scripted spawner
// ---------------------------------------------------------------------------------------------
#[derive(Clone, Copy, PartialEq, Eq, Debug, Hash)]
enum Mode {
    C,
    I,
    F,
}

#[derive(Clone, Copy, PartialEq, Eq, Debug, Hash)]
struct Script {
    mode: Mode,
    dur_ms: u64,
}

const MODES: [Mode; 3] = [Mode::C, Mode::I, Mode::F];
const DURS: [u64; 3] = [0, 300, 1200];

#[derive(Clone, Debug, PartialEq, Eq, Hash)]
enum Rec {
    TryStart(u64),
    TryEnd(u64),
    Removed(u64, u64, usize), // time, raw id as seen in Debug, reason code
    Registered(u64, u64),
}

#[derive(Debug)]
struct ScrErr;
impl std::fmt::Display for ScrErr {
    fn fmt(&self, f: &mut std::fmt::Formatter<'_>) -> std::fmt::Result {
        write!(f, "scripted spawner error")
    }
}
impl std::error::Error for ScrErr {}

fn id_num(id: ClockId) -> u64 {
    // ClockId(u64) has no public accessor; its Debug form is "ClockId(n)"
    let s = format!("{id:?}");
    s.trim_start_matches("ClockId(").trim_end_matches(')').parse().unwrap_or(u64::MAX)
}

struct Scr {
    id: SpawnerId,
    script: Script,
    complete: bool,
    t0: Instant,
    log: Arc<Mutex<Vec<Rec>>>,
}

fn sock_params() -> SourceCreateParameters {
    SourceCreateParameters::Sock(SockSourceCreateParameters {
        id: ClockId::new(),
        path: "/verif/none".into(),
        config: SourceConfig::default(),
        precision: 1e-3,
        accuracy: 1e-3,
    })
}

impl Spawner for Scr {
    type Error = ScrErr;

    async fn try_spawn(&mut self, action_tx: &mpsc::Sender<SpawnEvent>) -> Result<(), ScrErr> {
        self.log.lock().unwrap().push(Rec::TryStart(us(self.t0)));
        if self.script.dur_ms > 0 {
            tokio::time::sleep(Duration::from_millis(self.script.dur_ms)).await;
        }
        match self.script.mode {
            Mode::C | Mode::I => {
                let _ = action_tx
                    .send(SpawnEvent::new(self.id, SpawnAction::Create(sock_params())))
                    .await;
                if self.script.mode == Mode::C {
                    self.complete = true;
                }
            }
            Mode::F => {}
        }
        self.log.lock().unwrap().push(Rec::TryEnd(us(self.t0)));
        Ok(())
    }

    fn is_complete(&self) -> bool {
        self.complete
    }

    async fn handle_source_removed(&mut self, ev: SourceRemovedEvent) -> Result<(), ScrErr> {
        self.log.lock().unwrap().push(Rec::Removed(us(self.t0), id_num(ev.id), reason_code(&ev.reason)));
        self.complete = false;
        Ok(())
    }

    async fn handle_registered(&mut self, ev: SourceCreateParameters) -> Result<(), ScrErr> {
        self.log.lock().unwrap().push(Rec::Registered(us(self.t0), id_num(ev.get_id())));
        Ok(())
    }

    fn get_id(&self) -> SpawnerId {
        self.id
    }
    fn get_addr_description(&self) -> String {
        "scripted".into()
    }
    fn get_description(&self) -> &'static str {
        "scripted"
    }
}

#[derive(Clone, Debug, PartialEq, Eq, Hash)]
struct ObsA {
    log: Vec<Rec>,
    sends: Vec<(u64, usize, u64)>, // time, kind, id (0 for Idle)
    creates: u64,
    horizon: u64,
    task_finished: Option<String>,
}

async fn run_a(script: Script, phase_ms: u64, slots: &[usize]) -> ObsA {
    let t0 = Instant::now();
    let log = Arc::new(Mutex::new(Vec::new()));
    let scr = Scr {
        id: SpawnerId::new(),
        script,
        complete: false,
        t0,
        log: log.clone(),
    };
    let (action_tx, mut action_rx) = mpsc::channel::<SpawnEvent>(crate::daemon::system::MESSAGE_BUFFER_SIZE);
    let (notify_tx, notify_rx) = mpsc::channel::<SystemEvent>(crate::daemon::system::MESSAGE_BUFFER_SIZE);
    let task = tokio::spawn(spawner_task(scr, action_tx, notify_rx));
    let mut sends = Vec::new();
    let mut creates = 0u64;
    for (k, kind) in slots.iter().enumerate() {
        let at = t0 + Duration::from_millis(phase_ms + 250 * k as u64);
        tokio::time::sleep_until(at).await;
        while action_rx.try_recv().is_ok() {
            creates += 1;
        }
        match *kind {
            K_NONE => {}
            K_IDLE => {
                sends.push((us(t0), K_IDLE, 0));
                let _ = notify_tx.send(SystemEvent::Idle).await;
            }
            K_REG => {
                let p = sock_params();
                sends.push((us(t0), K_REG, id_num(p.get_id())));
                let _ = notify_tx.send(SystemEvent::SourceRegistered(p)).await;
            }
            k => {
                let id = ClockId::new();
                sends.push((us(t0), k, id_num(id)));
                let _ = notify_tx.send(SystemEvent::source_removed(id, reason_of(k))).await;
            }
        }
    }
    let last = phase_ms + 250 * (slots.len().max(1) as u64 - 1);
    let horizon_ms = last + 2 * (1000 + script.dur_ms) + 500;
    tokio::time::sleep_until(t0 + Duration::from_millis(horizon_ms)).await;
    while action_rx.try_recv().is_ok() {
        creates += 1;
    }
    let task_finished = if task.is_finished() {
        Some(match task.await {
            Ok(Ok(())) => "returned Ok".to_string(),
            Ok(Err(e)) => format!("returned Err({e})"),
            Err(e) => format!("join error: {e}"),
        })
    } else {
        task.abort();
        let _ = task.await;
        None
    };
    drop(notify_tx);
    let log = log.lock().unwrap().clone();
    ObsA {
        log,
        sends,
        creates,
        horizon: horizon_ms * MS,
        task_finished,
    }
}

#[derive(Default)]
struct FactsA {
    attempts: u64,
    removal_during_attempt: u64,
    removal_immediate_respawn: u64,
    removal_waited_for_ticket: u64,
    tie_at_start: u64,
    no_verdict_beyond_horizon: u64,
}

/// The statement's oracle for part A. Attempts are read from the spawner-side log, sends from the
/// driver; completeness after an attempt is the script's (harness knowledge), not the code's.
fn judge_a(script: Script, o: &ObsA) -> (Vec<(&'static str, String)>, FactsA) {
    let mut v = Vec::new();
    let mut f = FactsA::default();
    if let Some(t) = &o.task_finished {
        v.push(("C36:task-ended", format!("spawner_task ended while the system channel was open: {t}")));
    }
    // attempts
    let mut att: Vec<(u64, Option<u64>)> = Vec::new();
    for r in &o.log {
        match r {
            Rec::TryStart(t) => att.push((*t, None)),
            Rec::TryEnd(t) => {
                if let Some(l) = att.last_mut() {
                    l.1 = Some(*t);
                }
            }
            _ => {}
        }
    }
    f.attempts = att.len() as u64;
    for w in att.windows(2) {
        if w[1].0 < w[0].0 + WAIT {
            v.push((
                "C36:spawn-too-early",
                format!("attempts started at {} us and {} us: {} us apart, less than the 1 s wait period", w[0].0, w[1].0, w[1].0 - w[0].0),
            ));
        }
    }
    // first attempt
    match att.first() {
        None if o.horizon > WAIT + SLACK => v.push(("C36:spawn-stalled", "incomplete spawner: no attempt at all".to_string())),
        Some((s, _)) if *s > WAIT + SLACK => v.push(("C36:spawn-stalled", format!("first attempt only at {s} us"))),
        _ => {}
    }
    // keeps attempting while incomplete
    if script.mode != Mode::C {
        for i in 0..att.len() {
            if let Some(e) = att[i].1 {
                let dl = e + WAIT + SLACK;
                if dl < o.horizon {
                    match att.get(i + 1) {
                        Some((s, _)) if *s <= dl => {}
                        Some((s, _)) => v.push((
                            "C36:spawn-stalled",
                            format!("attempt {} ended at {e} us leaving the spawner incomplete; next attempt at {s} us, later than {dl} us", i),
                        )),
                        None => v.push((
                            "C36:spawn-stalled",
                            format!("attempt {} ended at {e} us leaving the spawner incomplete; no further attempt before the horizon {} us", i, o.horizon),
                        )),
                    }
                } else {
                    f.no_verdict_beyond_horizon += 1;
                }
            }
        }
    }
    // removals
    for (ts, kind, _) in &o.sends {
        if *kind < K_RD {
            continue;
        }
        let ts = *ts;
        // attempt in progress at ts (strictly inside)
        let running = att.iter().position(|(s, e)| *s < ts && e.map(|e| ts < e).unwrap_or(true));
        if let Some(i) = running {
            f.removal_during_attempt += 1;
            let Some(e) = att[i].1 else {
                f.no_verdict_beyond_horizon += 1;
                continue;
            };
            let dl = e + WAIT + SLACK;
            if dl >= o.horizon {
                f.no_verdict_beyond_horizon += 1;
                continue;
            }
            if !att.iter().skip(i + 1).any(|(s, _)| *s <= dl) {
                v.push((
                    "C36:spawn-stalled",
                    format!("removal sent at {ts} us during attempt {} (ended {e} us): no attempt by {dl} us", i),
                ));
            }
            continue;
        }
        if att.iter().any(|(s, _)| *s == ts) {
            // event and attempt start at the same virtual instant: either order is legitimate
            f.tie_at_start += 1;
            continue;
        }
        let last_end = att.iter().filter_map(|(_, e)| *e).filter(|e| *e <= ts).max();
        let dl = match last_end {
            Some(e) => ts.max(e + WAIT) + SLACK,
            None => ts.max(WAIT) + SLACK,
        };
        if dl >= o.horizon {
            f.no_verdict_beyond_horizon += 1;
            continue;
        }
        match att.iter().find(|(s, _)| *s >= ts) {
            Some((s, _)) if *s <= dl => {
                if *s <= ts + SLACK {
                    f.removal_immediate_respawn += 1;
                } else {
                    f.removal_waited_for_ticket += 1;
                }
            }
            Some((s, _)) => v.push((
                "C36:spawn-stalled",
                format!("removal sent at {ts} us (last attempt ended {last_end:?}): next attempt at {s} us, later than {dl} us"),
            )),
            None => v.push((
                "C36:spawn-stalled",
                format!("removal sent at {ts} us (last attempt ended {last_end:?}): no attempt by {dl} us"),
            )),
        }
    }
    // delivery: exactly once, in order, same payload
    let want: Vec<(usize, u64)> = o.sends.iter().filter(|s| s.1 != K_IDLE).map(|s| (s.1, s.2)).collect();
    let got: Vec<(usize, u64)> = o
        .log
        .iter()
        .filter_map(|r| match r {
            Rec::Removed(_, id, k) => Some((*k, *id)),
            Rec::Registered(_, id) => Some((K_REG, *id)),
            _ => None,
        })
        .collect();
    // an attempt still running at the horizon legitimately holds back the events queued behind it
    let running_at_horizon = att.last().map(|(_, e)| e.is_none()).unwrap_or(false);
    let ok = if running_at_horizon {
        got.len() <= want.len() && want[..got.len()] == got[..]
    } else {
        want == got
    };
    if !ok {
        v.push((
            "C36:event-delivery",
            format!("events sent {want:?} but the spawner's handlers saw {got:?}"),
        ));
    }
    (v, f)
}

fn trace_a(script: Script, phase: u64, slots: &[usize]) -> String {
    format!("A;mode={:?};dur={};phase={};slots={}", script.mode, script.dur_ms, phase, slots_str(slots))
}

// ---------------------------------------------------------------------------------------------
// Part B: real StandardSpawner + DNS stub
// ---------------------------------------------------------------------------------------------
#[derive(Clone, Debug, PartialEq, Eq, Hash)]
enum RecB {
    /// time, address index in raw0 (or 99), stub rotations at that moment
    Create(u64, usize, usize),
    /// time, kind, stub rotations at that moment
    Sent(u64, usize, usize),
}

#[derive(Clone, Debug, PartialEq, Eq, Hash)]
struct ObsB {
    log: Vec<RecB>,
    horizon: u64,
    task_finished: Option<String>,
}

fn raw0() -> Vec<SocketAddr> {
    (1..=8u8)
        .map(|i| SocketAddr::new(IpAddr::V4(Ipv4Addr::new(127, 0, 36, i)), 123))
        .collect()
}

/// First address of the answer of lookup number `k` (k >= 1) after `set_raw(raw0)`.
fn first_answer(raw: &[SocketAddr], k: usize) -> SocketAddr {
    let n = raw.len();
    raw[(n - (k % n)) % n]
}

struct SysB {
    active: Option<ClockId>,
    pending_reg: Option<SourceCreateParameters>,
    log: Vec<RecB>,
}

async fn run_b(phase_ms: u64, grid_ms: u64, slots: &[usize]) -> ObsB {
    let (addr, dns) = dnsp::scripted("single.verif.example", 123);
    let raw = raw0();
    dns.set_raw(&raw);
    let sp = StandardSpawner::new(
        StandardSource {
            address: addr.into(),
            ntp_version: ProtocolVersion::V4,
        },
        SourceConfig::default(),
    );
    let t0 = Instant::now();
    let (action_tx, mut action_rx) = mpsc::channel::<SpawnEvent>(crate::daemon::system::MESSAGE_BUFFER_SIZE);
    let (notify_tx, notify_rx) = mpsc::channel::<SystemEvent>(crate::daemon::system::MESSAGE_BUFFER_SIZE);
    let sys = Arc::new(Mutex::new(SysB {
        active: None,
        pending_reg: None,
        log: Vec::new(),
    }));
    let task = tokio::spawn(spawner_task(sp, action_tx, notify_rx));
    let sys2 = sys.clone();
    let dns2 = dns.clone();
    let raw2 = raw.clone();
    let receiver = tokio::spawn(async move {
        while let Some(ev) = action_rx.recv().await {
            let SpawnAction::Create(params) = ev.action;
            let a = match &params {
                SourceCreateParameters::Ntp(p) => raw2.iter().position(|x| *x == p.addr).unwrap_or(99),
                _ => 99,
            };
            let rot = dns2.rotations_since(&raw2).unwrap_or(usize::MAX);
            let mut s = sys2.lock().unwrap();
            s.active = Some(params.get_id());
            s.pending_reg = Some(params);
            s.log.push(RecB::Create(us(t0), a, rot));
        }
    });
    for (k, kind) in slots.iter().enumerate() {
        let at = t0 + Duration::from_millis(phase_ms + grid_ms * k as u64);
        tokio::time::sleep_until(at).await;
        let rot = dns.rotations_since(&raw).unwrap_or(usize::MAX);
        let ev = {
            let mut s = sys.lock().unwrap();
            match *kind {
                K_NONE => None,
                K_IDLE => {
                    s.log.push(RecB::Sent(us(t0), K_IDLE, rot));
                    Some(SystemEvent::Idle)
                }
                K_REG => s.pending_reg.take().map(|p| {
                    s.log.push(RecB::Sent(us(t0), K_REG, rot));
                    SystemEvent::SourceRegistered(p)
                }),
                k => s.active.take().map(|id| {
                    s.pending_reg = None;
                    s.log.push(RecB::Sent(us(t0), k, rot));
                    SystemEvent::source_removed(id, reason_of(k))
                }),
            }
        };
        if let Some(ev) = ev {
            let _ = notify_tx.send(ev).await;
        }
    }
    let last = phase_ms + grid_ms * (slots.len().max(1) as u64 - 1);
    let horizon_ms = last + 2500;
    tokio::time::sleep_until(t0 + Duration::from_millis(horizon_ms)).await;
    let task_finished = if task.is_finished() {
        Some(match task.await {
            Ok(Ok(())) => "returned Ok".to_string(),
            Ok(Err(e)) => format!("returned Err({e})"),
            Err(e) => format!("join error: {e}"),
        })
    } else {
        task.abort();
        let _ = task.await;
        None
    };
    drop(notify_tx);
    receiver.abort();
    let _ = receiver.await;
    let log = sys.lock().unwrap().log.clone();
    ObsB {
        log,
        horizon: horizon_ms * MS,
        task_finished,
    }
}

#[derive(Default)]
struct FactsB {
    creates: u64,
    demobilized: bool,
    respawn_after_unreachable: u64,
    respawn_after_network_issue_cached: u64,
    respawn_after_network_issue_fresh: u64,
    lookups: usize,
    removals_sent: u64,
    registered_sent: u64,
}

fn judge_b(o: &ObsB) -> (Vec<(&'static str, String)>, FactsB) {
    let raw = raw0();
    let mut v = Vec::new();
    let mut f = FactsB::default();
    if let Some(t) = &o.task_finished {
        v.push(("C36:task-ended", format!("spawner_task ended while the system channel was open: {t}")));
    }
    let mut demob_at: Option<u64> = None;
    let mut last_create: Option<u64> = None;
    // (deadline, reason kind, rotations at removal, removal time)
    let mut awaiting: Option<(u64, usize, usize, u64)> = Some((WAIT + SLACK, K_NONE, 0, 0));
    for r in &o.log {
        match r {
            RecB::Create(t, a, rot) => {
                f.creates += 1;
                f.lookups = f.lookups.max(*rot);
                if let Some(d) = demob_at {
                    v.push((
                        "C36:demobilized-respawned",
                        format!("source demobilised at {d} us, yet a new source was created at {t} us"),
                    ));
                }
                if let Some(l) = last_create {
                    if *t < l + WAIT {
                        v.push(("C36:spawn-too-early", format!("sources created at {l} us and {t} us, less than 1 s apart")));
                    }
                }
                if *rot == 0 || *rot == usize::MAX || *a >= raw.len() || raw[*a] != first_answer(&raw, *rot) {
                    v.push((
                        "C36:address-not-from-latest-lookup",
                        format!("source created at {t} us for address #{a} after {rot} lookups; the latest answer starts with {}", first_answer(&raw, *rot)),
                    ));
                }
                if let Some((dl, kind, rot0, ts)) = awaiting.take() {
                    if *t > dl {
                        v.push(("C36:spawn-stalled", format!("spawn due by {dl} us (removal/start at {ts} us) happened at {t} us")));
                    }
                    match kind {
                        K_RU => {
                            f.respawn_after_unreachable += 1;
                            if *rot <= rot0 {
                                v.push((
                                    "C36:unreachable-not-reresolved",
                                    format!("source removed as unreachable at {ts} us ({rot0} lookups so far); respawned at {t} us without a new lookup ({rot} lookups), address #{a} reused"),
                                ));
                            }
                        }
                        K_RN => {
                            if *rot > rot0 {
                                f.respawn_after_network_issue_fresh += 1;
                            } else {
                                f.respawn_after_network_issue_cached += 1;
                            }
                        }
                        _ => {}
                    }
                }
                last_create = Some(*t);
            }
            RecB::Sent(t, kind, rot) => match *kind {
                K_RD => {
                    f.removals_sent += 1;
                    f.demobilized = true;
                    demob_at = Some(*t);
                    awaiting = None;
                }
                K_RN | K_RU => {
                    f.removals_sent += 1;
                    let dl = (*t).max(last_create.map(|l| l + WAIT).unwrap_or(0)) + SLACK;
                    awaiting = Some((dl, *kind, *rot, *t));
                }
                K_REG => f.registered_sent += 1,
                _ => {}
            },
        }
    }
    if let Some((dl, _, _, ts)) = awaiting {
        if dl < o.horizon {
            v.push(("C36:spawn-stalled", format!("spawn due by {dl} us (removal/start at {ts} us) never happened before the horizon {} us", o.horizon)));
        }
    }
    (v, f)
}

fn trace_b(phase: u64, grid: u64, slots: &[usize]) -> String {
    format!("B;phase={phase};grid={grid};slots={}", slots_str(slots))
}

// ---------------------------------------------------------------------------------------------
// runtimes, replay, check
// ---------------------------------------------------------------------------------------------
fn rt_time_only() -> tokio::runtime::Runtime {
    tokio::runtime::Builder::new_current_thread()
        .enable_time()
        .start_paused(true)
        .build()
        .expect("runtime")
}

fn rt_all() -> tokio::runtime::Runtime {
    tokio::runtime::Builder::new_current_thread()
        .enable_all()
        .start_paused(true)
        .build()
        .expect("runtime")
}

fn kv<'a>(parts: &'a [&'a str], key: &str) -> Option<&'a str> {
    parts.iter().find_map(|p| p.strip_prefix(key)?.strip_prefix('='))
}

fn replay(ctx: &Ctx, trace: &str) -> String {
    let parts: Vec<&str> = trace.trim().split(';').collect();
    let slots = kv(&parts, "slots").and_then(parse_slots);
    let phase: Option<u64> = kv(&parts, "phase").and_then(|s| s.parse().ok());
    let (Some(slots), Some(phase)) = (slots, phase) else {
        return format!("unparsable trace {trace:?}");
    };
    match parts[0] {
        "A" => {
            let mode = match kv(&parts, "mode") {
                Some("C") => Mode::C,
                Some("I") => Mode::I,
                Some("F") => Mode::F,
                _ => return format!("unparsable mode in {trace:?}"),
            };
            let Some(dur_ms) = kv(&parts, "dur").and_then(|s| s.parse().ok()) else {
                return format!("unparsable dur in {trace:?}");
            };
            let script = Script { mode, dur_ms };
            let rt = rt_time_only();
            let o = rt.block_on(run_a(script, phase, &slots));
            let (vs, _) = judge_a(script, &o);
            for (c, w) in &vs {
                ctx.violation(c, w.clone(), trace);
            }
            // ids come from a global counter: print the observation with ids masked
            let log: Vec<String> = o
                .log
                .iter()
                .map(|r| match r {
                    Rec::TryStart(t) => format!("start@{t}"),
                    Rec::TryEnd(t) => format!("end@{t}"),
                    Rec::Removed(t, _, k) => format!("removed[{}]@{t}", KNAMES[*k]),
                    Rec::Registered(t, _) => format!("registered@{t}"),
                })
                .collect();
            let sends: Vec<String> = o.sends.iter().map(|s| format!("{}@{}", KNAMES[s.1], s.0)).collect();
            format!("sent [{}] -> spawner saw [{}]; creates={}; verdicts={:?}", sends.join(" "), log.join(" "), o.creates, vs)
        }
        "B" => {
            let grid: u64 = kv(&parts, "grid").and_then(|s| s.parse().ok()).unwrap_or(500);
            let rt = rt_all();
            let o = rt.block_on(run_b(phase, grid, &slots));
            let (vs, _) = judge_b(&o);
            for (c, w) in &vs {
                ctx.violation(c, w.clone(), trace);
            }
            let log: Vec<String> = o
                .log
                .iter()
                .map(|r| match r {
                    RecB::Create(t, a, rot) => format!("create(addr#{a},lookups={rot})@{t}"),
                    RecB::Sent(t, k, rot) => format!("sent[{}](lookups={rot})@{t}", KNAMES[*k]),
                })
                .collect();
            format!("[{}]; verdicts={:?}", log.join(" "), vs)
        }
        _ => format!("unknown trace kind {trace:?}"),
    }
}

/// Observation with ids removed (ids come from process-wide counters).
fn canon_a(o: &ObsA) -> u64 {
    let log: Vec<(u8, u64, usize)> = o
        .log
        .iter()
        .map(|r| match r {
            Rec::TryStart(t) => (0, *t, 0),
            Rec::TryEnd(t) => (1, *t, 0),
            Rec::Removed(t, _, k) => (2, *t, *k),
            Rec::Registered(t, _) => (3, *t, 0),
        })
        .collect();
    let sends: Vec<(u64, usize)> = o.sends.iter().map(|s| (s.0, s.1)).collect();
    common::hash_of(&(log, sends, o.creates, &o.task_finished))
}

/// Per-worker state: a runtime plus thread-local counters / distinct hashes which are flushed into
/// the shared `Ctx` when the worker ends (one lock per worker instead of ~20 per schedule).
struct Worker<'a> {
    rt: tokio::runtime::Runtime,
    ctx: &'a Ctx,
    counters: std::collections::BTreeMap<&'static str, u64>,
    distinct: Vec<u64>,
}

impl<'a> Worker<'a> {
    fn new(ctx: &'a Ctx, rt: tokio::runtime::Runtime) -> Worker<'a> {
        Worker {
            rt,
            ctx,
            counters: Default::default(),
            distinct: Vec::new(),
        }
    }
    fn add(&mut self, k: &'static str, n: u64) {
        if n > 0 {
            *self.counters.entry(k).or_insert(0) += n;
        }
    }
}

impl Drop for Worker<'_> {
    fn drop(&mut self) {
        for (k, v) in &self.counters {
            self.ctx.add(k, *v);
        }
        self.ctx.distinct_many(self.distinct.drain(..));
    }
}

const ATT_KEYS: [&str; 7] = [
    "a_runs_with_0_attempts",
    "a_runs_with_1_attempts",
    "a_runs_with_2_attempts",
    "a_runs_with_3_attempts",
    "a_runs_with_4_attempts",
    "a_runs_with_5_attempts",
    "a_runs_with_6plus_attempts",
];

fn sweep_a(ctx: &Ctx, scripts: &[Script], n: usize, phases: &[u64]) -> u64 {
    let words = common::pow(6, n);
    let total = scripts.len() as u64 * phases.len() as u64 * words;
    common::par_for_with(
        total,
        512,
        || Worker::new(ctx, rt_time_only()),
        |wk, i| {
            let w = common::word_of(i % words, 6, n);
            let rest = i / words;
            let phase = phases[(rest % phases.len() as u64) as usize];
            let script = scripts[(rest / phases.len() as u64) as usize];
            let o = match common::catch(|| wk.rt.block_on(run_a(script, phase, &w))) {
                Ok(o) => o,
                Err(p) => {
                    ctx.violation("C36:panic", format!("panic: {p}"), trace_a(script, phase, &w));
                    wk.rt = rt_time_only();
                    return;
                }
            };
            let (vs, f) = judge_a(script, &o);
            wk.add("evaluations", 1);
            wk.add("a_schedules", 1);
            wk.add("transitions", o.log.len() as u64);
            wk.add("a_attempts", f.attempts);
            wk.add(ATT_KEYS[f.attempts.min(6) as usize], 1);
            wk.add("a_removal_during_attempt", f.removal_during_attempt);
            wk.add("a_removal_immediate_respawn", f.removal_immediate_respawn);
            wk.add("a_removal_waited_for_ticket", f.removal_waited_for_ticket);
            wk.add("a_removal_tie_with_attempt_start", f.tie_at_start);
            wk.add("a_deadlines_beyond_horizon_no_verdict", f.no_verdict_beyond_horizon);
            wk.add("a_events_sent", o.sends.len() as u64);
            wk.add("a_sources_created", o.creates);
            for (c, what) in vs {
                ctx.violation(c, what, trace_a(script, phase, &w));
            }
            if !o.sends.is_empty() {
                wk.distinct.push(canon_a(&o));
            }
            if i % 61 == 0 {
                let o2 = wk.rt.block_on(run_a(script, phase, &w));
                wk.add("determinism_reruns", 1);
                if canon_a(&o2) != canon_a(&o) {
                    ctx.violation("C36:harness-nondeterminism", "two executions of one schedule differ", trace_a(script, phase, &w));
                }
            }
            if n == 5 && i % 46_657 == 77 {
                let tmp = Ctx::new("C36");
                ctx.sample(format!("{} => {}", trace_a(script, phase, &w), replay(&tmp, &trace_a(script, phase, &w))));
            }
        },
    );
    total
}

fn sweep_b(ctx: &Ctx, n: usize, grid: u64, phases: &[u64]) -> u64 {
    let words = common::pow(6, n);
    let total = phases.len() as u64 * words;
    common::par_for_with(
        total,
        128,
        || Worker::new(ctx, rt_all()),
        |wk, i| {
            let w = common::word_of(i % words, 6, n);
            let phase = phases[(i / words) as usize];
            let o = match common::catch(|| wk.rt.block_on(run_b(phase, grid, &w))) {
                Ok(o) => o,
                Err(p) => {
                    ctx.violation("C36:panic", format!("panic: {p}"), trace_b(phase, grid, &w));
                    wk.rt = rt_all();
                    return;
                }
            };
            let (vs, f) = judge_b(&o);
            wk.add("evaluations", 1);
            wk.add("b_schedules", 1);
            wk.add("transitions", o.log.len() as u64);
            wk.add("b_sources_created", f.creates);
            wk.add("b_removals_sent", f.removals_sent);
            wk.add("b_registered_sent", f.registered_sent);
            wk.add("b_lookups_observed", f.lookups as u64);
            wk.add("b_runs_with_demobilisation", f.demobilized as u64);
            wk.add("b_respawns_after_unreachable", f.respawn_after_unreachable);
            wk.add("b_respawns_after_network_issue_cached_address", f.respawn_after_network_issue_cached);
            wk.add("b_respawns_after_network_issue_fresh_lookup", f.respawn_after_network_issue_fresh);
            for (c, what) in vs {
                ctx.violation(c, what, trace_b(phase, grid, &w));
            }
            if f.removals_sent + f.registered_sent > 0 {
                wk.distinct.push(common::hash_of(&("B", &o.log)));
            }
            if i % 61 == 0 {
                let o2 = wk.rt.block_on(run_b(phase, grid, &w));
                wk.add("determinism_reruns", 1);
                if o2 != o {
                    ctx.violation("C36:harness-nondeterminism", "two executions of one schedule differ", trace_b(phase, grid, &w));
                }
            }
            if n == 5 && i % 2_203 == 1_234 {
                let tmp = Ctx::new("C36");
                ctx.sample(format!("{} => {}", trace_b(phase, grid, &w), replay(&tmp, &trace_b(phase, grid, &w))));
            }
        },
    );
    total
}

#[test]
fn check() {
    let ctx = Ctx::new("C36");
    if let Some(t) = common::replay_trace() {
        let a = replay(&ctx, &t);
        let b = replay(&ctx, &t);
        common::report_replay("C36", &a, &b, ctx.violation_count() > 0);
        return;
    }
    let quick = ctx.quick();
    // (slots, phases) blocks; block 0 is the quick tier, thorough runs all of them in this order
    let blocks_a: Vec<(usize, Vec<u64>)> = if quick {
        vec![(5, vec![0, 1, 50, 249])]
    } else {
        vec![
            (5, vec![0, 1, 50, 249]),
            (6, vec![49, 51, 199, 200, 201]),
            (7, vec![0, 1, 50, 249]),
        ]
    };
    let blocks_b: Vec<(usize, Vec<u64>)> = if quick {
        vec![(5, vec![0, 1])]
    } else {
        vec![(5, vec![0, 1]), (6, vec![0, 1, 499])]
    };
    let grid_b = 500u64;
    ctx.rule(&format!(
        "A: real spawner_task + scripted spawner, scripts {{C,I,F}} x durations {{0,300,1200}} ms, ALL 6^n placements of \
         {{none,Idle,Registered,Removed(D),Removed(N),Removed(U)}} on n slots of a 250 ms grid shifted by each phase, \
         (n, phases ms) blocks {blocks_a:?}; B: real spawner_task + real StandardSpawner + scripted DNS stub, ALL 6^n \
         placements on n slots of a {grid_b} ms grid, blocks {blocks_b:?}. Virtual time (tokio paused clock, auto-advance to \
         the next timer). A case is distinct & non-trivial by its observation (attempt/handler/creation times and kinds, ids \
         masked) when at least one event was sent."
    ));
    ctx.assume("tokio's paused clock + current-thread scheduler: timers fire at their deadline rounded up to 1 ms; tasks that become ready at the same virtual instant run in tokio's deterministic FIFO order (both orders around an instant are covered by the +-1 ms phases)");
    ctx.assume("part A: completeness after an attempt is the script's; any Removed makes the scripted spawner incomplete");
    ctx.assume("part B: the DNS stub always answers (8 distinct loopback addresses) and UDP connect() to 127.0.36.x succeeds, so every attempt of the real StandardSpawner creates a source; lookups are counted by the rotation of the stub list");
    ctx.assume("NtsSpawner (nts.rs) is not driven: it needs a TCP+TLS key-exchange peer; by reading, its handle_source_removed clears has_spawned for every reason");

    let scripts: Vec<Script> = MODES
        .iter()
        .flat_map(|m| DURS.iter().map(move |d| Script { mode: *m, dur_ms: *d }))
        .collect();
    let mut complete = true;
    let mut expected_a = 0u64;
    for (bi, (n, phases)) in blocks_a.iter().enumerate() {
        if bi > 0 && ctx.over_budget() {
            ctx.cap_hit(&format!("part A block (n={n}, phases {phases:?}) not started; earlier blocks complete"));
            complete = false;
            break;
        }
        expected_a += sweep_a(&ctx, &scripts, *n, phases);
    }
    ctx.set("a_schedules_expected", expected_a);
    ctx.set("a_wall_ms", (ctx.elapsed_s() * 1000.0) as u64);
    let mut expected_b = 0u64;
    for (bi, (n, phases)) in blocks_b.iter().enumerate() {
        if bi > 0 && ctx.over_budget() {
            ctx.cap_hit(&format!("part B block (n={n}, phases {phases:?}) not started; earlier blocks complete"));
            complete = false;
            break;
        }
        expected_b += sweep_b(&ctx, *n, grid_b, phases);
    }
    ctx.set("b_schedules_expected", expected_b);
    ctx.set("total_wall_ms", (ctx.elapsed_s() * 1000.0) as u64);
    ctx.set("states", ctx.distinct_count());
    ctx.exhaustive(complete);
    ctx.finish();
}
