//! C36 — Source (re)spawning is paced and follows removal reasons.
//!
//! Engine E-SCHED (timed): the REAL `spawner_task` loop (`ntpd/src/daemon/spawn/mod.rs`) runs as a
//! tokio task on a current-thread runtime with a PAUSED clock; the harness plays the system and
//! sends `SystemEvent`s at scripted instants. Virtual time only moves by tokio's paused-clock
//! auto-advance (the driver sleeps until the next scripted instant; when every task is parked the
//! clock jumps exactly to the earliest pending timer). `tokio::time::advance(250ms)` is deliberately
//! NOT used: it jumps over deadlines lying between two grid points (e.g. the 1.3 s ticket deadline
//! after a 0.3 s attempt) and would make the observed attempt times late by up to one grid step —
//! a harness artefact, not behaviour of the code under test.
//!
//! Part A — scripted spawner (`Scr`, implements the real `Spawner` trait):
//!   script   mode in {C: attempt creates a source and completes the spawner,
//!                     I: attempt creates a source, spawner stays incomplete (a pool wanting more),
//!                     F: attempt creates nothing, spawner stays incomplete (resolution failure)}
//!            x try_spawn duration in {0, 300 ms, 1200 ms};   any removal makes `Scr` incomplete;
//!   schedule n slots on a 250 ms grid shifted by `phase` ms; every slot carries one of
//!            {none, Idle, Registered, Removed(Demobilized), Removed(NetworkIssue), Removed(Unreachable)};
//!            ALL 6^n placements x all phases (phases put events exactly on, 1 ms before and 1 ms
//!            after the instants at which attempts end / tickets are regranted);
//!   quick    n = 5, phases {0,1,50,249};  thorough adds n = 6 x phases {49,51,199,200,201} and
//!            n = 7 x phases {0,1,50,249}.
//!   Oracle (from the statement; `s_i`/`e_i` start/end of attempt i, all in virtual time):
//!     `C36:spawn-too-early`  s_{i+1} - s_i >= 1 s;
//!     `C36:spawn-stalled`    first attempt by 1 s + 1 ms; after an attempt that leaves the spawner
//!                            incomplete s_{i+1} <= e_i + 1 s + 1 ms (= s_i + duration + 1 s + 1 ms);
//!                            after a Removed sent at t: an attempt starts no later than
//!                            max(t, E + 1 s) + 1 ms, E = end of the attempt running at / last
//!                            finished before t (checked when that deadline lies before the horizon);
//!     `C36:event-delivery`   Registered/Removed events reach the spawner's handlers exactly once, in
//!                            order, with the id and reason that were sent (events queued behind an
//!                            attempt that is still running at the horizon may be outstanding);
//!     `C36:task-ended`       the task neither ends nor panics while the system keeps its channel open.
//!
//! Part B — the real `StandardSpawner` under the real `spawner_task` with the scripted DNS stub
//!   (8 pairwise distinct loopback addresses, so every lookup is visible as one rotation of the stub
//!   list and yields a new first address):
//!   schedule n slots on a 500 ms grid (+ phase), slot alphabet as above; Removed applies to the
//!            source that is active at that instant (none active => the slot is a no-op),
//!            Registered hands back the parameters of the last created source;
//!   quick    n = 5, phases {0,1};  thorough adds n = 6, phases {0,1,499}.
//!   Oracle:
//!     `C36:demobilized-respawned`       no source is created after a Demobilized removal;
//!     `C36:unreachable-not-reresolved`  the first source created after an Unreachable removal comes
//!                                       from a lookup performed after that removal (stub rotated,
//!                                       address = first address of that fresh answer);
//!     `C36:spawn-too-early` / `C36:spawn-stalled` as above with creations as attempts (every attempt
//!                                       succeeds: the stub always answers and loopback connects).
//!
//! Part C — the real `StandardSpawner` with the DNS outcome scripted PER ATTEMPT, failing lookups
//!   included (added after a seeded defect — stale cached address reused after a failed forced
//!   re-resolution — slipped through part B, whose stub always answers). The real spawner sits behind
//!   `Wrap`, a pure forwarding `Spawner` adapter that installs the scripted DNS outcome before each
//!   `try_spawn`, logs attempt start/end and reads back whether the attempt performed a lookup.
//!   schedule ALL 4^n placements of {none, Removed(D), Removed(N), Removed(U)} on n slots of the 500 ms
//!            grid x ALL 5^m per-attempt DNS outcome sequences over {a:[A], b:[B], m:[B,A],
//!            f: only unconnectable addresses, e: empty answer};
//!   quick    n = 4, m = 4, phase 0 (160 000 schedules); thorough adds n = 5, m = 4, phases {0,1}.
//!   Oracle:  `C36:unreachable-not-reresolved`  every source created after an Unreachable removal uses
//!                                       the address of a SUCCESSFUL lookup performed after that
//!                                       removal (never an address cached from before it);
//!            `C36:address-not-from-latest-lookup`, `C36:demobilized-respawned`,
//!            `C36:spawn-too-early` (attempt starts >= 1 s apart, failed attempts included),
//!            `C36:spawn-stalled` (an attempt that creates nothing leaves the spawner incomplete: next
//!                                       attempt within 1 s + 1 ms of its end; after Removed(N/U) within
//!                                       max(t, last end + 1 s) + 1 ms).
//!
//! Determinism is asserted: every 61st schedule is executed twice and the observations compared.
use std::net::{IpAddr, Ipv4Addr, SocketAddr};
use std::sync::{Arc, Mutex};
use std::time::Duration;

use ntp_proto::{ClockId, ProtocolVersion, SourceConfig};
use tokio::sync::mpsc;
use tokio::time::Instant;

use super::common::{self, Ctx};
use crate::daemon::config::verif_probe::gl::dns::{self as dnsp, DnsScript};
use crate::daemon::config::StandardSource;
use crate::daemon::spawn::standard::StandardSpawner;
use crate::daemon::spawn::{
    spawner_task, SockSourceCreateParameters, SourceCreateParameters, SourceRemovalReason,
    SourceRemovedEvent, SpawnAction, SpawnEvent, Spawner, SpawnerId, SystemEvent,
};

const MS: u64 = 1000; // microseconds per millisecond; all observation times are in µs
const WAIT: u64 = 1000 * MS; // the statement's "network wait period (one second)"
const SLACK: u64 = MS; // 1 ms timer granularity

fn us(t0: Instant) -> u64 {
    Instant::now().duration_since(t0).as_micros() as u64
}

// ---------------------------------------------------------------------------------------------
// slot alphabet
// ---------------------------------------------------------------------------------------------
const K_NONE: usize = 0;
const K_IDLE: usize = 1;
const K_REG: usize = 2;
const K_RD: usize = 3;
const K_RN: usize = 4;
const K_RU: usize = 5;
const KNAMES: [&str; 6] = ["-", "I", "G", "D", "N", "U"];

fn reason_of(k: usize) -> SourceRemovalReason {
    match k {
        K_RD => SourceRemovalReason::Demobilized,
        K_RN => SourceRemovalReason::NetworkIssue,
        _ => SourceRemovalReason::Unreachable,
    }
}

fn reason_code(r: &SourceRemovalReason) -> usize {
    match r {
        SourceRemovalReason::Demobilized => K_RD,
        SourceRemovalReason::NetworkIssue => K_RN,
        SourceRemovalReason::Unreachable => K_RU,
    }
}

fn slots_str(w: &[usize]) -> String {
    w.iter().map(|k| KNAMES[*k]).collect::<Vec<_>>().join("")
}

fn parse_slots(s: &str) -> Option<Vec<usize>> {
    s.chars()
        .map(|c| KNAMES.iter().position(|n| n.chars().next() == Some(c)))
        .collect()
}

// ---------------------------------------------------------------------------------------------
// Part A: scripted spawner
// ---------------------------------------------------------------------------------------------
#[derive(Clone, Copy, PartialEq, Eq, Debug, Hash)]
enum Mode {
    C,
    I,
    F,
}

#[derive(Clone, Copy, PartialEq, Eq, Debug, Hash)]
struct Script {
    mode: Mode,
    dur_ms: u64,
}

const MODES: [Mode; 3] = [Mode::C, Mode::I, Mode::F];
const DURS: [u64; 3] = [0, 300, 1200];

#[derive(Clone, Debug, PartialEq, Eq, Hash)]
enum Rec {
    TryStart(u64),
    TryEnd(u64),
    Removed(u64, u64, usize), // time, raw id as seen in Debug, reason code
    Registered(u64, u64),
}

#[derive(Debug)]
struct ScrErr;
impl std::fmt::Display for ScrErr {
    fn fmt(&self, f: &mut std::fmt::Formatter<'_>) -> std::fmt::Result {
        write!(f, "scripted spawner error")
    }
}
impl std::error::Error for ScrErr {}

fn id_num(id: ClockId) -> u64 {
    // ClockId(u64) has no public accessor; its Debug form is "ClockId(n)"
    let s = format!("{id:?}");
    s.trim_start_matches("ClockId(").trim_end_matches(')').parse().unwrap_or(u64::MAX)
}

struct Scr {
    id: SpawnerId,
    script: Script,
    complete: bool,
    t0: Instant,
    log: Arc<Mutex<Vec<Rec>>>,
}

fn sock_params() -> SourceCreateParameters {
    SourceCreateParameters::Sock(SockSourceCreateParameters {
        id: ClockId::new(),
        path: "/verif/none".into(),
        config: SourceConfig::default(),
        precision: 1e-3,
        accuracy: 1e-3,
    })
}

impl Spawner for Scr {
    type Error = ScrErr;

    async fn try_spawn(&mut self, action_tx: &mpsc::Sender<SpawnEvent>) -> Result<(), ScrErr> {
        self.log.lock().unwrap().push(Rec::TryStart(us(self.t0)));
        if self.script.dur_ms > 0 {
            tokio::time::sleep(Duration::from_millis(self.script.dur_ms)).await;
        }
        match self.script.mode {
            Mode::C | Mode::I => {
                let _ = action_tx
                    .send(SpawnEvent::new(self.id, SpawnAction::Create(sock_params())))
                    .await;
                if self.script.mode == Mode::C {
                    self.complete = true;
                }
            }
            Mode::F => {}
        }
        self.log.lock().unwrap().push(Rec::TryEnd(us(self.t0)));
        Ok(())
    }

    fn is_complete(&self) -> bool {
        self.complete
    }

    async fn handle_source_removed(&mut self, ev: SourceRemovedEvent) -> Result<(), ScrErr> {
        self.log.lock().unwrap().push(Rec::Removed(us(self.t0), id_num(ev.id), reason_code(&ev.reason)));
        self.complete = false;
        Ok(())
    }

    async fn handle_registered(&mut self, ev: SourceCreateParameters) -> Result<(), ScrErr> {
        self.log.lock().unwrap().push(Rec::Registered(us(self.t0), id_num(ev.get_id())));
        Ok(())
    }

    fn get_id(&self) -> SpawnerId {
        self.id
    }
    fn get_addr_description(&self) -> String {
        "scripted".into()
    }
    fn get_description(&self) -> &'static str {
        "scripted"
    }
}

#[derive(Clone, Debug, PartialEq, Eq, Hash)]
struct ObsA {
    log: Vec<Rec>,
    sends: Vec<(u64, usize, u64)>, // time, kind, id (0 for Idle)
    creates: u64,
    horizon: u64,
    task_finished: Option<String>,
}

async fn run_a(script: Script, phase_ms: u64, slots: &[usize]) -> ObsA {
    let t0 = Instant::now();
    let log = Arc::new(Mutex::new(Vec::new()));
    let scr = Scr {
        id: SpawnerId::new(),
        script,
        complete: false,
        t0,
        log: log.clone(),
    };
    let (action_tx, mut action_rx) = mpsc::channel::<SpawnEvent>(crate::daemon::system::MESSAGE_BUFFER_SIZE);
    let (notify_tx, notify_rx) = mpsc::channel::<SystemEvent>(crate::daemon::system::MESSAGE_BUFFER_SIZE);
    let task = tokio::spawn(spawner_task(scr, action_tx, notify_rx));
    let mut sends = Vec::new();
    let mut creates = 0u64;
    for (k, kind) in slots.iter().enumerate() {
        let at = t0 + Duration::from_millis(phase_ms + 250 * k as u64);
        tokio::time::sleep_until(at).await;
        while action_rx.try_recv().is_ok() {
            creates += 1;
        }
        match *kind {
            K_NONE => {}
            K_IDLE => {
                sends.push((us(t0), K_IDLE, 0));
                let _ = notify_tx.send(SystemEvent::Idle).await;
            }
            K_REG => {
                let p = sock_params();
                sends.push((us(t0), K_REG, id_num(p.get_id())));
                let _ = notify_tx.send(SystemEvent::SourceRegistered(p)).await;
            }
            k => {
                let id = ClockId::new();
                sends.push((us(t0), k, id_num(id)));
                let _ = notify_tx.send(SystemEvent::source_removed(id, reason_of(k))).await;
            }
        }
    }
    let last = phase_ms + 250 * (slots.len().max(1) as u64 - 1);
    let horizon_ms = last + 2 * (1000 + script.dur_ms) + 500;
    tokio::time::sleep_until(t0 + Duration::from_millis(horizon_ms)).await;
    while action_rx.try_recv().is_ok() {
        creates += 1;
    }
    let task_finished = if task.is_finished() {
        Some(match task.await {
            Ok(Ok(())) => "returned Ok".to_string(),
            Ok(Err(e)) => format!("returned Err({e})"),
            Err(e) => format!("join error: {e}"),
        })
    } else {
        task.abort();
        let _ = task.await;
        None
    };
    drop(notify_tx);
    let log = log.lock().unwrap().clone();
    ObsA {
        log,
        sends,
        creates,
        horizon: horizon_ms * MS,
        task_finished,
    }
}

#[derive(Default)]
struct FactsA {
    attempts: u64,
    removal_during_attempt: u64,
    removal_immediate_respawn: u64,
    removal_waited_for_ticket: u64,
    tie_at_start: u64,
    no_verdict_beyond_horizon: u64,
}

/// The statement's oracle for part A. Attempts are read from the spawner-side log, sends from the
/// driver; completeness after an attempt is the script's (harness knowledge), not the code's.
fn judge_a(script: Script, o: &ObsA) -> (Vec<(&'static str, String)>, FactsA) {
    let mut v = Vec::new();
    let mut f = FactsA::default();
    if let Some(t) = &o.task_finished {
        v.push(("C36:task-ended", format!("spawner_task ended while the system channel was open: {t}")));
    }
    // attempts
    let mut att: Vec<(u64, Option<u64>)> = Vec::new();
    for r in &o.log {
        match r {
            Rec::TryStart(t) => att.push((*t, None)),
            Rec::TryEnd(t) => {
                if let Some(l) = att.last_mut() {
                    l.1 = Some(*t);
                }
            }
            _ => {}
        }
    }
    f.attempts = att.len() as u64;
    for w in att.windows(2) {
        if w[1].0 < w[0].0 + WAIT {
            v.push((
                "C36:spawn-too-early",
                format!("attempts started at {} us and {} us: {} us apart, less than the 1 s wait period", w[0].0, w[1].0, w[1].0 - w[0].0),
            ));
        }
    }
    // first attempt
    match att.first() {
        None if o.horizon > WAIT + SLACK => v.push(("C36:spawn-stalled", "incomplete spawner: no attempt at all".to_string())),
        Some((s, _)) if *s > WAIT + SLACK => v.push(("C36:spawn-stalled", format!("first attempt only at {s} us"))),
        _ => {}
    }
    // keeps attempting while incomplete
    if script.mode != Mode::C {
        for i in 0..att.len() {
            if let Some(e) = att[i].1 {
                let dl = e + WAIT + SLACK;
                if dl < o.horizon {
                    match att.get(i + 1) {
                        Some((s, _)) if *s <= dl => {}
                        Some((s, _)) => v.push((
                            "C36:spawn-stalled",
                            format!("attempt {} ended at {e} us leaving the spawner incomplete; next attempt at {s} us, later than {dl} us", i),
                        )),
                        None => v.push((
                            "C36:spawn-stalled",
                            format!("attempt {} ended at {e} us leaving the spawner incomplete; no further attempt before the horizon {} us", i, o.horizon),
                        )),
                    }
                } else {
                    f.no_verdict_beyond_horizon += 1;
                }
            }
        }
    }
    // removals
    for (ts, kind, _) in &o.sends {
        if *kind < K_RD {
            continue;
        }
        let ts = *ts;
        // attempt in progress at ts (strictly inside)
        let running = att.iter().position(|(s, e)| *s < ts && e.map(|e| ts < e).unwrap_or(true));
        if let Some(i) = running {
            f.removal_during_attempt += 1;
            let Some(e) = att[i].1 else {
                f.no_verdict_beyond_horizon += 1;
                continue;
            };
            let dl = e + WAIT + SLACK;
            if dl >= o.horizon {
                f.no_verdict_beyond_horizon += 1;
                continue;
            }
            if !att.iter().skip(i + 1).any(|(s, _)| *s <= dl) {
                v.push((
                    "C36:spawn-stalled",
                    format!("removal sent at {ts} us during attempt {} (ended {e} us): no attempt by {dl} us", i),
                ));
            }
            continue;
        }
        if att.iter().any(|(s, _)| *s == ts) {
            // event and attempt start at the same virtual instant: either order is legitimate
            f.tie_at_start += 1;
            continue;
        }
        let last_end = att.iter().filter_map(|(_, e)| *e).filter(|e| *e <= ts).max();
        let dl = match last_end {
            Some(e) => ts.max(e + WAIT) + SLACK,
            None => ts.max(WAIT) + SLACK,
        };
        if dl >= o.horizon {
            f.no_verdict_beyond_horizon += 1;
            continue;
        }
        match att.iter().find(|(s, _)| *s >= ts) {
            Some((s, _)) if *s <= dl => {
                if *s <= ts + SLACK {
                    f.removal_immediate_respawn += 1;
                } else {
                    f.removal_waited_for_ticket += 1;
                }
            }
            Some((s, _)) => v.push((
                "C36:spawn-stalled",
                format!("removal sent at {ts} us (last attempt ended {last_end:?}): next attempt at {s} us, later than {dl} us"),
            )),
            None => v.push((
                "C36:spawn-stalled",
                format!("removal sent at {ts} us (last attempt ended {last_end:?}): no attempt by {dl} us"),
            )),
        }
    }
    // delivery: exactly once, in order, same payload
    let want: Vec<(usize, u64)> = o.sends.iter().filter(|s| s.1 != K_IDLE).map(|s| (s.1, s.2)).collect();
    let got: Vec<(usize, u64)> = o
        .log
        .iter()
        .filter_map(|r| match r {
            Rec::Removed(_, id, k) => Some((*k, *id)),
            Rec::Registered(_, id) => Some((K_REG, *id)),
            _ => None,
        })
        .collect();
    // an attempt still running at the horizon legitimately holds back the events queued behind it
    let running_at_horizon = att.last().map(|(_, e)| e.is_none()).unwrap_or(false);
    let ok = if running_at_horizon {
        got.len() <= want.len() && want[..got.len()] == got[..]
    } else {
        want == got
    };
    if !ok {
        v.push((
            "C36:event-delivery",
            format!("events sent {want:?} but the spawner's handlers saw {got:?}"),
        ));
    }
    (v, f)
}

fn trace_a(script: Script, phase: u64, slots: &[usize]) -> String {
    format!("A;mode={:?};dur={};phase={};slots={}", script.mode, script.dur_ms, phase, slots_str(slots))
}

// ---------------------------------------------------------------------------------------------
// Part B: real StandardSpawner + DNS stub
// ---------------------------------------------------------------------------------------------
#[derive(Clone, Debug, PartialEq, Eq, Hash)]
enum RecB {
    /// time, address index in raw0 (or 99), stub rotations at that moment
    Create(u64, usize, usize),
    /// time, kind, stub rotations at that moment
    Sent(u64, usize, usize),
}

#[derive(Clone, Debug, PartialEq, Eq, Hash)]
struct ObsB {
    log: Vec<RecB>,
    horizon: u64,
    task_finished: Option<String>,
}

fn raw0() -> Vec<SocketAddr> {
    (1..=8u8)
        .map(|i| SocketAddr::new(IpAddr::V4(Ipv4Addr::new(127, 0, 36, i)), 123))
        .collect()
}

/// First address of the answer of lookup number `k` (k >= 1) after `set_raw(raw0)`.
fn first_answer(raw: &[SocketAddr], k: usize) -> SocketAddr {
    let n = raw.len();
    raw[(n - (k % n)) % n]
}

struct SysB {
    active: Option<ClockId>,
    pending_reg: Option<SourceCreateParameters>,
    log: Vec<RecB>,
}

async fn run_b(phase_ms: u64, grid_ms: u64, slots: &[usize]) -> ObsB {
    let (addr, dns) = dnsp::scripted("single.verif.example", 123);
    let raw = raw0();
    dns.set_raw(&raw);
    let sp = StandardSpawner::new(
        StandardSource {
            address: addr.into(),
            ntp_version: ProtocolVersion::V4,
        },
        SourceConfig::default(),
    );
    let t0 = Instant::now();
    let (action_tx, mut action_rx) = mpsc::channel::<SpawnEvent>(crate::daemon::system::MESSAGE_BUFFER_SIZE);
    let (notify_tx, notify_rx) = mpsc::channel::<SystemEvent>(crate::daemon::system::MESSAGE_BUFFER_SIZE);
    let sys = Arc::new(Mutex::new(SysB {
        active: None,
        pending_reg: None,
        log: Vec::new(),
    }));
    let task = tokio::spawn(spawner_task(sp, action_tx, notify_rx));
    let sys2 = sys.clone();
    let dns2 = dns.clone();
    let raw2 = raw.clone();
    let receiver = tokio::spawn(async move {
        while let Some(ev) = action_rx.recv().await {
            let SpawnAction::Create(params) = ev.action;
            let a = match &params {
                SourceCreateParameters::Ntp(p) => raw2.iter().position(|x| *x == p.addr).unwrap_or(99),
                _ => 99,
            };
            let rot = dns2.rotations_since(&raw2).unwrap_or(usize::MAX);
            let mut s = sys2.lock().unwrap();
            s.active = Some(params.get_id());
            s.pending_reg = Some(params);
            s.log.push(RecB::Create(us(t0), a, rot));
        }
    });
    for (k, kind) in slots.iter().enumerate() {
        let at = t0 + Duration::from_millis(phase_ms + grid_ms * k as u64);
        tokio::time::sleep_until(at).await;
        let rot = dns.rotations_since(&raw).unwrap_or(usize::MAX);
        let ev = {
            let mut s = sys.lock().unwrap();
            match *kind {
                K_NONE => None,
                K_IDLE => {
                    s.log.push(RecB::Sent(us(t0), K_IDLE, rot));
                    Some(SystemEvent::Idle)
                }
                K_REG => s.pending_reg.take().map(|p| {
                    s.log.push(RecB::Sent(us(t0), K_REG, rot));
                    SystemEvent::SourceRegistered(p)
                }),
                k => s.active.take().map(|id| {
                    s.pending_reg = None;
                    s.log.push(RecB::Sent(us(t0), k, rot));
                    SystemEvent::source_removed(id, reason_of(k))
                }),
            }
        };
        if let Some(ev) = ev {
            let _ = notify_tx.send(ev).await;
        }
    }
    let last = phase_ms + grid_ms * (slots.len().max(1) as u64 - 1);
    let horizon_ms = last + 2500;
    tokio::time::sleep_until(t0 + Duration::from_millis(horizon_ms)).await;
    let task_finished = if task.is_finished() {
        Some(match task.await {
            Ok(Ok(())) => "returned Ok".to_string(),
            Ok(Err(e)) => format!("returned Err({e})"),
            Err(e) => format!("join error: {e}"),
        })
    } else {
        task.abort();
        let _ = task.await;
        None
    };
    drop(notify_tx);
    receiver.abort();
    let _ = receiver.await;
    let log = sys.lock().unwrap().log.clone();
    ObsB {
        log,
        horizon: horizon_ms * MS,
        task_finished,
    }
}

#[derive(Default)]
struct FactsB {
    creates: u64,
    demobilized: bool,
    respawn_after_unreachable: u64,
    respawn_after_network_issue_cached: u64,
    respawn_after_network_issue_fresh: u64,
    lookups: usize,
    removals_sent: u64,
    registered_sent: u64,
}

fn judge_b(o: &ObsB) -> (Vec<(&'static str, String)>, FactsB) {
    let raw = raw0();
    let mut v = Vec::new();
    let mut f = FactsB::default();
    if let Some(t) = &o.task_finished {
        v.push(("C36:task-ended", format!("spawner_task ended while the system channel was open: {t}")));
    }
    let mut demob_at: Option<u64> = None;
    let mut last_create: Option<u64> = None;
    // (deadline, reason kind, rotations at removal, removal time)
    let mut awaiting: Option<(u64, usize, usize, u64)> = Some((WAIT + SLACK, K_NONE, 0, 0));
    for r in &o.log {
        match r {
            RecB::Create(t, a, rot) => {
                f.creates += 1;
                f.lookups = f.lookups.max(*rot);
                if let Some(d) = demob_at {
                    v.push((
                        "C36:demobilized-respawned",
                        format!("source demobilised at {d} us, yet a new source was created at {t} us"),
                    ));
                }
                if let Some(l) = last_create {
                    if *t < l + WAIT {
                        v.push(("C36:spawn-too-early", format!("sources created at {l} us and {t} us, less than 1 s apart")));
                    }
                }
                if *rot == 0 || *rot == usize::MAX || *a >= raw.len() || raw[*a] != first_answer(&raw, *rot) {
                    v.push((
                        "C36:address-not-from-latest-lookup",
                        format!("source created at {t} us for address #{a} after {rot} lookups; the latest answer starts with {}", first_answer(&raw, *rot)),
                    ));
                }
                if let Some((dl, kind, rot0, ts)) = awaiting.take() {
                    if *t > dl {
                        v.push(("C36:spawn-stalled", format!("spawn due by {dl} us (removal/start at {ts} us) happened at {t} us")));
                    }
                    match kind {
                        K_RU => {
                            f.respawn_after_unreachable += 1;
                            if *rot <= rot0 {
                                v.push((
                                    "C36:unreachable-not-reresolved",
                                    format!("source removed as unreachable at {ts} us ({rot0} lookups so far); respawned at {t} us without a new lookup ({rot} lookups), address #{a} reused"),
                                ));
                            }
                        }
                        K_RN => {
                            if *rot > rot0 {
                                f.respawn_after_network_issue_fresh += 1;
                            } else {
                                f.respawn_after_network_issue_cached += 1;
                            }
                        }
                        _ => {}
                    }
                }
                last_create = Some(*t);
            }
            RecB::Sent(t, kind, rot) => match *kind {
                K_RD => {
                    f.removals_sent += 1;
                    f.demobilized = true;
                    demob_at = Some(*t);
                    awaiting = None;
                }
                K_RN | K_RU => {
                    f.removals_sent += 1;
                    let dl = (*t).max(last_create.map(|l| l + WAIT).unwrap_or(0)) + SLACK;
                    awaiting = Some((dl, *kind, *rot, *t));
                }
                K_REG => f.registered_sent += 1,
                _ => {}
            },
        }
    }
    if let Some((dl, _, _, ts)) = awaiting {
        if dl < o.horizon {
            v.push(("C36:spawn-stalled", format!("spawn due by {dl} us (removal/start at {ts} us) never happened before the horizon {} us", o.horizon)));
        }
    }
    (v, f)
}

fn trace_b(phase: u64, grid: u64, slots: &[usize]) -> String {
    format!("B;phase={phase};grid={grid};slots={}", slots_str(slots))
}

// ---------------------------------------------------------------------------------------------
// Part C: real StandardSpawner, DNS outcome scripted PER ATTEMPT (incl. failing lookups)
// ---------------------------------------------------------------------------------------------
// The real `StandardSpawner` is wrapped in `Wrap`, a pure forwarding adapter implementing the
// `Spawner` trait: every trait method delegates to the inner real spawner unchanged; `try_spawn`
// additionally (a) installs the DNS outcome scripted for this attempt in the cfg(test) DNS stub
// before delegating, (b) logs the attempt's start/end in virtual time and (c) reads back whether the
// stub list rotated, i.e. whether this attempt performed a lookup. The real `spawner_task` loop runs
// `Wrap`, so pacing, event delivery and the spawner's own state are all the code under test.
//
// DNS outcomes (what a lookup performed during that attempt answers):
//   a : [A, pads]      -> resolves to A          b : [B, pads]  -> resolves to B (changed address)
//   m : [B, A, pads]   -> both, B first          f : [pads only] -> answer without any connectable
//   e : []  (empty answer, "unknown domain name")                   address: resolution fails
// pads = 255.255.255.255:900x, for which UDP connect() fails (verified at start-up); they make the
// rotation of the stub list visible for one-address answers. The `Err(..)` result of `lookup_host`
// itself cannot be produced through the stub; in `resolve_single_ntp_server` it joins `e` and `f`
// in returning `None`, which is all the spawner sees.
const OUTCOMES: [char; 5] = ['a', 'b', 'm', 'f', 'e'];
const C_ALPHA: [usize; 4] = [K_NONE, K_RD, K_RN, K_RU];

fn addr_a() -> SocketAddr {
    SocketAddr::new(IpAddr::V4(Ipv4Addr::new(127, 0, 36, 1)), 123)
}
fn addr_b() -> SocketAddr {
    SocketAddr::new(IpAddr::V4(Ipv4Addr::new(127, 0, 36, 2)), 123)
}
fn pad(i: u16) -> SocketAddr {
    SocketAddr::new(IpAddr::V4(Ipv4Addr::new(255, 255, 255, 255)), 9000 + i)
}

/// Raw stub list for an outcome (the stub moves the last element to the front before answering).
fn raw_of(o: usize) -> Vec<SocketAddr> {
    match OUTCOMES[o] {
        'a' => vec![addr_a(), pad(1), pad(2), pad(3)],
        'b' => vec![addr_b(), pad(1), pad(2), pad(3)],
        'm' => vec![addr_a(), pad(1), pad(2), addr_b()], // answer: B, A, pad1, pad2
        'f' => vec![pad(1), pad(2), pad(3), pad(4)],
        _ => vec![],
    }
}

/// What one lookup under outcome `o` resolves to (first connectable address of the answer).
fn resolves_to(o: usize) -> Option<SocketAddr> {
    match OUTCOMES[o] {
        'a' => Some(addr_a()),
        'b' | 'm' => Some(addr_b()),
        _ => None,
    }
}

fn addr_name(a: &SocketAddr) -> &'static str {
    if *a == addr_a() {
        "A"
    } else if *a == addr_b() {
        "B"
    } else {
        "?"
    }
}

#[derive(Clone, Debug, PartialEq, Eq, Hash)]
enum RecC {
    /// time, attempt index (0-based), outcome installed
    AttemptStart(u64, usize, usize),
    /// time, lookups performed by this attempt (stub rotations; None when invisible: outcome `e`)
    AttemptEnd(u64, Option<usize>),
    /// time, created address
    Create(u64, SocketAddr),
    /// time, removal kind
    Sent(u64, usize),
}

struct Wrap {
    inner: StandardSpawner,
    dns: DnsScript,
    outcomes: Vec<usize>,
    k: usize,
    t0: Instant,
    log: Arc<Mutex<Vec<RecC>>>,
}

impl Spawner for Wrap {
    type Error = crate::daemon::spawn::standard::StandardSpawnError;

    async fn try_spawn(&mut self, action_tx: &mpsc::Sender<SpawnEvent>) -> Result<(), Self::Error> {
        let o = self.outcomes[self.k.min(self.outcomes.len() - 1)];
        let raw = raw_of(o);
        self.dns.set_raw(&raw);
        self.log.lock().unwrap().push(RecC::AttemptStart(us(self.t0), self.k, o));
        self.k += 1;
        let r = self.inner.try_spawn(action_tx).await;
        let rot = if raw.is_empty() { None } else { self.dns.rotations_since(&raw) };
        self.log.lock().unwrap().push(RecC::AttemptEnd(us(self.t0), rot));
        r
    }
    fn is_complete(&self) -> bool {
        self.inner.is_complete()
    }
    async fn handle_source_removed(&mut self, ev: SourceRemovedEvent) -> Result<(), Self::Error> {
        self.inner.handle_source_removed(ev).await
    }
    async fn handle_registered(&mut self, ev: SourceCreateParameters) -> Result<(), Self::Error> {
        self.inner.handle_registered(ev).await
    }
    fn get_id(&self) -> SpawnerId {
        self.inner.get_id()
    }
    fn get_addr_description(&self) -> String {
        self.inner.get_addr_description()
    }
    fn get_description(&self) -> &'static str {
        self.inner.get_description()
    }
}

#[derive(Clone, Debug, PartialEq, Eq, Hash)]
struct ObsC {
    log: Vec<RecC>,
    horizon: u64,
    task_finished: Option<String>,
}

async fn run_c(phase_ms: u64, grid_ms: u64, slots: &[usize], outcomes: &[usize]) -> ObsC {
    let (addr, dns) = dnsp::scripted("single.verif.example", 123);
    let sp = StandardSpawner::new(
        StandardSource {
            address: addr.into(),
            ntp_version: ProtocolVersion::V4,
        },
        SourceConfig::default(),
    );
    let t0 = Instant::now();
    let log = Arc::new(Mutex::new(Vec::new()));
    let wrap = Wrap {
        inner: sp,
        dns,
        outcomes: outcomes.to_vec(),
        k: 0,
        t0,
        log: log.clone(),
    };
    let (action_tx, mut action_rx) = mpsc::channel::<SpawnEvent>(crate::daemon::system::MESSAGE_BUFFER_SIZE);
    let (notify_tx, notify_rx) = mpsc::channel::<SystemEvent>(crate::daemon::system::MESSAGE_BUFFER_SIZE);
    let active: Arc<Mutex<Option<ClockId>>> = Arc::new(Mutex::new(None));
    let task = tokio::spawn(spawner_task(wrap, action_tx, notify_rx));
    let log2 = log.clone();
    let active2 = active.clone();
    let receiver = tokio::spawn(async move {
        while let Some(ev) = action_rx.recv().await {
            let SpawnAction::Create(params) = ev.action;
            let a = match &params {
                SourceCreateParameters::Ntp(p) => p.addr,
                _ => SocketAddr::new(IpAddr::V4(Ipv4Addr::UNSPECIFIED), 0),
            };
            *active2.lock().unwrap() = Some(params.get_id());
            log2.lock().unwrap().push(RecC::Create(us(t0), a));
        }
    });
    for (k, kind) in slots.iter().enumerate() {
        let at = t0 + Duration::from_millis(phase_ms + grid_ms * k as u64);
        tokio::time::sleep_until(at).await;
        if *kind == K_NONE {
            continue;
        }
        let id = active.lock().unwrap().take();
        if let Some(id) = id {
            log.lock().unwrap().push(RecC::Sent(us(t0), *kind));
            let _ = notify_tx.send(SystemEvent::source_removed(id, reason_of(*kind))).await;
        }
    }
    let last = phase_ms + grid_ms * (slots.len().max(1) as u64 - 1);
    let horizon_ms = last + 2500;
    tokio::time::sleep_until(t0 + Duration::from_millis(horizon_ms)).await;
    let task_finished = if task.is_finished() {
        Some(match task.await {
            Ok(Ok(())) => "returned Ok".to_string(),
            Ok(Err(e)) => format!("returned Err({e})"),
            Err(e) => format!("join error: {e}"),
        })
    } else {
        task.abort();
        let _ = task.await;
        None
    };
    drop(notify_tx);
    receiver.abort();
    let _ = receiver.await;
    let log = log.lock().unwrap().clone();
    ObsC {
        log,
        horizon: horizon_ms * MS,
        task_finished,
    }
}

#[derive(Default)]
struct FactsC {
    attempts: u64,
    attempts_with_lookup: u64,
    attempts_from_cache: u64,
    attempts_failed: u64,
    creates: u64,
    removals: u64,
    demobilized: bool,
    creates_after_unreachable: u64,
    failed_forced_lookup_after_unreachable: u64,
}

/// Statement oracle for part C.
fn judge_c(o: &ObsC) -> (Vec<(&'static str, String)>, FactsC) {
    let mut v = Vec::new();
    let mut f = FactsC::default();
    if let Some(t) = &o.task_finished {
        v.push(("C36:task-ended", format!("spawner_task ended while the system channel was open: {t}")));
    }
    // position (index in the log) and address of the latest SUCCESSFUL lookup
    let mut last_success: Option<(usize, SocketAddr)> = None;
    // log position of the latest Unreachable removal
    let mut last_unreachable: Option<(usize, u64)> = None;
    let mut demob_at: Option<u64> = None;
    let mut cur_attempt: Option<(usize, u64, usize)> = None; // log pos, start, outcome
    let mut last_start: Option<u64> = None;
    let mut last_end: Option<u64> = None;
    // deadline for the next attempt start (None: nothing due)
    let mut due: Option<(u64, String)> = Some((WAIT + SLACK, "start".to_string()));
    let mut attempt_created = false;
    let mut awaiting_after_unreachable = false;
    for (pos, r) in o.log.iter().enumerate() {
        match r {
            RecC::AttemptStart(t, _, out) => {
                f.attempts += 1;
                if let Some(ls) = last_start {
                    if *t < ls + WAIT {
                        v.push(("C36:spawn-too-early", format!("attempts started at {ls} us and {t} us, less than 1 s apart")));
                    }
                }
                if let Some((dl, why)) = due.take() {
                    if *t > dl {
                        v.push(("C36:spawn-stalled", format!("attempt due by {dl} us ({why}) started at {t} us")));
                    }
                }
                last_start = Some(*t);
                cur_attempt = Some((pos, *t, *out));
                attempt_created = false;
            }
            RecC::AttemptEnd(t, rot) => {
                last_end = Some(*t);
                let Some((apos, _, out)) = cur_attempt else { continue };
                match rot {
                    Some(0) => f.attempts_from_cache += 1,
                    Some(_) => {
                        f.attempts_with_lookup += 1;
                        if let Some(a) = resolves_to(out) {
                            last_success = Some((apos, a));
                        } else if awaiting_after_unreachable {
                            f.failed_forced_lookup_after_unreachable += 1;
                        }
                    }
                    None => {}
                }
                // whether this attempt created a source is known once the receiver has logged it
                // (same virtual instant, later in the log); handled in `Create` / at the next record
            }
            RecC::Create(t, a) => {
                f.creates += 1;
                attempt_created = true;
                due = None;
                if let Some(d) = demob_at {
                    v.push(("C36:demobilized-respawned", format!("source demobilised at {d} us, yet a new source was created at {t} us for {}", addr_name(a))));
                }
                match last_success {
                    Some((_, sa)) if sa == *a => {}
                    other => v.push((
                        "C36:address-not-from-latest-lookup",
                        format!("source created at {t} us for {} ({a}); the latest successful lookup gave {:?}", addr_name(a), other.map(|x| x.1)),
                    )),
                }
                if let Some((upos, ut)) = last_unreachable {
                    f.creates_after_unreachable += 1;
                    let fresh = last_success.map(|(lp, _)| lp > upos).unwrap_or(false);
                    if !fresh {
                        v.push((
                            "C36:unreachable-not-reresolved",
                            format!(
                                "source removed as unreachable at {ut} us; the source created at {t} us uses {} ({a}), an address cached from before that removal: no successful lookup was performed after the removal",
                                addr_name(a)
                            ),
                        ));
                    }
                }
                awaiting_after_unreachable = false;
            }
            RecC::Sent(t, kind) => {
                f.removals += 1;
                match *kind {
                    K_RD => {
                        f.demobilized = true;
                        demob_at = Some(*t);
                        due = None;
                    }
                    k => {
                        if k == K_RU {
                            last_unreachable = Some((pos, *t));
                            awaiting_after_unreachable = true;
                        }
                        let dl = (*t).max(last_end.map(|e| e + WAIT).unwrap_or(0)) + SLACK;
                        due = Some((dl, format!("removal at {t} us")));
                    }
                }
            }
        }
        // an attempt that ended without creating a source leaves the spawner incomplete: the next
        // attempt is due one wait period after its end. Evaluate when the following record (or the
        // end of the log) shows that no Create belongs to the attempt.
        if let (RecC::AttemptEnd(t, _), Some(_)) = (r, cur_attempt) {
            let next_is_create = o.log[pos + 1..]
                .iter()
                .take_while(|x| !matches!(x, RecC::AttemptStart(..)))
                .any(|x| matches!(x, RecC::Create(ct, _) if *ct == *t));
            if !next_is_create && demob_at.is_none() {
                f.attempts_failed += 1;
                due = Some((*t + WAIT + SLACK, format!("attempt ended at {t} us without creating a source")));
            }
        }
    }
    if let Some((dl, why)) = due {
        if dl < o.horizon {
            v.push(("C36:spawn-stalled", format!("attempt due by {dl} us ({why}) never started before the horizon {} us", o.horizon)));
        }
    }
    let _ = attempt_created;
    (v, f)
}

fn outcomes_str(o: &[usize]) -> String {
    o.iter().map(|i| OUTCOMES[*i]).collect()
}

fn trace_c(phase: u64, grid: u64, slots: &[usize], outcomes: &[usize]) -> String {
    format!("C;phase={phase};grid={grid};slots={};dns={}", slots_str(slots), outcomes_str(outcomes))
}

/// UDP connect() must fail for the pads and succeed for A and B, otherwise part C's outcomes do not
/// mean what they say in this environment.
fn env_ok_for_c() -> Result<(), String> {
    let rt = rt_all();
    rt.block_on(async {
        use timestamped_socket::socket::{connect_address, GeneralTimestampMode};
        for i in 1..=4 {
            if connect_address(pad(i), GeneralTimestampMode::None).is_ok() {
                return Err(format!("UDP connect to pad {} unexpectedly succeeded", pad(i)));
            }
        }
        for a in [addr_a(), addr_b()] {
            if let Err(e) = connect_address(a, GeneralTimestampMode::None) {
                return Err(format!("UDP connect to {a} failed: {e}"));
            }
        }
        Ok(())
    })
}

// ---------------------------------------------------------------------------------------------
// runtimes, replay, check
// ---------------------------------------------------------------------------------------------
fn rt_time_only() -> tokio::runtime::Runtime {
    tokio::runtime::Builder::new_current_thread()
        .enable_time()
        .start_paused(true)
        .build()
        .expect("runtime")
}

fn rt_all() -> tokio::runtime::Runtime {
    tokio::runtime::Builder::new_current_thread()
        .enable_all()
        .start_paused(true)
        .build()
        .expect("runtime")
}

fn kv<'a>(parts: &'a [&'a str], key: &str) -> Option<&'a str> {
    parts.iter().find_map(|p| p.strip_prefix(key)?.strip_prefix('='))
}

fn replay(ctx: &Ctx, trace: &str) -> String {
    let parts: Vec<&str> = trace.trim().split(';').collect();
    let slots = kv(&parts, "slots").and_then(parse_slots);
    let phase: Option<u64> = kv(&parts, "phase").and_then(|s| s.parse().ok());
    let (Some(slots), Some(phase)) = (slots, phase) else {
        return format!("unparsable trace {trace:?}");
    };
    match parts[0] {
        "A" => {
            let mode = match kv(&parts, "mode") {
                Some("C") => Mode::C,
                Some("I") => Mode::I,
                Some("F") => Mode::F,
                _ => return format!("unparsable mode in {trace:?}"),
            };
            let Some(dur_ms) = kv(&parts, "dur").and_then(|s| s.parse().ok()) else {
                return format!("unparsable dur in {trace:?}");
            };
            let script = Script { mode, dur_ms };
            let rt = rt_time_only();
            let o = rt.block_on(run_a(script, phase, &slots));
            let (vs, _) = judge_a(script, &o);
            for (c, w) in &vs {
                ctx.violation(c, w.clone(), trace);
            }
            // ids come from a global counter: print the observation with ids masked
            let log: Vec<String> = o
                .log
                .iter()
                .map(|r| match r {
                    Rec::TryStart(t) => format!("start@{t}"),
                    Rec::TryEnd(t) => format!("end@{t}"),
                    Rec::Removed(t, _, k) => format!("removed[{}]@{t}", KNAMES[*k]),
                    Rec::Registered(t, _) => format!("registered@{t}"),
                })
                .collect();
            let sends: Vec<String> = o.sends.iter().map(|s| format!("{}@{}", KNAMES[s.1], s.0)).collect();
            format!("sent [{}] -> spawner saw [{}]; creates={}; verdicts={:?}", sends.join(" "), log.join(" "), o.creates, vs)
        }
        "B" => {
            let grid: u64 = kv(&parts, "grid").and_then(|s| s.parse().ok()).unwrap_or(500);
            let rt = rt_all();
            let o = rt.block_on(run_b(phase, grid, &slots));
            let (vs, _) = judge_b(&o);
            for (c, w) in &vs {
                ctx.violation(c, w.clone(), trace);
            }
            let log: Vec<String> = o
                .log
                .iter()
                .map(|r| match r {
                    RecB::Create(t, a, rot) => format!("create(addr#{a},lookups={rot})@{t}"),
                    RecB::Sent(t, k, rot) => format!("sent[{}](lookups={rot})@{t}", KNAMES[*k]),
                })
                .collect();
            format!("[{}]; verdicts={:?}", log.join(" "), vs)
        }
        "C" => {
            let grid: u64 = kv(&parts, "grid").and_then(|s| s.parse().ok()).unwrap_or(500);
            let Some(outcomes) = kv(&parts, "dns").map(|s| s.chars().filter_map(|c| OUTCOMES.iter().position(|o| *o == c)).collect::<Vec<_>>()) else {
                return format!("unparsable dns in {trace:?}");
            };
            if outcomes.is_empty() {
                return format!("empty dns outcome list in {trace:?}");
            }
            let rt = rt_all();
            let o = rt.block_on(run_c(phase, grid, &slots, &outcomes));
            let (vs, _) = judge_c(&o);
            for (c, w) in &vs {
                ctx.violation(c, w.clone(), trace);
            }
            let log: Vec<String> = o
                .log
                .iter()
                .map(|r| match r {
                    RecC::AttemptStart(t, k, out) => format!("attempt#{k}[dns={}]@{t}", OUTCOMES[*out]),
                    RecC::AttemptEnd(_, rot) => format!("lookups={}", rot.map(|r| r.to_string()).unwrap_or("?".into())),
                    RecC::Create(t, a) => format!("create({})@{t}", addr_name(a)),
                    RecC::Sent(t, k) => format!("removed[{}]@{t}", KNAMES[*k]),
                })
                .collect();
            format!("[{}]; verdicts={:?}", log.join(" "), vs)
        }
        _ => format!("unknown trace kind {trace:?}"),
    }
}

/// Observation with ids removed (ids come from process-wide counters).
fn canon_a(o: &ObsA) -> u64 {
    let log: Vec<(u8, u64, usize)> = o
        .log
        .iter()
        .map(|r| match r {
            Rec::TryStart(t) => (0, *t, 0),
            Rec::TryEnd(t) => (1, *t, 0),
            Rec::Removed(t, _, k) => (2, *t, *k),
            Rec::Registered(t, _) => (3, *t, 0),
        })
        .collect();
    let sends: Vec<(u64, usize)> = o.sends.iter().map(|s| (s.0, s.1)).collect();
    common::hash_of(&(log, sends, o.creates, &o.task_finished))
}

/// Per-worker state: a runtime plus thread-local counters / distinct hashes which are flushed into
/// the shared `Ctx` when the worker ends (one lock per worker instead of ~20 per schedule).
struct Worker<'a> {
    rt: tokio::runtime::Runtime,
    ctx: &'a Ctx,
    counters: std::collections::BTreeMap<&'static str, u64>,
    distinct: Vec<u64>,
}

impl<'a> Worker<'a> {
    fn new(ctx: &'a Ctx, rt: tokio::runtime::Runtime) -> Worker<'a> {
        Worker {
            rt,
            ctx,
            counters: Default::default(),
            distinct: Vec::new(),
        }
    }
    fn add(&mut self, k: &'static str, n: u64) {
        if n > 0 {
            *self.counters.entry(k).or_insert(0) += n;
        }
    }
}

impl Drop for Worker<'_> {
    fn drop(&mut self) {
        for (k, v) in &self.counters {
            self.ctx.add(k, *v);
        }
        self.ctx.distinct_many(self.distinct.drain(..));
    }
}

const ATT_KEYS: [&str; 7] = [
    "a_runs_with_0_attempts",
    "a_runs_with_1_attempts",
    "a_runs_with_2_attempts",
    "a_runs_with_3_attempts",
    "a_runs_with_4_attempts",
    "a_runs_with_5_attempts",
    "a_runs_with_6plus_attempts",
];

fn sweep_a(ctx: &Ctx, scripts: &[Script], n: usize, phases: &[u64]) -> u64 {
    let words = common::pow(6, n);
    let total = scripts.len() as u64 * phases.len() as u64 * words;
    common::par_for_with(
        total,
        512,
        || Worker::new(ctx, rt_time_only()),
        |wk, i| {
            let w = common::word_of(i % words, 6, n);
            let rest = i / words;
            let phase = phases[(rest % phases.len() as u64) as usize];
            let script = scripts[(rest / phases.len() as u64) as usize];
            let o = match common::catch(|| wk.rt.block_on(run_a(script, phase, &w))) {
                Ok(o) => o,
                Err(p) => {
                    ctx.violation("C36:panic", format!("panic: {p}"), trace_a(script, phase, &w));
                    wk.rt = rt_time_only();
                    return;
                }
            };
            let (vs, f) = judge_a(script, &o);
            wk.add("evaluations", 1);
            wk.add("a_schedules", 1);
            wk.add("transitions", o.log.len() as u64);
            wk.add("a_attempts", f.attempts);
            wk.add(ATT_KEYS[f.attempts.min(6) as usize], 1);
            wk.add("a_removal_during_attempt", f.removal_during_attempt);
            wk.add("a_removal_immediate_respawn", f.removal_immediate_respawn);
            wk.add("a_removal_waited_for_ticket", f.removal_waited_for_ticket);
            wk.add("a_removal_tie_with_attempt_start", f.tie_at_start);
            wk.add("a_deadlines_beyond_horizon_no_verdict", f.no_verdict_beyond_horizon);
            wk.add("a_events_sent", o.sends.len() as u64);
            wk.add("a_sources_created", o.creates);
            for (c, what) in vs {
                ctx.violation(c, what, trace_a(script, phase, &w));
            }
            if !o.sends.is_empty() {
                wk.distinct.push(canon_a(&o));
            }
            if i % 61 == 0 {
                let o2 = wk.rt.block_on(run_a(script, phase, &w));
                wk.add("determinism_reruns", 1);
                if canon_a(&o2) != canon_a(&o) {
                    ctx.violation("C36:harness-nondeterminism", "two executions of one schedule differ", trace_a(script, phase, &w));
                }
            }
            if n == 5 && i % 46_657 == 77 {
                let tmp = Ctx::new("C36");
                ctx.sample(format!("{} => {}", trace_a(script, phase, &w), replay(&tmp, &trace_a(script, phase, &w))));
            }
        },
    );
    total
}

fn sweep_b(ctx: &Ctx, n: usize, grid: u64, phases: &[u64]) -> u64 {
    let words = common::pow(6, n);
    let total = phases.len() as u64 * words;
    common::par_for_with(
        total,
        128,
        || Worker::new(ctx, rt_all()),
        |wk, i| {
            let w = common::word_of(i % words, 6, n);
            let phase = phases[(i / words) as usize];
            let o = match common::catch(|| wk.rt.block_on(run_b(phase, grid, &w))) {
                Ok(o) => o,
                Err(p) => {
                    ctx.violation("C36:panic", format!("panic: {p}"), trace_b(phase, grid, &w));
                    wk.rt = rt_all();
                    return;
                }
            };
            let (vs, f) = judge_b(&o);
            wk.add("evaluations", 1);
            wk.add("b_schedules", 1);
            wk.add("transitions", o.log.len() as u64);
            wk.add("b_sources_created", f.creates);
            wk.add("b_removals_sent", f.removals_sent);
            wk.add("b_registered_sent", f.registered_sent);
            wk.add("b_lookups_observed", f.lookups as u64);
            wk.add("b_runs_with_demobilisation", f.demobilized as u64);
            wk.add("b_respawns_after_unreachable", f.respawn_after_unreachable);
            wk.add("b_respawns_after_network_issue_cached_address", f.respawn_after_network_issue_cached);
            wk.add("b_respawns_after_network_issue_fresh_lookup", f.respawn_after_network_issue_fresh);
            for (c, what) in vs {
                ctx.violation(c, what, trace_b(phase, grid, &w));
            }
            if f.removals_sent + f.registered_sent > 0 {
                wk.distinct.push(common::hash_of(&("B", &o.log)));
            }
            if i % 61 == 0 {
                let o2 = wk.rt.block_on(run_b(phase, grid, &w));
                wk.add("determinism_reruns", 1);
                if o2 != o {
                    ctx.violation("C36:harness-nondeterminism", "two executions of one schedule differ", trace_b(phase, grid, &w));
                }
            }
            if n == 5 && i % 5_001 == 1_234 {
                let tmp = Ctx::new("C36");
                ctx.sample(format!("{} => {}", trace_b(phase, grid, &w), replay(&tmp, &trace_b(phase, grid, &w))));
            }
        },
    );
    total
}

fn sweep_c(ctx: &Ctx, n: usize, m: usize, grid: u64, phases: &[u64]) -> u64 {
    let words = common::pow(4, n);
    let dns_words = common::pow(5, m);
    let total = phases.len() as u64 * words * dns_words;
    common::par_for_with(
        total,
        256,
        || Worker::new(ctx, rt_all()),
        |wk, i| {
            let dw = common::word_of(i % dns_words, 5, m);
            let rest = i / dns_words;
            let w: Vec<usize> = common::word_of(rest % words, 4, n).into_iter().map(|x| C_ALPHA[x]).collect();
            let phase = phases[(rest / words) as usize];
            let o = match common::catch(|| wk.rt.block_on(run_c(phase, grid, &w, &dw))) {
                Ok(o) => o,
                Err(p) => {
                    ctx.violation("C36:panic", format!("panic: {p}"), trace_c(phase, grid, &w, &dw));
                    wk.rt = rt_all();
                    return;
                }
            };
            let (vs, f) = judge_c(&o);
            wk.add("evaluations", 1);
            wk.add("c_schedules", 1);
            wk.add("transitions", o.log.len() as u64);
            wk.add("c_attempts", f.attempts);
            wk.add("c_attempts_with_lookup", f.attempts_with_lookup);
            wk.add("c_attempts_from_cached_address", f.attempts_from_cache);
            wk.add("c_attempts_without_source_created", f.attempts_failed);
            wk.add("c_sources_created", f.creates);
            wk.add("c_removals_sent", f.removals);
            wk.add("c_runs_with_demobilisation", f.demobilized as u64);
            wk.add("c_creates_after_unreachable", f.creates_after_unreachable);
            wk.add("c_failed_lookups_while_unreachable_pending", f.failed_forced_lookup_after_unreachable);
            for (c, what) in vs {
                ctx.violation(c, what, trace_c(phase, grid, &w, &dw));
            }
            if f.removals > 0 || f.attempts_failed > 0 {
                wk.distinct.push(common::hash_of(&("C", &o.log)));
            }
            if i % 61 == 0 {
                let o2 = wk.rt.block_on(run_c(phase, grid, &w, &dw));
                wk.add("determinism_reruns", 1);
                if o2 != o {
                    ctx.violation("C36:harness-nondeterminism", "two executions of one schedule differ", trace_c(phase, grid, &w, &dw));
                }
            }
            if n == 4 && i % 39_989 == 20_011 {
                let tmp = Ctx::new("C36");
                let t = trace_c(phase, grid, &w, &dw);
                ctx.sample(format!("{t} => {}", replay(&tmp, &t)));
            }
        },
    );
    total
}

#[test]
fn check() {
    let ctx = Ctx::new("C36");
    if let Some(t) = common::replay_trace() {
        let a = replay(&ctx, &t);
        let b = replay(&ctx, &t);
        common::report_replay("C36", &a, &b, ctx.violation_count() > 0);
        return;
    }
    let quick = ctx.quick();
    // (slots, phases) blocks; block 0 is the quick tier, thorough runs all of them in this order
    let blocks_a: Vec<(usize, Vec<u64>)> = if quick {
        vec![(5, vec![0, 1, 50, 249])]
    } else {
        vec![
            (5, vec![0, 1, 50, 249]),
            (6, vec![49, 51, 199, 200, 201]),
            (7, vec![0, 1, 50, 249]),
        ]
    };
    let blocks_b: Vec<(usize, Vec<u64>)> = if quick {
        vec![(5, vec![0, 1])]
    } else {
        vec![(5, vec![0, 1]), (6, vec![0, 1, 499])]
    };
    // part C: (removal slots n, dns outcomes per attempt m, phases)
    let blocks_c: Vec<(usize, usize, Vec<u64>)> = if quick {
        vec![(4, 4, vec![0])]
    } else {
        vec![(4, 4, vec![0]), (5, 4, vec![0, 1])]
    };
    let grid_b = 500u64;
    ctx.rule(&format!(
        "A: real spawner_task + scripted spawner, scripts {{C,I,F}} x durations {{0,300,1200}} ms, ALL 6^n placements of \
         {{none,Idle,Registered,Removed(D),Removed(N),Removed(U)}} on n slots of a 250 ms grid shifted by each phase, \
         (n, phases ms) blocks {blocks_a:?}; B: real spawner_task + real StandardSpawner + scripted DNS stub, ALL 6^n \
         placements on n slots of a {grid_b} ms grid, blocks {blocks_b:?}; C: real spawner_task + real StandardSpawner (behind a \
         forwarding adapter that scripts the DNS outcome of every attempt), ALL 4^n placements of {{none,Removed(D),Removed(N),Removed(U)}} \
         on n slots of the {grid_b} ms grid x ALL 5^m sequences of per-attempt DNS outcomes {{a:[A], b:[B], m:[B,A], f:no connectable \
         address, e:empty answer}} (attempts beyond m repeat the last), (n, m, phases) blocks {blocks_c:?}. Virtual time (tokio paused clock, auto-advance to \
         the next timer). A case is distinct & non-trivial by its observation (attempt/handler/creation times and kinds, ids \
         masked) when at least one event was sent."
    ));
    ctx.assume("tokio's paused clock + current-thread scheduler: timers fire at their deadline rounded up to 1 ms; tasks that become ready at the same virtual instant run in tokio's deterministic FIFO order (both orders around an instant are covered by the +-1 ms phases)");
    ctx.assume("part A: completeness after an attempt is the script's; any Removed makes the scripted spawner incomplete");
    ctx.assume("part B: the DNS stub always answers (8 distinct loopback addresses) and UDP connect() to 127.0.36.x succeeds, so every attempt of the real StandardSpawner creates a source; lookups are counted by the rotation of the stub list");
    ctx.assume("part C: pads 255.255.255.255:900x are unconnectable and 127.0.36.1/2 connectable (checked at start-up, else part C is skipped and reported as a cap); the Err result of lookup_host cannot be produced through the stub - in resolve_single_ntp_server it returns None exactly like the empty and the unconnectable answer; the adapter Wrap forwards every Spawner method unchanged");
    ctx.assume("NtsSpawner (nts.rs) is not driven: it needs a TCP+TLS key-exchange peer; by reading, its handle_source_removed clears has_spawned for every reason");

    let scripts: Vec<Script> = MODES
        .iter()
        .flat_map(|m| DURS.iter().map(move |d| Script { mode: *m, dur_ms: *d }))
        .collect();
    let mut complete = true;
    let mut expected_a = 0u64;
    for (bi, (n, phases)) in blocks_a.iter().enumerate() {
        if bi > 0 && ctx.over_budget() {
            ctx.cap_hit(&format!("part A block (n={n}, phases {phases:?}) not started; earlier blocks complete"));
            complete = false;
            break;
        }
        expected_a += sweep_a(&ctx, &scripts, *n, phases);
    }
    ctx.set("a_schedules_expected", expected_a);
    ctx.set("a_wall_ms", (ctx.elapsed_s() * 1000.0) as u64);
    let mut expected_b = 0u64;
    for (bi, (n, phases)) in blocks_b.iter().enumerate() {
        if bi > 0 && ctx.over_budget() {
            ctx.cap_hit(&format!("part B block (n={n}, phases {phases:?}) not started; earlier blocks complete"));
            complete = false;
            break;
        }
        expected_b += sweep_b(&ctx, *n, grid_b, phases);
    }
    ctx.set("b_schedules_expected", expected_b);
    ctx.set("b_wall_ms", (ctx.elapsed_s() * 1000.0) as u64);
    let mut expected_c = 0u64;
    match env_ok_for_c() {
        Ok(()) => {
            for (bi, (n, m, phases)) in blocks_c.iter().enumerate() {
                if bi > 0 && ctx.over_budget() {
                    ctx.cap_hit(&format!("part C block (n={n}, m={m}, phases {phases:?}) not started; earlier blocks complete"));
                    complete = false;
                    break;
                }
                expected_c += sweep_c(&ctx, *n, *m, grid_b, phases);
            }
        }
        Err(e) => {
            ctx.cap_hit(&format!("part C not run: environment does not give the DNS outcomes their meaning: {e}"));
            complete = false;
        }
    }
    ctx.set("c_schedules_expected", expected_c);
    ctx.set("total_wall_ms", (ctx.elapsed_s() * 1000.0) as u64);
    ctx.set("states", ctx.distinct_count());
    ctx.exhaustive(complete);
    ctx.finish();
}
