//! C36: not implemented yet.
