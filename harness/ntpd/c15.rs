//! C15 (daemon level) — the access policy is enforced on the address the REAL socket reports.
//!
//! The library-level module (harness/ntp_proto/c15.rs) enumerates the policy lattice against
//! `Server::handle` with a client address *argument*. Here the real `ServerTask` is spawned
//! with the daemon's own `config::ServerConfig` (converted exactly as `System::add_server`
//! does) and real datagrams are sent from real client sockets bound to 127.0.0.1, 127.0.0.2,
//! 127.0.1.1, 127.1.0.1 and ::1 — through an IPv4 listener on 127.0.0.1, a wildcard IPv4
//! listener, and a dual-stack `[::]` listener (IPv4 clients then appear as ::ffff:a.b.c.d).
//! What comes back on the client socket (nothing / time / DENY / NTS-NAK) is classified by the
//! harness' own walker and compared with a reference decision written from the statement
//! (`reference()` in c16.rs). "Nothing came back" is decided by the answer to a sentinel poll
//! sent after the request, never by a short timeout.
//!
//! Rig, grammar, walker, configurations and reference live in c16.rs (`pub(super)`).
#![allow(clippy::all)]

use std::net::IpAddr;
use std::sync::atomic::{AtomicU64, Ordering};

use ntp_proto::FilterAction;

use super::c16::{
    Au, CLOCK_TS, Case, Cfg, Ck, Dg, Expect, F, Form, Kind, Listen, Nts, Obs, Req, Rig, Sentinel, Session, Tally, T_UID,
    CL_6, CL_A, CL_B, CL_C, CL_D, crypto_self_test, fresh_id, id_offset, machinery, obs_text, reference, run_case,
};
use super::common::{self, Ctx};

/// D15: the request alphabet of the policy sweep (symbolic; built with a fresh id per use).
fn d15(thorough: bool) -> Vec<Req> {
    let nts = |ver: u8, ck: Ck, au: Au| {
        let mut f = vec![F::Uid(32), F::Cookie(ck), F::Auth(au, vec![])];
        if ver == 5 {
            f.insert(0, F::Draft(true));
        }
        Req::new(ver, f)
    };
    let mut v = vec![
        Req::new(4, vec![]),
        Req::new(3, vec![]),
        Req::new(5, vec![F::Draft(true)]),
        Req::new(4, vec![F::Uid(32)]),
        nts(4, Ck::Cur, Au::Ok),
        nts(4, Ck::Prev, Au::Ok),
        nts(4, Ck::Next, Au::Ok),
        nts(4, Ck::Cur, Au::BadTag),
        nts(4, Ck::Garbage, Au::Ok),
        nts(5, Ck::Cur, Au::Ok),
        nts(5, Ck::Cur, Au::BadTag),
        // non-client
        Req::new(4, vec![]).mode(4),
        nts(4, Ck::Cur, Au::Ok).mode(1),
        nts(4, Ck::Cur, Au::BadTag).mode(4),
        // malformed / other protocol
        Req::new(2, vec![]),
        Req::new(7, vec![]),
        Req::new(5, vec![F::Draft(false)]),
        Req::new(5, vec![]),
        Req::new(4, vec![F::Raw(T_UID, 64, 28)]),
    ];
    if thorough {
        v.push(Req::new(4, vec![]).tail(20));
        v.push(Req::new(3, vec![]).tail(20));
        v.push(nts(4, Ck::Cur, Au::Ok).alg512());
        v.push(nts(4, Ck::WrongKey, Au::Ok));
        v.push(nts(4, Ck::Cur, Au::WrongKey));
        v.push(Req::new(4, vec![F::Uid(32), F::Cookie(Ck::Cur), F::Auth(Au::Ok, vec![F::Ph(0), F::Ph(0)])]));
        v.push(Req::new(5, vec![F::Draft(true), F::Uid(32), F::Cookie(Ck::Cur), F::Auth(Au::BadTag, vec![])]).mode(4));
        v.push(Req::new(5, vec![F::Draft(false), F::Uid(32), F::Cookie(Ck::Cur), F::Auth(Au::BadTag, vec![])]));
        for m in [0u8, 2, 5, 6, 7] {
            v.push(Req::new(4, vec![]).mode(m));
        }
        v.push(Req::new(0, vec![]));
        v.push(Req::new(4, vec![F::Raw(T_UID, 30, 28)]));
    }
    v
}

/// Datagrams that are not produced by the builder.
fn raw_d15() -> Vec<Dg> {
    let poll = Req::new(4, vec![]).build(fresh_id());
    vec![
        poll.truncated(47),
        poll.truncated(0),
        poll.truncated(1),
        Dg::raw("ff*48", vec![0xFF; 48], Form::Malformed),
        Dg::raw("ff*120", vec![0xFF; 120], Form::Malformed),
    ]
}

fn configs(thorough: bool) -> Vec<Cfg> {
    let denies: &[&'static str] = if thorough {
        &["none", "b32", "a32", "ab24", "abc16", "abcd9", "v6one", "v6all", "b32+v6", "all"]
    } else {
        &["none", "b32", "ab24", "abcd9", "v6one"]
    };
    let allows: &[&'static str] = if thorough {
        &["all", "none", "b32", "a32", "ab24", "abc16", "abcd9", "v6one", "b32+v6"]
    } else {
        &["all", "a32", "abc16", "v6one"]
    };
    let versions: &[&'static str] = if thorough { &["34", "4", "345", "5", "3", "45"] } else { &["34", "345", "5"] };
    let listens: &[Listen] = if thorough { &Listen::ALL } else { &[Listen::Lo4, Listen::Any6] };
    let acts = [FilterAction::Ignore, FilterAction::Deny];
    let mut v = vec![];
    for &listen in listens {
        for &deny in denies {
            for &allow in allows {
                for deny_act in acts {
                    for allow_act in acts {
                        for require_nts in [None, Some(FilterAction::Ignore), Some(FilterAction::Deny)] {
                            for &ver in versions {
                                // an NTPv3-only server cannot require NTS and serve anybody: skip the
                                // combination that has no sentinel
                                if ver == "3" && require_nts.is_some() {
                                    continue;
                                }
                                v.push(Cfg {
                                    listen,
                                    deny,
                                    deny_act,
                                    allow,
                                    allow_act,
                                    require_nts,
                                    versions: ver,
                                    rate_limit: false,
                                });
                            }
                        }
                    }
                }
            }
        }
    }
    // rate limiting on: one configuration per list shape class (the limiter itself is C20)
    for &listen in listens {
        for (deny, allow) in [("none", "all"), ("b32", "all"), ("none", "a32"), ("v6one", "all")] {
            for act in acts {
                v.push(Cfg { deny, allow, deny_act: act, allow_act: act, rate_limit: true, ..Cfg::open(listen) });
            }
        }
    }
    v
}

fn clients(l: Listen) -> Vec<IpAddr> {
    match l {
        Listen::Any6 => vec![CL_A, CL_B, CL_C, CL_D, CL_6],
        _ => vec![CL_A, CL_B, CL_C, CL_D],
    }
}

fn kind_name(k: Option<Kind>) -> &'static str {
    match k {
        None => "none",
        Some(k) => k.code(),
    }
}

/// Compare one observed answer (or its absence) with the reference.
fn judge_one(ctx: &Ctx, t: &mut Tally, case: &Case, exp: &Expect, got: Option<&super::c16::Answer>, what: &str) {
    let k = got.map(|a| a.kind);
    t.inc(&format!("outcome.{}.{}", exp.clause, kind_name(k)));
    if k.is_none() && exp.deny {
        // "at most a DENY": which requests of refused clients are dropped silently
        t.inc(&format!("denied_silently.{}", case.dg.name.split('#').next().unwrap_or("")));
    }
    if !exp.permits(k) {
        let class = match exp.clause {
            "malformed" | "non-client" | "version" => format!("C15:daemon-{}-answered", exp.clause),
            c => format!("C15:daemon-{}:got-{}", c, kind_name(k)),
        };
        ctx.violation(
            &class,
            format!(
                "{} [{}] from {} under {}: expected {}{}{}{}, got {} {}",
                case.dg.name,
                what,
                case.client,
                case.cfg.code(),
                if exp.none { "none " } else { "" },
                if exp.time { "time " } else { "" },
                if exp.deny { "DENY " } else { "" },
                if exp.nak { "NAK " } else { "" },
                kind_name(k),
                got.map(|a| format!("({} bytes)", a.raw.len())).unwrap_or_default()
            ),
            case.trace(),
        );
        return;
    }
    let Some(a) = got else { return };
    let id = id_offset(&case.dg.bytes).map(|o| u64::from_be_bytes(case.dg.bytes[o..o + 8].try_into().unwrap()));
    match a.kind {
        Kind::Time => {
            if Some(a.echo) != id || a.transmit != CLOCK_TS {
                ctx.violation(
                    "C15:daemon-time-answer-unusable",
                    format!("time answer to {} does not echo the request id / carry the clock reading", case.dg.name),
                    case.trace(),
                );
            }
            if case.dg.nts == Nts::Valid && matches!(exp.clause, "legit-nts" | "legit-nts-tight") {
                match a.open_nts(&Session { alg512: case.dg.alg512 }) {
                    Ok(_) => t.inc("nts_time_answers_authenticated"),
                    Err(e) => ctx.violation(
                        "C15:daemon-legit-nts:answer-not-authenticated",
                        format!("time answer to {}: {e}", case.dg.name),
                        case.trace(),
                    ),
                }
            }
        }
        _ => {
            // a refusal must not leak the time
            let needle = CLOCK_TS.to_be_bytes();
            if a.raw.windows(8).any(|w| w == needle) {
                ctx.violation(
                    &format!("C15:daemon-{}-answer-carries-time", a.kind.code()),
                    format!("{} answer to {} contains the clock reading", a.kind.code(), case.dg.name),
                    case.trace(),
                );
            }
        }
    }
}

fn judge(ctx: &Ctx, t: &mut Tally, case: &Case, o: &Obs) {
    t.add("evaluations", case.copies as u64);
    t.add("transitions", case.copies as u64);
    if o.sentinel != Sentinel::Ok {
        // the sentinel is itself a well-formed, accepted-version request from a client that passes
        // both lists and is not rate-limited: it must receive time
        ctx.violation(
            "C15:daemon-sentinel-not-served",
            format!(
                "sentinel poll from 127.200.x.y under {}: {:?} (after {} from {}); statistics moved: {}",
                case.cfg.code(),
                o.sentinel,
                case.dg.name,
                case.client,
                super::c16::fmt_delta(&super::c16::delta(&o.before, &o.after))
            ),
            case.trace(),
        );
        return;
    }
    // the address the server socket sees: the client's own (an IPv4 client of the dual-stack
    // listener is seen IPv4-mapped, which the policy must treat as IPv4)
    let seen = match (case.cfg.listen, case.client) {
        (Listen::Any6, IpAddr::V4(v4)) => IpAddr::V6(v4.to_ipv6_mapped()),
        (_, ip) => ip,
    };
    if o.answers.len() > case.copies {
        ctx.violation(
            "C15:daemon-multiple-answers",
            format!("{} copies of {} drew {} answers", case.copies, case.dg.name, o.answers.len()),
            case.trace(),
        );
        return;
    }
    let first = reference(&case.cfg, seen, &case.dg, false, case.rotated);
    if first.clause.starts_with("legit") || first.clause.starts_with("nts-") || first.clause.ends_with("-deny") {
        t.distinct.push(common::hash_of(&(case.cfg.code(), case.client, &case.dg.name, case.rotated, case.copies)));
    }
    if case.copies == 1 {
        judge_one(ctx, t, case, &first, o.answers.first(), "single");
        return;
    }
    // two copies back to back under a one-slot rate limiter: the second one of a client that
    // passed the lists is rate-limited (nothing); a listed client is never limited
    let passes = !matches!(first.clause, "deny-list-ignore" | "deny-list-deny" | "allow-list-ignore" | "allow-list-deny" | "malformed" | "non-client" | "version");
    let second = reference(&case.cfg, seen, &case.dg, case.cfg.rate_limit && passes, case.rotated);
    // answers arrive in order: the first one is attributed to the first copy
    let mut it = o.answers.iter();
    judge_one(ctx, t, case, &first, it.next(), "copy 1");
    judge_one(ctx, t, case, &second, it.next(), "copy 2");
    if case.cfg.rate_limit && passes {
        let d = o.own_delta();
        if d[4] != 1 {
            ctx.violation(
                "C15:daemon-rate-limit-not-applied",
                format!("second copy of {} within the cut-off: rate_limited moved by {}", case.dg.name, d[4]),
                case.trace(),
            );
        }
    }
}

fn replay(ctx: &Ctx, trace: &str) -> String {
    let Some(case) = Case::parse(trace) else {
        return format!("unparsable trace {trace}");
    };
    match run_case(&case) {
        Err(e) => format!("rig: {e}"),
        Ok(o) => {
            let mut t = Tally::default();
            judge(ctx, &mut t, &case, &o);
            obs_text(&o)
        }
    }
}

#[test]
fn check() {
    let ctx = Ctx::new("C15");
    if let Some(t) = common::replay_trace() {
        let a = replay(&ctx, &t);
        let b = replay(&ctx, &t);
        common::report_replay("C15", &a, &b, ctx.violation_count() > 0);
        return;
    }
    let thorough = !ctx.quick();
    ctx.rule(
        "daemon level: full product listener x deny list x allow list x deny action x allow action x require-nts x accepted \
         versions (+ rate-limited configurations), each spawned as a real ServerTask; x real client address (127.0.0.1, \
         127.0.0.2, 127.0.1.1, 127.1.0.1, ::1; IPv4-mapped through the dual-stack listener) x request alphabet D15 x key-set \
         state (initial, rotated through the watch channel); a case is distinct and non-trivial when the reference expects \
         time, DENY or NAK to be possible",
    );
    ctx.assume("the sentinel address 127.200.0.0/16 is on every allow list and outside every deny list (the widest deny prefix is 127.0.0.0/9), so the sentinel must always be served");
    ctx.assume("a datagram labelled malformed by construction (short, unknown version, length field overrun, wrong or missing NTPv5 draft id) is malformed for the statement");
    ctx.assume("loopback delivers the task's answer before the sentinel's answer; stale datagrams are reported as CAP");
    if let Err(e) = crypto_self_test() {
        ctx.cap_hit(&format!("crypto self test failed: {e}"));
        ctx.exhaustive(false);
        ctx.finish();
        return;
    }
    let cfgs = configs(thorough);
    ctx.set("states", cfgs.len() as u64);
    let failed = AtomicU64::new(0);
    common::par_for(cfgs.len() as u64, 4, |i| {
        let cfg = &cfgs[i as usize];
        let mut t = Tally::default();
        let mut rig = match Rig::spawn(cfg) {
            Ok(r) => r,
            Err(e) => {
                ctx.cap_hit(&format!("could not spawn the server for {}: {e}", cfg.code()));
                failed.fetch_add(1, Ordering::Relaxed);
                return;
            }
        };
        t.inc(&format!("configs.{}", cfg.listen.code()));
        if rig.st.first_sentinel != Sentinel::Ok {
            let dg = super::c16::sentinel_request(cfg, fresh_id());
            let case = Case { cfg: cfg.clone(), rotated: false, client: "127.200.0.1".parse().unwrap(), copies: 1, broadcast: false, dg };
            ctx.violation(
                "C15:daemon-sentinel-not-served",
                format!(
                    "first sentinel poll from 127.200.0.1 under {}: {:?}; task statistics: {}",
                    cfg.code(),
                    rig.st.first_sentinel,
                    super::c16::fmt_delta(&super::c16::delta(&[0; 11], &super::c16::snap(&rig.st.stats)))
                ),
                case.trace(),
            );
            failed.fetch_add(1, Ordering::Relaxed);
            t.flush(&ctx);
            return;
        }
        // (an NTPv3-only server has no NTS, hence nothing that depends on the key set)
        let phases: &[bool] = if cfg.rate_limit || !(cfg.accepts(4) || cfg.accepts(5)) { &[false] } else { &[false, true] };
        'unit: for &rotated in phases {
            if rotated {
                if let Err(e) = rig.rotate_keys() {
                    ctx.cap_hit(&format!("key rotation failed for {}: {e}", cfg.code()));
                    failed.fetch_add(1, Ordering::Relaxed);
                    break;
                }
            }
            for client in clients(cfg.listen) {
                let mut dgs: Vec<Dg> = d15(thorough).iter().map(|r| r.build(fresh_id())).collect();
                dgs.extend(raw_d15());
                if rotated {
                    dgs.retain(|d| d.nts != Nts::Plain);
                }
                for dg in dgs {
                    let copies = if cfg.rate_limit { 2 } else { 1 };
                    let case = Case { cfg: cfg.clone(), rotated, client, copies, broadcast: false, dg };
                    let o = rig.exchange(client, &case.dg.bytes, copies, false);
                    machinery(&ctx, &mut t, &case, &o);
                    judge(&ctx, &mut t, &case, &o);
                    if !o.answers.is_empty() && cfg.deny != "none" && cfg.allow != "all" {
                        ctx.sample(format!("{} {} {} -> {}", cfg.code(), client, case.dg.name, obs_text(&o)));
                    }
                    if o.sentinel != Sentinel::Ok {
                        failed.fetch_add(1, Ordering::Relaxed);
                        break 'unit;
                    }
                }
            }
        }
        t.flush(&ctx);
    });
    let f = failed.load(Ordering::Relaxed);
    ctx.set("machinery.failed_units", f);
    ctx.exhaustive(f == 0);
    ctx.finish();
}
