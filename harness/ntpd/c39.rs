//! C39 — configuration loading never crashes and rejects unsafe step thresholds.
//!
//! Engine E-IN: TOML documents generated exhaustively from a grammar, loaded through the same
//! calls the daemon and `ntp-ctl validate` make (`toml::from_str::<Config>` = body of the private
//! `Config::from_file`; for the threshold family additionally `Config::from_args` on a real
//! file), followed by `Config::check`, all under `common::catch`.
//!
//! Families
//!  F1 every numeric (and a few non-numeric) key of the config tree x a value alphabet of 37
//!     TOML literals (NaNs, infinities, negatives, -0.0, huge, 2^63, strings, tables, arrays ...)
//!  F2 the two step thresholds x { single number, {forward}, {backward}, {forward, backward}
//!     (full square of the alphabet), [table header] form }
//!  F3 unknown keys in every section / inline table; duplicate keys and sections
//!  F4 `[[source]]` sections: 10 modes x every subset (<= 3 quick, <= 5 thorough) of the union of
//!     all source fields; address / certificate alphabets
//!  F5 well-formed documents written from the manual (must load: vacuity guard for "accepted")
//!  F6 structural confusion (scalars for tables, tables for arrays, ...) and deep nesting
//!
//! Oracle (statement): never a panic; a document whose step threshold (either form) is NaN or
//! negative is not accepted; every `StepThreshold` component of an accepted configuration is
//! `None` (= infinite) or >= 0.
use std::collections::BTreeMap;
use std::sync::Mutex;

use ntp_proto::NtpDuration;

use super::common::{self, Ctx};
use crate::daemon::config::Config;

#[derive(Clone, Copy, PartialEq, Eq, Debug)]
enum VClass {
    Nan,
    Neg,
    Other,
}
use VClass::{Nan, Neg, Other};

/// The value alphabet: TOML literal + what it means for a threshold.
const VALUES: &[(&str, VClass)] = &[
    ("nan", Nan),
    ("+nan", Nan),
    ("-nan", Nan),
    ("inf", Other),
    ("+inf", Other),
    ("-inf", Neg),
    ("-1", Neg),
    ("-1.5", Neg),
    ("-5", Neg),
    ("-1e300", Neg),
    ("-1e-320", Neg),
    ("-9223372036854775808", Neg),
    ("-0.0", Other),
    ("-0", Other),
    ("0", Other),
    ("0.0", Other),
    ("1", Other),
    ("1.5", Other),
    ("1e300", Other),
    ("1e-320", Other),
    ("255", Other),
    ("256", Other),
    ("65536", Other),
    ("4294967296", Other),
    ("9223372036854775807", Other),
    ("9223372036854775808", Other),  // 2^63: not a TOML integer
    ("18446744073709551615", Other), // 2^64-1
    ("0x7f", Other),
    ("1_000", Other),
    ("true", Other),
    ("\"inf\"", Other),
    ("\"-5\"", Other),
    ("\"x\"", Other),
    ("\"\"", Other),
    ("{}", Other),
    ("[]", Other),
    ("2024-01-01", Other),
];

const BASE: &str = "[[source]]\nmode = \"server\"\naddress = \"example.com\"\n";

const ALGO_KEYS: &[&str] = &[
    "precision-low-probability",
    "precision-high-probability",
    "precision-hysteresis",
    "precision-minimum-weight",
    "poll-interval-low-weight",
    "poll-interval-high-weight",
    "poll-interval-hysteresis",
    "poll-interval-step-threshold",
    "delay-outlier-threshold",
    "initial-wander",
    "initial-frequency-uncertainty",
    "maximum-source-uncertainty",
    "range-statistical-weight",
    "range-delay-weight",
    "steer-offset-threshold",
    "steer-offset-leftover",
    "steer-frequency-threshold",
    "steer-frequency-leftover",
    "step-threshold",
    "slew-maximum-frequency-offset",
    "slew-minimum-duration",
    "maximum-frequency-steer",
    "ignore-server-dispersion",
    "meddling-threshold",
];

const KE: &str = "[[nts-ke-server]]\nlisten = \"[::]:4460\"\ncertificate-chain-path = \"/nonexistent/chain.pem\"\nprivate-key-path = \"/nonexistent/key.pem\"\n";

/// F1 slots: (name, template with `{V}`; `!` prefix = do not prepend BASE).
fn slots() -> Vec<(String, String)> {
    let mut s: Vec<(String, String)> = Vec::new();
    let mut add = |name: &str, t: &str| s.push((name.to_string(), t.to_string()));
    for k in ["minimum-agreeing-sources", "local-stratum", "accumulated-step-panic-threshold", "reference-id", "warn-on-jump"] {
        add(&format!("synchronization.{k}"), &format!("[synchronization]\n{k} = {{V}}\n"));
    }
    for k in ALGO_KEYS {
        add(&format!("synchronization.algorithm.{k}"), &format!("[synchronization.algorithm]\n{k} = {{V}}\n"));
    }
    add("source-defaults.initial-poll-interval", "[source-defaults]\ninitial-poll-interval = {V}\n");
    add("source-defaults.poll-interval-limits.min", "[source-defaults]\npoll-interval-limits = { min = {V}, max = 10 }\n");
    add("source-defaults.poll-interval-limits.max", "[source-defaults]\npoll-interval-limits = { min = 4, max = {V} }\n");
    add("source-defaults.poll-interval-limits.min-only", "[source-defaults]\npoll-interval-limits = { min = {V} }\n");
    add("source-defaults.poll-interval-limits", "[source-defaults]\npoll-interval-limits = {V}\n");
    for k in ["observation-permissions", "metrics-exporter-listen", "log-level", "ansi-colors", "observation-path"] {
        add(&format!("observability.{k}"), &format!("[observability]\n{k} = {{V}}\n"));
    }
    for k in ["stale-key-count", "key-rotation-interval", "key-storage-path"] {
        add(&format!("keyset.{k}"), &format!("[keyset]\n{k} = {{V}}\n"));
    }
    for k in ["priority_1", "priority_2", "ptp_timescale", "identity", "clock_quality", "time_traceable"] {
        add(&format!("csptp.{k}"), &format!("[csptp]\n{k} = {{V}}\n"));
    }
    add("csptp.identity[0]", "[csptp]\nidentity = [{V}, 0, 0, 0, 0, 0, 0, 0]\n");
    add("csptp.clock_quality.clock_class", "[csptp]\nclock_quality = { clock_class = {V}, clock_accuracy = \"PS1\", offset_scaled_log_variance = 1 }\n");
    add("csptp.clock_quality.offset_scaled_log_variance", "[csptp]\nclock_quality = { clock_class = 6, clock_accuracy = \"PS1\", offset_scaled_log_variance = {V} }\n");
    add("csptp.clock_quality.clock_accuracy", "[csptp]\nclock_quality = { clock_class = 6, clock_accuracy = {V}, offset_scaled_log_variance = 1 }\n");
    add("clock.timestamp-mode", "[clock]\ntimestamp-mode = {V}\n");
    // sources
    for k in ["ntp-version", "initial-poll-interval", "address", "mode"] {
        add(&format!("source.server.{k}"), &format!("![[source]]\nmode = \"server\"\naddress = \"example.com\"\n{k} = {{V}}\n"));
    }
    add("source.server.poll-interval-limits.min", "![[source]]\nmode = \"server\"\naddress = \"example.com\"\npoll-interval-limits = { min = {V} }\n");
    add("source.server.poll-interval-limits.max", "![[source]]\nmode = \"server\"\naddress = \"example.com\"\npoll-interval-limits = { max = {V} }\n");
    for k in ["count", "ntp-version"] {
        add(&format!("source.pool.{k}"), &format!("![[source]]\nmode = \"pool\"\naddress = \"pool.example.com\"\n{k} = {{V}}\n"));
    }
    add("source.pool.ignore[0]", "![[source]]\nmode = \"pool\"\naddress = \"pool.example.com\"\nignore = [{V}]\n");
    add("source.pool.count-x3", "![[source]]\nmode = \"pool\"\naddress = \"a.example.com\"\ncount = {V}\n[[source]]\nmode = \"pool\"\naddress = \"b.example.com\"\ncount = {V}\n[[source]]\nmode = \"pool\"\naddress = \"c.example.com\"\ncount = {V}\n");
    for k in ["ntp-version", "enable-srv-resolution", "certificate-authority"] {
        add(&format!("source.nts.{k}"), &format!("![[source]]\nmode = \"nts\"\naddress = \"nts.example.com\"\n{k} = {{V}}\n"));
    }
    for k in ["count", "ntp-version"] {
        add(&format!("source.nts-pool.{k}"), &format!("![[source]]\nmode = \"nts-pool\"\naddress = \"nts.example.com\"\n{k} = {{V}}\n"));
    }
    for k in ["precision", "accuracy", "measurement_noise_estimate", "path"] {
        let rest = match k {
            "precision" | "measurement_noise_estimate" => "path = \"/run/x.sock\"\n",
            "path" => "precision = 1e-3\n",
            _ => "path = \"/run/x.sock\"\nprecision = 1e-3\n",
        };
        add(&format!("source.sock.{k}"), &format!("![[source]]\nmode = \"sock\"\n{rest}{k} = {{V}}\n"));
    }
    for k in ["precision", "accuracy", "period", "measurement_noise_estimate"] {
        let rest = match k {
            "precision" | "measurement_noise_estimate" => "path = \"/dev/pps0\"\n",
            _ => "path = \"/dev/pps0\"\nprecision = 1e-3\n",
        };
        add(&format!("source.pps.{k}"), &format!("![[source]]\nmode = \"pps\"\n{rest}{k} = {{V}}\n"));
    }
    for k in ["domain", "poll_interval", "response_interval", "address"] {
        let rest = if k == "address" { "" } else { "address = \"ptp.example.com\"\n" };
        add(&format!("source.csptp.{k}"), &format!("![[source]]\nmode = \"csptp\"\n{rest}{k} = {{V}}\n"));
    }
    // servers
    for k in ["rate-limiting-cache-size", "rate-limiting-cutoff-ms", "accept-ntp-versions", "require-nts", "listen", "denylist", "allowlist"] {
        let rest = if k == "listen" { "" } else { "listen = \"[::]:123\"\n" };
        add(&format!("server.{k}"), &format!("[[server]]\n{rest}{k} = {{V}}\n"));
    }
    add("server.accept-ntp-versions[0]", "[[server]]\nlisten = \"[::]:123\"\naccept-ntp-versions = [{V}]\n");
    add("server.denylist.filter[0]", "[[server]]\nlisten = \"[::]:123\"\ndenylist = { filter = [{V}], action = \"deny\" }\n");
    for k in ["key-exchange-timeout-ms", "concurrent-connections", "longlived-connections", "ntp-port", "accept-ntp-versions", "ntp-server"] {
        add(&format!("nts-ke-server.{k}"), &format!("{KE}{k} = {{V}}\n"));
    }
    add("nts-ke-server.accept-ntp-versions[0]", &format!("{KE}accept-ntp-versions = [{{V}}]\n"));
    add("csptp-server.interface", "[[csptp-server]]\ninterface = {V}\n");
    for k in ["source", "server", "synchronization", "source-defaults", "observability", "keyset", "csptp", "nts-ke-server", "csptp-server", "bogus"] {
        add(&format!("top.{k}"), &format!("!{k} = {{V}}\n"));
    }
    s
}

fn render(template: &str, v: &str) -> String {
    let (body, base) = match template.strip_prefix('!') {
        Some(b) => (b, ""),
        None => (template, BASE),
    };
    format!("{base}{}", body.replace("{V}", v))
}

const THRESHOLD_KEYS: [&str; 2] = ["single-step-panic-threshold", "startup-step-panic-threshold"];

#[derive(Clone, Debug)]
struct ThrInput {
    key: &'static str,
    form: &'static str, // "single" | "per-direction"
    dir: &'static str,  // "both" | "forward" | "backward"
    class: VClass,
    lit: &'static str,
}

#[derive(Clone, Debug)]
struct Doc {
    family: &'static str,
    slot: String,
    text: String,
    thr: Vec<ThrInput>,
    /// F1: the literal substituted into the slot
    val: Option<(&'static str, VClass)>,
}

fn f1_docs() -> Vec<Doc> {
    let mut out = Vec::new();
    for (name, t) in slots() {
        for (v, c) in VALUES {
            out.push(Doc { family: "F1", slot: name.clone(), text: render(&t, v), thr: vec![], val: Some((*v, *c)) });
        }
    }
    out
}

fn f2_docs() -> Vec<Doc> {
    let mut out = Vec::new();
    for key in THRESHOLD_KEYS {
        for (v, c) in VALUES {
            let ti = |form, dir| ThrInput { key, form, dir, class: *c, lit: v };
            out.push(Doc {
                family: "F2",
                slot: format!("{key}=V"),
                text: format!("{BASE}[synchronization]\n{key} = {v}\n"),
                thr: vec![ti("single", "both")],
                val: None,
            });
            for dir in ["forward", "backward"] {
                out.push(Doc {
                    family: "F2",
                    slot: format!("{key}={{{dir}}}"),
                    text: format!("{BASE}[synchronization]\n{key} = {{ {dir} = {v} }}\n"),
                    thr: vec![ti("per-direction", dir)],
                    val: None,
                });
                out.push(Doc {
                    family: "F2",
                    slot: format!("[{key}].{dir}"),
                    text: format!("{BASE}[synchronization.{key}]\n{dir} = {v}\n"),
                    thr: vec![ti("per-direction", dir)],
                    val: None,
                });
                out.push(Doc {
                    family: "F2",
                    slot: format!("{key}.{dir} dotted"),
                    text: format!("{BASE}[synchronization]\n{key}.{dir} = {v}\n"),
                    thr: vec![ti("per-direction", dir)],
                    val: None,
                });
            }
            for (w, cw) in VALUES {
                out.push(Doc {
                    family: "F2",
                    slot: format!("{key}={{forward,backward}}"),
                    text: format!("{BASE}[synchronization]\n{key} = {{ forward = {v}, backward = {w} }}\n"),
                    thr: vec![
                        ti("per-direction", "forward"),
                        ThrInput { key, form: "per-direction", dir: "backward", class: *cw, lit: w },
                    ],
                    val: None,
                });
            }
        }
    }
    // both thresholds at once, per-direction, over the NaN/negative part of the alphabet
    for (v, c) in VALUES.iter().filter(|(_, c)| *c != Other) {
        out.push(Doc {
            family: "F2",
            slot: "both thresholds".to_string(),
            text: format!(
                "{BASE}[synchronization]\nsingle-step-panic-threshold = {{ forward = 10, backward = {v} }}\nstartup-step-panic-threshold = {{ forward = {v}, backward = 10 }}\n"
            ),
            thr: vec![
                ThrInput { key: THRESHOLD_KEYS[0], form: "per-direction", dir: "backward", class: *c, lit: v },
                ThrInput { key: THRESHOLD_KEYS[1], form: "per-direction", dir: "forward", class: *c, lit: v },
            ],
            val: None,
        });
    }
    out
}

fn f3_docs() -> Vec<Doc> {
    let mut out = Vec::new();
    let mut add = |slot: &str, text: String| out.push(Doc { family: "F3", slot: slot.to_string(), text, thr: vec![], val: None });
    // unknown keys
    add("unknown:top", format!("{BASE}bogus-key = 1\n"));
    add("unknown:top-table", format!("{BASE}[bogus-section]\nx = 1\n"));
    for sec in ["synchronization", "synchronization.algorithm", "source-defaults", "observability", "keyset", "csptp", "clock"] {
        add(&format!("unknown:[{sec}]"), format!("{BASE}[{sec}]\nbogus-key = 1\n"));
    }
    for (mode, rest) in [
        ("server", "address = \"example.com\"\n"),
        ("nts", "address = \"example.com\"\n"),
        ("pool", "address = \"example.com\"\n"),
        ("nts-pool", "address = \"example.com\"\n"),
        ("sock", "path = \"/run/x.sock\"\nprecision = 1e-3\n"),
        ("pps", "path = \"/dev/pps0\"\nprecision = 1e-3\n"),
        ("csptp", "address = \"example.com\"\n"),
    ] {
        add(&format!("unknown:[[source]] {mode}"), format!("[[source]]\nmode = \"{mode}\"\n{rest}bogus-key = 1\n"));
    }
    add("unknown:[[server]]", format!("{BASE}[[server]]\nlisten = \"[::]:123\"\nbogus-key = 1\n"));
    add("unknown:[[nts-ke-server]]", format!("{BASE}{KE}bogus-key = 1\n"));
    add("unknown:[[csptp-server]]", format!("{BASE}[[csptp-server]]\ninterface = \"any\"\nbogus-key = 1\n"));
    add("unknown:poll-interval-limits", format!("{BASE}[source-defaults]\npoll-interval-limits = {{ min = 4, max = 10, bogus = 1 }}\n"));
    for key in THRESHOLD_KEYS {
        add(&format!("unknown:{key}"), format!("{BASE}[synchronization]\n{key} = {{ forward = 1, backward = 1, bogus = 1 }}\n"));
        add(&format!("unknown-only:{key}"), format!("{BASE}[synchronization]\n{key} = {{ bogus = 1 }}\n"));
        add(&format!("empty-map:{key}"), format!("{BASE}[synchronization]\n{key} = {{ }}\n"));
    }
    add("unknown:denylist", format!("{BASE}[[server]]\nlisten = \"[::]:123\"\ndenylist = {{ filter = [], action = \"deny\", bogus = 1 }}\n"));
    add("unknown:clock_quality", format!("{BASE}[csptp]\nclock_quality = {{ clock_class = 6, clock_accuracy = \"PS1\", offset_scaled_log_variance = 1, bogus = 1 }}\n"));
    // duplicates
    for (sec, key, v) in [
        ("synchronization", "minimum-agreeing-sources", "1"),
        ("synchronization", "single-step-panic-threshold", "1"),
        ("synchronization.algorithm", "initial-wander", "1e-7"),
        ("source-defaults", "initial-poll-interval", "4"),
        ("observability", "log-level", "\"info\""),
        ("keyset", "stale-key-count", "1"),
        ("csptp", "priority_1", "1"),
    ] {
        add(&format!("dup-key:[{sec}].{key}"), format!("{BASE}[{sec}]\n{key} = {v}\n{key} = {v}\n"));
        add(&format!("dup-section:[{sec}]"), format!("{BASE}[{sec}]\n{key} = {v}\n[{sec}]\n{key} = {v}\n"));
    }
    for key in THRESHOLD_KEYS {
        add(&format!("dup-dir:{key}"), format!("{BASE}[synchronization]\n{key} = {{ forward = 1, forward = 2 }}\n"));
        add(&format!("dup-dir-dotted:{key}"), format!("{BASE}[synchronization]\n{key}.forward = 1\n{key}.forward = 2\n"));
        add(&format!("dup-forms:{key}"), format!("{BASE}[synchronization]\n{key} = 1\n[synchronization.{key}]\nforward = 1\n"));
    }
    add("dup:source mode", "[[source]]\nmode = \"server\"\nmode = \"pool\"\naddress = \"example.com\"\n".to_string());
    add("dup:source address", "[[source]]\nmode = \"server\"\naddress = \"example.com\"\naddress = \"example.org\"\n".to_string());
    add("dup:sock precision+noise", "[[source]]\nmode = \"sock\"\npath = \"/run/x.sock\"\nprecision = 1e-3\nmeasurement_noise_estimate = 1e-6\n".to_string());
    add("dup:sock noise+precision", "[[source]]\nmode = \"sock\"\npath = \"/run/x.sock\"\nmeasurement_noise_estimate = 1e-6\nprecision = 1e-3\n".to_string());
    add("dup:pps precision+noise", "[[source]]\nmode = \"pps\"\npath = \"/dev/pps0\"\nprecision = 1e-3\nmeasurement_noise_estimate = 1e-6\n".to_string());
    add("dup:source then scalar", format!("{BASE}source = 1\n"));
    add("dup:flatten poll-interval-limits", "[[source]]\nmode = \"server\"\naddress = \"example.com\"\npoll-interval-limits = { min = 4 }\npoll-interval-limits = { max = 4 }\n".to_string());
    out
}

const SOURCE_FIELDS: &[&str] = &[
    "address = \"example.com\"",
    "path = \"/dev/null\"",
    "precision = 1e-3",
    "accuracy = 1e-3",
    "period = 1.0",
    "measurement_noise_estimate = 1e-6",
    "count = 4",
    "ntp-version = 4",
    "certificate-authority = \"/nonexistent/ca.pem\"",
    "ignore = [\"127.0.0.1\"]",
    "enable-srv-resolution = true",
    "domain = 128",
    "poll_interval = 1.0",
    "response_interval = 5.0",
    "poll-interval-limits = { min = 4, max = 10 }",
    "initial-poll-interval = 4",
    "bogus = 1",
];

const SOURCE_MODES: &[&str] = &[
    "mode = \"server\"\n",
    "mode = \"nts\"\n",
    "mode = \"pool\"\n",
    "mode = \"nts-pool\"\n",
    "mode = \"sock\"\n",
    "mode = \"pps\"\n",
    "mode = \"csptp\"\n",
    "mode = \"bogus\"\n",
    "",
    "mode = 1\n",
];

fn subsets_upto(n: usize, k: usize) -> Vec<Vec<usize>> {
    fn rec(start: usize, n: usize, left: usize, cur: &mut Vec<usize>, out: &mut Vec<Vec<usize>>) {
        out.push(cur.clone());
        if left == 0 {
            return;
        }
        for i in start..n {
            cur.push(i);
            rec(i + 1, n, left - 1, cur, out);
            cur.pop();
        }
    }
    let mut out = Vec::new();
    rec(0, n, k, &mut Vec::new(), &mut out);
    out
}

fn f4_docs(max_subset: usize) -> Vec<Doc> {
    let mut out = Vec::new();
    for (mi, mode) in SOURCE_MODES.iter().enumerate() {
        for sub in subsets_upto(SOURCE_FIELDS.len(), max_subset) {
            let mut text = format!("[[source]]\n{mode}");
            for i in &sub {
                text.push_str(SOURCE_FIELDS[*i]);
                text.push('\n');
            }
            out.push(Doc { family: "F4", slot: format!("mode#{mi} fields{sub:?}"), text, thr: vec![], val: None });
        }
    }
    let addresses = [
        "example.com", "example.com:123", "example.com:0", "example.com:65535", "example.com:65536", "example.com:-1",
        "example.com:", ":123", "", ":", "::", "::1", "[::1]", "[::1]:123", "[::1]:99999", ":invalid:ipv6:123", "1.2.3.4",
        "1.2.3.4:5", "a:b:c", "\u{e9}xample.com", "ex ample.com", "example.com:12 3",
    ];
    for mode in ["server", "nts", "pool", "nts-pool", "csptp"] {
        for a in addresses {
            out.push(Doc {
                family: "F4",
                slot: format!("address:{mode}"),
                text: format!("[[source]]\nmode = \"{mode}\"\naddress = \"{a}\"\n"),
                thr: vec![],
                val: None,
            });
        }
    }
    for mode in ["nts", "nts-pool"] {
        for ca in ["/nonexistent/ca.pem", "/dev/null", "/", "", "/proc/self/cmdline", "/etc/hostname"] {
            out.push(Doc {
                family: "F4",
                slot: format!("certificate-authority:{mode}"),
                text: format!("[[source]]\nmode = \"{mode}\"\naddress = \"nts.example.com\"\ncertificate-authority = \"{ca}\"\n"),
                thr: vec![],
                val: None,
            });
        }
    }
    out
}

/// F5: documents written from the manual; all must load.
const GOOD_DOCS: &[&str] = &[
    "",
    "[[source]]\nmode = \"server\"\naddress = \"example.com\"\n",
    "[observability]\nlog-level = \"info\"\nobservation-path = \"/var/run/ntpd-rs/observe\"\n[[source]]\nmode = \"pool\"\naddress = \"ntpd-rs.pool.ntp.org\"\ncount = 4\n[synchronization]\nsingle-step-panic-threshold = 1800\nstartup-step-panic-threshold = { forward=\"inf\", backward = 1800 }\n",
    "[[source]]\nmode = \"pool\"\naddress = \"ntpd-rs.pool.ntp.org\"\ncount = 4\n[[server]]\nlisten = \"[::]:123\"\n[synchronization]\nsingle-step-panic-threshold = 1800\nstartup-step-panic-threshold = { forward=\"inf\", backward = 1800 }\n[keyset]\nkey-storage-path=\"/path/to/store/key/material\"\n",
    "[[source]]\nmode = \"nts\"\naddress = \"time.example.com\"\n[[source]]\nmode = \"nts-pool\"\naddress = \"pool.example.com\"\ncount = 2\n[[source]]\nmode = \"sock\"\npath = \"/run/chrony.ttyS0.sock\"\nprecision = 1e-3\n[[source]]\nmode = \"pps\"\npath = \"/dev/pps0\"\nprecision = 1e-7\n",
    "[synchronization]\nsingle-step-panic-threshold = \"inf\"\nstartup-step-panic-threshold = \"inf\"\naccumulated-step-panic-threshold = 1800\nminimum-agreeing-sources = 1\nlocal-stratum = 1\nreference-id = \"GPS\"\nwarn-on-jump = false\n[synchronization.algorithm]\ninitial-wander = 1e-7\nstep-threshold = 0.5\n",
    "[synchronization]\nsingle-step-panic-threshold = { forward = 10, backward = 20 }\nstartup-step-panic-threshold = { forward = 0, backward = 0.5 }\n",
    "[synchronization]\nsingle-step-panic-threshold = { forward = \"inf\" }\nstartup-step-panic-threshold = { backward = \"inf\" }\n",
    "[source-defaults]\npoll-interval-limits = { min = 5, max = 9 }\ninitial-poll-interval = 5\n[observability]\nobservation-permissions = 0o567\nmetrics-exporter-listen = \"127.0.0.1:9975\"\nansi-colors = false\n",
    "[[server]]\nlisten = \"0.0.0.0:123\"\nrate-limiting-cache-size = 32\nrate-limiting-cutoff-ms = 1000\nrequire-nts = \"deny\"\naccept-ntp-versions = [3, 4, 5]\n[server.denylist]\nfilter = [\"192.168.33.34/24\"]\naction = \"deny\"\n",
    "[[nts-ke-server]]\nlisten = \"[::]:4460\"\ncertificate-chain-path = \"/etc/ssl/chain.pem\"\nprivate-key-path = \"/etc/ssl/key.pem\"\nkey-exchange-timeout-ms = 500\nntp-port = 123\n[[server]]\nlisten = \"[::]:123\"\n",
    "[[source]]\nmode = \"csptp\"\naddress = \"ptp.example.com\"\ndomain = 128\npoll_interval = 1.0\n[[csptp-server]]\ninterface = \"any\"\n[csptp]\npriority_1 = 100\n",
];

fn f5_docs() -> Vec<Doc> {
    GOOD_DOCS
        .iter()
        .enumerate()
        .map(|(i, t)| Doc { family: "F5", slot: format!("good#{i}"), text: t.to_string(), thr: vec![], val: None })
        .collect()
}

fn deep(kind: &str, depth: usize) -> String {
    match kind {
        "array" => format!("x = {}1{}\n", "[".repeat(depth), "]".repeat(depth)),
        "inline-table" => format!("x = {}1{}\n", "{ a = ".repeat(depth), " }".repeat(depth)),
        "dotted" => format!("{} = 1\n", vec!["a"; depth.max(1)].join(".")),
        "header" => format!("[{}]\nx = 1\n", vec!["a"; depth.max(1)].join(".")),
        "threshold-array" => format!(
            "[synchronization]\nsingle-step-panic-threshold = {{ forward = {}1{} }}\n",
            "[".repeat(depth),
            "]".repeat(depth)
        ),
        "sources" => "[[source]]\nmode = \"server\"\naddress = \"example.com\"\n".repeat(depth),
        _ => unreachable!(),
    }
}

const DEEP_KINDS: [&str; 6] = ["array", "inline-table", "dotted", "header", "threshold-array", "sources"];

fn f6_docs(thorough: bool) -> Vec<Doc> {
    let mut out = Vec::new();
    let mut add = |slot: &str, text: String| out.push(Doc { family: "F6", slot: slot.to_string(), text, thr: vec![], val: None });
    for t in [
        "[source]\nmode = \"server\"\naddress = \"example.com\"\n",
        "[[synchronization]]\nminimum-agreeing-sources = 1\n",
        "[[observability]]\nlog-level = \"info\"\n",
        "[[source]]\n",
        "[[server]]\n",
        "[[nts-ke-server]]\n",
        "[[csptp-server]]\n",
        "[synchronization.algorithm.x]\ny = 1\n",
        "[synchronization.single-step-panic-threshold.forward]\nx = 1\n",
        "[[synchronization.single-step-panic-threshold]]\nforward = 1\n",
        "synchronization.single-step-panic-threshold = [1, 2]\n",
        "source = [1]\n",
        "source = [[]]\n",
        "source = [{}]\n",
        "source = [{ mode = \"server\" }]\n",
        "source = [{ mode = \"server\", address = \"example.com\" }]\n",
        "\u{feff}[[source]]\nmode = \"server\"\naddress = \"example.com\"\n",
        "[[source]]\r\nmode = \"server\"\r\naddress = \"example.com\"\r\n",
        "[[source]]\nmode = \"server\"\naddress = \"example.com\"",
        "[[source]\n",
        "= 1\n",
        "\"\" = 1\n",
        "x = \"\\ud800\"\n",
        "x = '''\n",
        "\0",
        "[synchronization]\nsingle-step-panic-threshold = 1e400\n",
        "[synchronization]\nsingle-step-panic-threshold = { forward = 1e400 }\n",
        "[synchronization]\nsingle-step-panic-threshold = { forward = -1e400 }\n",
        "[synchronization]\nsingle-step-panic-threshold = 00\n",
        "[synchronization]\nsingle-step-panic-threshold = 1.\n",
        "[synchronization]\nsingle-step-panic-threshold = .5\n",
    ] {
        add("structure", t.to_string());
    }
    let depths: &[usize] = if thorough { &[1, 10, 64, 127, 128, 129, 1000, 10_000, 100_000] } else { &[1, 10, 127, 128, 129, 1000, 10_000] };
    for kind in DEEP_KINDS {
        for d in depths {
            if kind == "sources" && *d > 10_000 {
                continue;
            }
            add(&format!("gen:deep:{kind}:{d}"), deep(kind, *d));
        }
    }
    out
}

// --- evaluation ---------------------------------------------------------------------------

#[derive(Default)]
struct Observations {
    nan_accepted: BTreeMap<String, Vec<String>>,
    neg_accepted: BTreeMap<String, Vec<String>>,
    unknown_accepted: Vec<String>,
    acc_threshold: Vec<String>,
    good_rejected: Vec<String>,
}

/// `gen:deep:<kind>:<depth>` for the big generated documents, otherwise
/// `doc<key/form/dir/literal,...>:<text>` (the annotation lists the threshold values the generator
/// wrote into the text, i.e. the input side of the oracle).
fn trace_of(d: &Doc) -> String {
    if d.slot.starts_with("gen:") {
        return d.slot.clone();
    }
    let ann: Vec<String> = d.thr.iter().map(|t| format!("{}/{}/{}/{}", t.key, t.form, t.dir, t.lit)).collect();
    format!("doc<{}>:{}", ann.join(","), d.text)
}

fn nonneg(c: Option<NtpDuration>) -> bool {
    c.is_none_or(|v| v >= NtpDuration::ZERO)
}

fn fmt_thr(t: &ntp_proto::StepThreshold) -> String {
    let f = |c: Option<NtpDuration>| c.map_or("inf".to_string(), |v| format!("{:?}s", v.to_seconds()));
    format!("{{forward={}, backward={}}}", f(t.forward), f(t.backward))
}

/// Load one document the way the daemon does; report violations; return the observation.
fn eval(ctx: &Ctx, d: &Doc, obs: &Mutex<Observations>) -> String {
    let trace = trace_of(d);
    let loaded = common::catch(|| toml::from_str::<Config>(&d.text));
    let cfg = match loaded {
        Err(p) => {
            ctx.violation("C39:load-panic", format!("loading the document panicked: {p}"), trace);
            return format!("panic:{p}");
        }
        Ok(Err(e)) => {
            ctx.inc("rejected");
            ctx.inc(&format!("rejected_{}", d.family));
            if d.family == "F5" {
                obs.lock().unwrap().good_rejected.push(format!("{}: {e}", d.slot));
            }
            let msg = e.message().to_string();
            return format!("rejected:{}", msg.lines().next().unwrap_or(""));
        }
        Ok(Ok(c)) => c,
    };
    ctx.inc("accepted");
    ctx.inc(&format!("accepted_{}", d.family));
    let check = match common::catch(|| cfg.check()) {
        Ok(b) => b,
        Err(p) => {
            ctx.violation("C39:check-panic", format!("Config::check panicked: {p}"), trace.clone());
            false
        }
    };
    if check {
        ctx.inc("accepted_and_check_ok");
    }
    let sync = &cfg.synchronization.synchronization_base;
    let single = sync.single_step_panic_threshold;
    let startup = sync.startup_step_panic_threshold;
    // statement, input side: NaN / negative thresholds are never accepted
    for t in &d.thr {
        let kind = match t.class {
            Nan => "nan",
            Neg => "negative",
            Other => continue,
        };
        let got = if t.key == THRESHOLD_KEYS[0] { single } else { startup };
        ctx.violation(
            &format!("C39:{}-{kind}-accepted", t.form),
            format!("{} {} ({} form) = {} was accepted as {}", t.key, t.dir, t.form, t.lit, fmt_thr(&got)),
            trace.clone(),
        );
    }
    // statement, output side: every accepted component is None or >= 0
    for (name, t) in [(THRESHOLD_KEYS[0], single), (THRESHOLD_KEYS[1], startup)] {
        if !(nonneg(t.forward) && nonneg(t.backward)) && d.thr.iter().all(|i| i.class == Other) {
            ctx.violation(
                "C39:negative-threshold-in-config",
                format!("accepted configuration has {name} = {}", fmt_thr(&t)),
                trace.clone(),
            );
        }
    }
    // observations (not part of the statement)
    {
        let mut o = obs.lock().unwrap();
        if d.slot.starts_with("unknown") {
            o.unknown_accepted.push(d.slot.clone());
        }
        if let Some(a) = sync.accumulated_step_panic_threshold {
            if a < NtpDuration::ZERO {
                let v = format!("{:?}s", a.to_seconds());
                if !o.acc_threshold.contains(&v) {
                    o.acc_threshold.push(v);
                    o.acc_threshold.sort();
                }
            }
        }
    }
    format!(
        "accepted check={check} single={} startup={} acc={:?} sources={} servers={}",
        fmt_thr(&single),
        fmt_thr(&startup),
        sync.accumulated_step_panic_threshold.map(|a| a.to_seconds()),
        cfg.sources.len(),
        cfg.servers.len()
    )
}

fn scratch_dir() -> std::path::PathBuf {
    std::env::temp_dir().join(format!("verif-c39-{}", std::process::id()))
}

/// The threshold family once more through the real file loader (`Config::from_args`).
fn eval_via_file(ctx: &Ctx, d: &Doc, idx: u64, direct_accepts: bool) {
    let dir = scratch_dir();
    let path = dir.join(format!("doc-{idx}.toml"));
    if std::fs::write(&path, &d.text).is_err() {
        ctx.inc("file_write_errors");
        return;
    }
    let r = common::catch(|| Config::from_args(Some(&path), vec![], vec![]).map(|c| c.check()));
    std::fs::remove_file(&path).ok();
    ctx.inc("file_loader_cases");
    ctx.add("transitions", 1);
    match r {
        Err(p) => ctx.violation("C39:load-panic", format!("Config::from_args panicked: {p}"), trace_of(d)),
        Ok(res) => {
            if res.is_ok() != direct_accepts {
                ctx.violation(
                    "C39:loader-divergence",
                    format!("Config::from_args accepts={} but toml::from_str::<Config> accepts={direct_accepts}", res.is_ok()),
                    trace_of(d),
                );
            }
        }
    }
}

fn doc_of_trace(trace: &str) -> Option<Doc> {
    if let Some(rest) = trace.strip_prefix("doc<") {
        let (ann, text) = rest.split_once(">:")?;
        let mut thr = Vec::new();
        for a in ann.split(',').filter(|a| !a.is_empty()) {
            let p: Vec<&str> = a.split('/').collect();
            let [key, form, dir, lit] = p.as_slice() else { return None };
            let key = *THRESHOLD_KEYS.iter().find(|k| *k == key)?;
            let form = *["single", "per-direction"].iter().find(|k| *k == form)?;
            let dir = *["both", "forward", "backward"].iter().find(|k| *k == dir)?;
            let (lit, class) = *VALUES.iter().find(|(l, _)| l == lit)?;
            thr.push(ThrInput { key, form, dir, class, lit });
        }
        return Some(Doc { family: "replay", slot: "replay".into(), text: text.to_string(), thr, val: None });
    }
    let p: Vec<&str> = trace.split(':').collect();
    match p.as_slice() {
        ["gen", "deep", kind, d] if DEEP_KINDS.contains(kind) => Some(Doc {
            family: "replay",
            slot: trace.to_string(),
            text: deep(kind, d.parse().ok()?),
            thr: vec![],
            val: None,
        }),
        _ => None,
    }
}

fn replay(ctx: &Ctx, trace: &str) -> String {
    let Some(d) = doc_of_trace(trace) else {
        return format!("unparseable trace {trace:?}");
    };
    let obs = Mutex::new(Observations::default());
    eval(ctx, &d, &obs)
}

#[test]
fn check() {
    let ctx = Ctx::new("C39");
    if let Some(t) = common::replay_trace() {
        let a = replay(&ctx, &t);
        let b = replay(&ctx, &t);
        common::report_replay("C39", &a, &b, ctx.violation_count() > 0);
        return;
    }
    ctx.rule(&format!(
        "F1: every key of the configuration tree (all numeric keys + string/bool/table keys, {} slots) x {} TOML literals; \
         F2: both step thresholds x {{single value, {{forward}}, {{backward}}, [table] form, dotted form}} x 37 literals and \
         {{forward, backward}} x 37^2; F3: an unknown key in every section / inline table, duplicate keys / sections / forms; \
         F4: 10 source modes x every subset of <= 3 (quick) / <= 5 (thorough) of the 17 source fields, 22 address texts x 5 modes, \
         6 certificate paths x 2 modes; F5: 12 manual-conforming documents; F6: structural confusions and nesting depth up to \
         10^4 (quick) / 10^5 (thorough) in 6 shapes. Distinct & non-trivial = a distinct document text that is syntactically \
         valid TOML reaching the Config deserializer (either verdict).",
        slots().len(),
        VALUES.len()
    ));
    ctx.assume("loading = toml::from_str::<Config> (the body of the private Config::from_file) followed by Config::check; the threshold family F2 is additionally loaded from a real file through Config::from_args and must give the same verdict");
    ctx.assume("a step threshold is 'NaN' / 'negative' when the TOML literal written for it is a NaN / a number < 0 (incl. -inf); -0.0 and -0 count as zero");
    ctx.assume("release profile as shipped (overflow-checks and debug-assertions off)");
    let thorough = !ctx.quick();
    let mut docs = Vec::new();
    docs.extend(f5_docs());
    docs.extend(f2_docs());
    docs.extend(f1_docs());
    docs.extend(f3_docs());
    docs.extend(f4_docs(if thorough { 5 } else { 3 }));
    let f6 = f6_docs(thorough);
    std::fs::create_dir_all(scratch_dir()).ok();
    let obs = Mutex::new(Observations::default());
    let nan_neg: Mutex<(BTreeMap<String, Vec<String>>, BTreeMap<String, Vec<String>>)> = Mutex::new(Default::default());
    let run = |docs: &Vec<Doc>, base: u64| {
        common::par_for(docs.len() as u64, 64, |i| {
            let d = &docs[i as usize];
            let o = eval(&ctx, d, &obs);
            ctx.inc("evaluations");
            ctx.inc(&format!("docs_{}", d.family));
            ctx.add("transitions", 1);
            let accepted = o.starts_with("accepted");
            if !o.starts_with("rejected:TOML parse error") && !is_syntax_error(&d.text) {
                ctx.distinct(common::hash_of(&d.text));
            }
            if d.family == "F2" {
                eval_via_file(&ctx, d, base + i, accepted);
            }
            if d.family == "F1" && accepted {
                // observation: which keys take NaN / negative values
                let (lit, class) = d.val.expect("F1 docs carry their literal");
                let mut g = nan_neg.lock().unwrap();
                match class {
                    Nan => g.0.entry(d.slot.clone()).or_default().push(lit.to_string()),
                    Neg => g.1.entry(d.slot.clone()).or_default().push(lit.to_string()),
                    Other => {}
                }
            }
        });
    };
    // canonical minimal documents first, sequentially, so the kept traces are stable
    for (text, key, form, dir, lit) in [
        ("[synchronization]\nsingle-step-panic-threshold = { forward = -5 }\n", THRESHOLD_KEYS[0], "per-direction", "forward", "-5"),
        ("[synchronization]\nsingle-step-panic-threshold = { forward = nan }\n", THRESHOLD_KEYS[0], "per-direction", "forward", "nan"),
        ("[synchronization]\nstartup-step-panic-threshold = { backward = -inf }\n", THRESHOLD_KEYS[1], "per-direction", "backward", "-inf"),
        ("[synchronization]\nstartup-step-panic-threshold = { forward = -1.5 }\n", THRESHOLD_KEYS[1], "per-direction", "forward", "-1.5"),
        ("[synchronization]\nstartup-step-panic-threshold = { backward = nan }\n", THRESHOLD_KEYS[1], "per-direction", "backward", "nan"),
        ("[synchronization]\nsingle-step-panic-threshold = { backward = -nan }\n", THRESHOLD_KEYS[0], "per-direction", "backward", "-nan"),
        ("[synchronization]\nsingle-step-panic-threshold = -5\n", THRESHOLD_KEYS[0], "single", "both", "-5"),
        ("[synchronization]\nsingle-step-panic-threshold = nan\n", THRESHOLD_KEYS[0], "single", "both", "nan"),
    ] {
        let class = VALUES.iter().find(|(l, _)| *l == lit).unwrap().1;
        let d = Doc {
            family: "F2",
            slot: "canonical".into(),
            text: text.to_string(),
            thr: vec![ThrInput { key, form, dir, class, lit }],
            val: None,
        };
        let o = eval(&ctx, &d, &obs);
        ctx.inc("evaluations");
        ctx.inc("docs_F2");
        ctx.add("transitions", 1);
        ctx.sample(format!("{} -> {o}", text.replace('\n', " | ")));
    }
    for lit in ["-5", "nan"] {
        // observation only (plain duration, not a step threshold of the statement)
        let d = Doc {
            family: "F1",
            slot: "observation".into(),
            text: format!("{BASE}[synchronization]\naccumulated-step-panic-threshold = {lit}\n"),
            thr: vec![],
            val: None,
        };
        let o = eval(&ctx, &d, &obs);
        ctx.inc("evaluations");
        ctx.inc("docs_F1");
        ctx.add("transitions", 1);
        ctx.sample(format!("observation (not raised): accumulated-step-panic-threshold = {lit} -> {o}"));
    }
    run(&docs, 0);
    // deep nesting last, on a thread with the daemon's default main-thread stack (8 MiB)
    eprintln!("verif C39: entering deep-nesting documents (a stack overflow here would kill the process)");
    std::thread::scope(|s| {
        std::thread::Builder::new()
            .stack_size(8 << 20)
            .spawn_scoped(s, || {
                for d in &f6 {
                    let o = eval(&ctx, d, &obs);
                    ctx.inc("evaluations");
                    ctx.inc("docs_F6");
                    ctx.add("transitions", 1);
                    ctx.distinct(common::hash_of(&d.text));
                    if d.slot.starts_with("gen:deep") && (d.slot.ends_with(":128") || d.slot.ends_with(":10000")) {
                        ctx.sample(format!("{} -> {}", d.slot, o.chars().take(100).collect::<String>()));
                    }
                }
            })
            .expect("spawn")
            .join()
            .ok();
    });
    std::fs::remove_dir_all(scratch_dir()).ok();
    let o = obs.into_inner().unwrap();
    let g = nan_neg.into_inner().unwrap();
    let fmt_map = |m: &BTreeMap<String, Vec<String>>| {
        m.iter()
            .map(|(k, v)| {
                let mut v = v.clone();
                v.sort();
                format!("{k}({})", v.join(" "))
            })
            .collect::<Vec<_>>()
            .join("; ")
    };
    ctx.note("observation_keys_accepting_nan", &fmt_map(&g.0));
    ctx.note("observation_keys_accepting_negative", &fmt_map(&g.1));
    ctx.set("observation_keys_accepting_nan_count", g.0.len() as u64);
    ctx.set("observation_keys_accepting_negative_count", g.1.len() as u64);
    let mut ua = o.unknown_accepted.clone();
    ua.sort();
    ctx.note("observation_unknown_key_accepted_in", &ua.join("; "));
    ctx.note(
        "observation_accumulated_step_panic_threshold",
        &format!(
            "plain duration, not one of the two threshold forms of the statement; negative values are accepted (NaN/inf rejected), accepted negative values seen: {}",
            o.acc_threshold.join(", ")
        ),
    );
    ctx.set("good_docs_rejected", o.good_rejected.len() as u64);
    if !o.good_rejected.is_empty() {
        ctx.note("good_docs_rejected", &o.good_rejected.join(" || "));
    }
    ctx.set("states", ctx.get("evaluations"));
    ctx.exhaustive(true);
    ctx.finish();
}

/// Independent syntax check: does the text parse as *some* TOML document at all?
fn is_syntax_error(text: &str) -> bool {
    text.parse::<toml::Table>().is_err()
}
