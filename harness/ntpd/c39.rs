//! C39: not implemented yet.
