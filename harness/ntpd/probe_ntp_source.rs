#[cfg(any(not(verif_select), verif_gs))] #[path = "/verif/harness/ntpd/gs_probe_ntp_source.rs"] pub(crate) mod gs;
