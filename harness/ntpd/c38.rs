//! C38 — ntp-ctl / the metrics exporter read exactly what the daemon publishes.
//!
//! Engine E-IN + read/write deviation enumeration. Everything goes through the real
//! `sockets::write_json` / `sockets::read_json::<ObservableState>` (the exact call both clients
//! make) over harness streams that implement tokio's `AsyncWrite` / `AsyncRead`, record every
//! request, and follow an explicit schedule of deviations (short transfer / `Pending`).
//!
//!  A  `ObservableState` values: every field x its boundary alphabet with the rest at a base
//!     value ("one"), the k-th alphabet value in every field at once ("diag"), every list shape
//!     0..=3 sources x 0..=3 servers x rotating fill ("shape"); thorough: every PAIR of
//!     single-field changes ("pair").
//!  B  duration sweep: powers of two +-2 units, whole seconds -2000..=2000 x 4 fractions, a
//!     stride sweep over the whole i64 range (19 durations packed per state).
//!  C  finite f64 sweep: every finite exponent x both signs x boundary mantissas (5 per state).
//!  D  announced lengths x available payload x every placement of <= 2 deviations while the
//!     header is delivered; the reader records every request made after the 8 header bytes.
//!  E  chunked delivery: every placement of <= 2 deviations (Pending, short transfers of
//!     1..=7 / half / all-but-one bytes) on the read side and on the write side.
//!  F  encoded size exactly 2^20 - 1, 2^20 (must be readable) and 2^20 + 1, + 2 (must be
//!     rejected before the payload is requested).
//!  G  every truncation of a message (must be an error, never a value, never a panic).
//!  H  the daemon's own publishing function (`observer::handle_connection`, via probe) for
//!     every list shape; and the same function on a second thread while the harness holds the
//!     WRITE lock of the source-snapshot map (1..=3 sources x 0..=2 servers x 2 fills x
//!     {release unchanged, insert a source then release, remove one then release}).
//!
//! Oracle: the harness keeps its own model of the state (raw integers); the value read back
//! must equal the model field by field; durations within floor(1e-9*|d|) + 1 units of 2^-32 s.
use std::collections::HashMap;
use std::future::Future;
use std::net::{IpAddr, Ipv4Addr, SocketAddr};
use std::pin::Pin;
use std::task::{Context, Poll, Waker};

use ntp_proto::v5::BloomFilter;
use ntp_proto::{
    ClockId, NtpDuration, NtpLeapIndicator, NtpSnapshot, NtpTimestamp, ObservableSourceState,
    ObservableSourceTimedata, PollInterval, ReferenceId, SystemSnapshot, TimeSnapshot,
};
use tokio::io::{AsyncRead, AsyncWrite, ReadBuf};

use super::common::{self, Ctx};
use crate::daemon::config::ServerConfig;
use crate::daemon::observer::verif_probe::gm as observer_probe;
use crate::daemon::observer::{ObservableServerState, ObservableState, ProgramData};
use crate::daemon::server::ServerStats;
use crate::daemon::server::verif_probe::gm as server_probe;
use crate::daemon::sockets::{read_json, write_json};
use crate::daemon::system::ServerData;

const LIMIT: u64 = 1 << 20; // "1 MiB" of the statement

// --- constructing time values from raw bits with public, exact arithmetic -----------------

fn mk_ts(v: u64) -> NtpTimestamp {
    let mut t = NtpTimestamp::default();
    for b in 0..63u32 {
        if (v >> b) & 1 == 1 {
            t += NtpDuration::from_exponent(b as i8 - 32);
        }
    }
    if v >> 63 == 1 {
        t += NtpDuration::from_exponent(30);
        t += NtpDuration::from_exponent(30);
    }
    t
}

fn mk_dur(v: i64) -> NtpDuration {
    mk_ts(v as u64) - NtpTimestamp::default()
}

fn mk_id(v: u64) -> ClockId {
    serde_json::from_str::<ClockId>(&v.to_string()).expect("ClockId from integer")
}

fn self_test() -> Result<(), String> {
    for (s, n) in [(0u32, 0u32), (1, 0), (3_900_000_000, 0), (u32::MAX, 0), (17, 500_000_000)] {
        let want = NtpTimestamp::from_seconds_nanos_since_ntp_era(s, n);
        let frac = ((n as u64) << 32) / 1_000_000_000;
        if mk_ts(((s as u64) << 32) + frac) != want {
            return Err(format!("mk_ts disagrees with from_seconds_nanos_since_ntp_era({s},{n})"));
        }
    }
    if mk_dur(0) != NtpDuration::ZERO || mk_dur(i64::MAX) != NtpDuration::MAX {
        return Err("mk_dur(0)/mk_dur(MAX) wrong".into());
    }
    if !(mk_dur(-1) < NtpDuration::ZERO && mk_dur(i64::MIN) < mk_dur(-1) && mk_dur(1) > NtpDuration::ZERO) {
        return Err("mk_dur ordering wrong".into());
    }
    for v in [0u64, 1, (1 << 53) + 1, u64::MAX] {
        if mk_id(v).to_string() != v.to_string() {
            return Err(format!("mk_id({v}) displays as {}", mk_id(v)));
        }
    }
    Ok(())
}

// --- the harness's model of a published state -----------------------------------------------

#[derive(Clone, Debug, PartialEq)]
struct MSource {
    durs: [i64; 5], // offset, uncertainty, delay, remote_delay, remote_uncertainty
    last_update: u64,
    unanswered_polls: u32,
    poll_interval: u8,
    nts_cookies: Option<usize>,
    name: String,
    address: String,
    id: u64,
}

#[derive(Clone, Debug, PartialEq)]
struct MServer {
    address: SocketAddr,
    counters: [u64; 11],
}

#[derive(Clone, Debug, PartialEq)]
struct MState {
    version: String,
    build_commit: String,
    build_commit_date: String,
    uptime: f64,
    now: u64,
    precision: i64,
    root_delay: i64,
    base_time: u64,
    var: [f64; 4],
    leap: usize,
    acc_steps: i64,
    acc_thr: Option<i64>,
    stratum: u8,
    refid: u32,
    sources: Vec<MSource>,
    servers: Vec<MServer>,
}

const DUR_NAMES: [&str; 5] = ["offset", "uncertainty", "delay", "remote_delay", "remote_uncertainty"];
const COUNTER_NAMES: [&str; 11] = [
    "received_packets",
    "accepted_packets",
    "denied_packets",
    "ignored_packets",
    "rate_limited_packets",
    "response_send_errors",
    "nts_received_packets",
    "nts_accepted_packets",
    "nts_denied_packets",
    "nts_rate_limited_packets",
    "nts_nak_packets",
];
const LEAPS: [NtpLeapIndicator; 5] = [
    NtpLeapIndicator::NoWarning,
    NtpLeapIndicator::Leap61,
    NtpLeapIndicator::Leap59,
    NtpLeapIndicator::Unknown,
    NtpLeapIndicator::Unsynchronized,
];

fn base_source(i: usize) -> MSource {
    MSource {
        durs: [4_294_967 * (i as i64 + 1), 429_496, 85_899_345, 42_949_672, 214_748],
        last_update: 0xEB00_0000_8000_0000 + i as u64,
        unanswered_polls: i as u32,
        poll_interval: 4 + i as u8,
        nts_cookies: if i % 2 == 0 { None } else { Some(8) },
        name: format!("ntp{i}.example.com:123"),
        address: format!("192.0.2.{}:123", i + 1),
        id: 10 + i as u64,
    }
}

fn base_server(i: usize) -> MServer {
    let mut counters = [0u64; 11];
    for (k, c) in counters.iter_mut().enumerate() {
        *c = (i as u64 + 1) * 1000 + k as u64;
    }
    MServer {
        address: SocketAddr::new(IpAddr::V4(Ipv4Addr::new(192, 0, 2, 100 + i as u8)), 123 + i as u16),
        counters,
    }
}

fn base(ns: usize, nv: usize) -> MState {
    MState {
        version: "1.6.2".into(),
        build_commit: "0123456789abcdef0123456789abcdef01234567".into(),
        build_commit_date: "2026-07-15".into(),
        uptime: 12_345.678_9,
        now: 0xEB00_0001_4000_0000,
        precision: 4_294_967,
        root_delay: 42_949_672,
        base_time: 0xEB00_0000_0000_0000,
        var: [1e-6, 1e-9, 1e-12, 0.0],
        leap: 0,
        acc_steps: 0,
        acc_thr: None,
        stratum: 2,
        refid: 0xC000_0201,
        sources: (0..ns).map(base_source).collect(),
        servers: (0..nv).map(base_server).collect(),
    }
}

fn build_source(s: &MSource) -> ObservableSourceState {
    ObservableSourceState {
        timedata: ObservableSourceTimedata {
            offset: mk_dur(s.durs[0]),
            uncertainty: mk_dur(s.durs[1]),
            delay: mk_dur(s.durs[2]),
            remote_delay: mk_dur(s.durs[3]),
            remote_uncertainty: mk_dur(s.durs[4]),
            last_update: mk_ts(s.last_update),
        },
        unanswered_polls: s.unanswered_polls,
        poll_interval: PollInterval::from_byte(s.poll_interval),
        nts_cookies: s.nts_cookies,
        name: s.name.clone(),
        address: s.address.clone(),
        id: mk_id(s.id),
    }
}

fn build_stats(c: &[u64; 11]) -> ServerStats {
    ServerStats {
        received_packets: server_probe::counter(c[0]),
        accepted_packets: server_probe::counter(c[1]),
        denied_packets: server_probe::counter(c[2]),
        ignored_packets: server_probe::counter(c[3]),
        rate_limited_packets: server_probe::counter(c[4]),
        response_send_errors: server_probe::counter(c[5]),
        nts_received_packets: server_probe::counter(c[6]),
        nts_accepted_packets: server_probe::counter(c[7]),
        nts_denied_packets: server_probe::counter(c[8]),
        nts_rate_limited_packets: server_probe::counter(c[9]),
        nts_nak_packets: server_probe::counter(c[10]),
    }
}

fn build_system(m: &MState) -> SystemSnapshot {
    SystemSnapshot {
        time_snapshot: TimeSnapshot {
            precision: mk_dur(m.precision),
            root_delay: mk_dur(m.root_delay),
            root_variance_base_time: mk_ts(m.base_time),
            root_variance_base: m.var[0],
            root_variance_linear: m.var[1],
            root_variance_quadratic: m.var[2],
            root_variance_cubic: m.var[3],
            leap_indicator: LEAPS[m.leap],
            accumulated_steps: mk_dur(m.acc_steps),
            accumulated_steps_threshold: m.acc_thr.map(mk_dur),
        },
        ntp_snapshot: NtpSnapshot {
            stratum: m.stratum,
            reference_id: ReferenceId::from_ip(IpAddr::V4(Ipv4Addr::from(m.refid))),
            bloom_filter: BloomFilter::new(),
        },
    }
}

fn build(m: &MState) -> ObservableState {
    ObservableState {
        program: ProgramData {
            version: m.version.clone(),
            build_commit: m.build_commit.clone(),
            build_commit_date: m.build_commit_date.clone(),
            uptime_seconds: m.uptime,
            now: mk_ts(m.now),
        },
        system: build_system(m),
        sources: m.sources.iter().map(build_source).collect(),
        servers: m
            .servers
            .iter()
            .map(|s| ObservableServerState { address: s.address, stats: build_stats(&s.counters) })
            .collect(),
    }
}

/// floor(1e-9 * |d|) + 1 units, computed in integers.
fn dur_tolerance(d: i64) -> i128 {
    (d as i128).abs() / 1_000_000_000 + 1
}

fn dur_ok(want: i64, got: NtpDuration) -> bool {
    let tol = dur_tolerance(want);
    let lo = (want as i128 - tol).max(i64::MIN as i128) as i64;
    let hi = (want as i128 + tol).min(i64::MAX as i128) as i64;
    mk_dur(lo) <= got && got <= mk_dur(hi)
}

/// Field-by-field comparison of the value read back with the model. `skip_uptime`: the
/// publishing path (H) stamps its own uptime.
fn compare(m: &MState, g: &ObservableState, by_id: bool, skip_uptime: bool) -> Vec<String> {
    let mut bad: Vec<String> = Vec::new();
    macro_rules! eq {
        ($path:expr, $want:expr, $got:expr) => {
            if $want != $got {
                bad.push(format!("{}: wrote {:?}, read {:?}", $path, $want, $got));
            }
        };
    }
    macro_rules! feq {
        ($path:expr, $want:expr, $got:expr) => {{
            let (w, g): (f64, f64) = ($want, $got);
            FLOATS_COMPARED.fetch_add(1, std::sync::atomic::Ordering::Relaxed);
            if w != g {
                let ulps = (w.to_bits() as i64).wrapping_sub(g.to_bits() as i64).unsigned_abs();
                FLOATS_DIFFERENT.fetch_add(1, std::sync::atomic::Ordering::Relaxed);
                FLOAT_MAX_ULPS.fetch_max(ulps, std::sync::atomic::Ordering::Relaxed);
                bad.push(format!("{}: wrote {:?}, read {:?} [float, {} ulp]", $path, w, g, ulps));
            }
        }};
    }
    macro_rules! dur {
        ($path:expr, $want:expr, $got:expr) => {{
            let (want, got): (i64, NtpDuration) = ($want, $got);
            if !dur_ok(want, got) {
                bad.push(format!(
                    "{}: wrote {want} units ({:e} s), read {:e} s (tolerance {} units)",
                    $path,
                    want as f64 / 4_294_967_296.0,
                    got.to_seconds(),
                    dur_tolerance(want)
                ));
            }
        }};
    }
    eq!("program.version", m.version, g.program.version);
    eq!("program.build_commit", m.build_commit, g.program.build_commit);
    eq!("program.build_commit_date", m.build_commit_date, g.program.build_commit_date);
    if !skip_uptime {
        feq!("program.uptime_seconds", m.uptime, g.program.uptime_seconds);
    } else if !(g.program.uptime_seconds.is_finite() && g.program.uptime_seconds >= 0.0) {
        bad.push(format!("program.uptime_seconds: read {:?}", g.program.uptime_seconds));
    }
    eq!("program.now", mk_ts(m.now), g.program.now);
    let t = &g.system.time_snapshot;
    dur!("system.precision", m.precision, t.precision);
    dur!("system.root_delay", m.root_delay, t.root_delay);
    eq!("system.root_variance_base_time", mk_ts(m.base_time), t.root_variance_base_time);
    feq!("system.root_variance_base", m.var[0], t.root_variance_base);
    feq!("system.root_variance_linear", m.var[1], t.root_variance_linear);
    feq!("system.root_variance_quadratic", m.var[2], t.root_variance_quadratic);
    feq!("system.root_variance_cubic", m.var[3], t.root_variance_cubic);
    eq!("system.leap_indicator", LEAPS[m.leap], t.leap_indicator);
    dur!("system.accumulated_steps", m.acc_steps, t.accumulated_steps);
    match (m.acc_thr, t.accumulated_steps_threshold) {
        (None, None) => {}
        (Some(w), Some(gv)) => dur!("system.accumulated_steps_threshold", w, gv),
        (w, gv) => bad.push(format!("system.accumulated_steps_threshold: wrote {w:?}, read {gv:?}")),
    }
    eq!("system.stratum", m.stratum, g.system.ntp_snapshot.stratum);
    eq!(
        "system.reference_id",
        ReferenceId::from_ip(IpAddr::V4(Ipv4Addr::from(m.refid))),
        g.system.ntp_snapshot.reference_id
    );
    eq!("sources.len", m.sources.len(), g.sources.len());
    let mut gs: Vec<&ObservableSourceState> = g.sources.iter().collect();
    let mut ms: Vec<&MSource> = m.sources.iter().collect();
    if by_id {
        gs.sort_by_key(|s| s.id);
        ms.sort_by_key(|s| s.id);
    }
    for (i, (w, r)) in ms.iter().zip(gs.iter()).enumerate() {
        let p = format!("sources[{i}]");
        let td = &r.timedata;
        for (k, got) in [td.offset, td.uncertainty, td.delay, td.remote_delay, td.remote_uncertainty].into_iter().enumerate() {
            dur!(format!("{p}.{}", DUR_NAMES[k]), w.durs[k], got);
        }
        eq!(format!("{p}.last_update"), mk_ts(w.last_update), td.last_update);
        eq!(format!("{p}.unanswered_polls"), w.unanswered_polls, r.unanswered_polls);
        eq!(format!("{p}.poll_interval"), w.poll_interval, r.poll_interval.as_byte());
        eq!(format!("{p}.nts_cookies"), w.nts_cookies, r.nts_cookies);
        eq!(format!("{p}.name"), w.name, r.name);
        eq!(format!("{p}.address"), w.address, r.address);
        eq!(format!("{p}.id"), w.id.to_string(), r.id.to_string());
    }
    eq!("servers.len", m.servers.len(), g.servers.len());
    for (i, (w, r)) in m.servers.iter().zip(g.servers.iter()).enumerate() {
        let p = format!("servers[{i}]");
        eq!(format!("{p}.address"), w.address, r.address);
        let st = &r.stats;
        let got = [
            st.received_packets.get(),
            st.accepted_packets.get(),
            st.denied_packets.get(),
            st.ignored_packets.get(),
            st.rate_limited_packets.get(),
            st.response_send_errors.get(),
            st.nts_received_packets.get(),
            st.nts_accepted_packets.get(),
            st.nts_denied_packets.get(),
            st.nts_rate_limited_packets.get(),
            st.nts_nak_packets.get(),
        ];
        for k in 0..11 {
            eq!(format!("{p}.stats.{}", COUNTER_NAMES[k]), w.counters[k], got[k]);
        }
    }
    bad
}

static FLOATS_COMPARED: std::sync::atomic::AtomicU64 = std::sync::atomic::AtomicU64::new(0);
static FLOATS_DIFFERENT: std::sync::atomic::AtomicU64 = std::sync::atomic::AtomicU64::new(0);
static FLOAT_MAX_ULPS: std::sync::atomic::AtomicU64 = std::sync::atomic::AtomicU64::new(0);

/// Violation class of a list of mismatches (most specific cause first).
fn mismatch_class(bad: &[String]) -> &'static str {
    if bad.iter().any(|b| !b.contains("units (") && !b.contains("[float,")) {
        "C38:value-changed"
    } else if bad.iter().any(|b| b.contains("units (")) {
        "C38:duration-out-of-tolerance"
    } else {
        "C38:float-not-equal"
    }
}

// --- alphabets ------------------------------------------------------------------------------------

const S31: i64 = (1i64 << 31) - 1;
fn dur_alphabet() -> Vec<i64> {
    vec![
        0, 1, -1, 2, -2, 0xFFFF_FFFF, -0xFFFF_FFFF, 1 << 32, -(1 << 32), (1 << 32) + 1, -(1 << 32) - 1,
        4_294_967, -4_294_967, 1000 << 32, -(1000i64 << 32), 86_400 << 32, -(86_400i64 << 32), S31 << 32,
        (S31 << 32) | 0x8000_0000, i64::MAX, i64::MAX - 1, i64::MIN, i64::MIN + 1, i64::MIN + (1 << 32),
        1 << 53, (1 << 53) + 1, -(1 << 53) - 1, 0x0123_4567_89AB_CDEF, -0x0123_4567_89AB_CDEF,
    ]
}
fn ts_alphabet() -> Vec<u64> {
    vec![0, 1, 0xFFFF_FFFF, 1 << 32, 1 << 53, (1 << 53) + 1, 1 << 63, (1 << 63) + 1, u64::MAX - 1, u64::MAX]
}
fn cnt_alphabet() -> Vec<u64> {
    vec![0, 1, 1 << 32, 1 << 53, (1 << 53) + 1, i64::MAX as u64, 1 << 63, u64::MAX]
}
fn f64_alphabet() -> Vec<f64> {
    vec![
        0.0, -0.0, 1.0, -1.5, 0.1, 1.0 / 3.0, 1e-9, f64::MIN_POSITIVE, 5e-324, 1e300, f64::MAX, -f64::MAX,
        9_007_199_254_740_993.0, 0.1 + 0.2, 123_456_789.123_456_79, 1e21, 1e-7, 8.41e21, 2.225_073_858_507_201e-308,
        1e23, 8.5e-323, 4.35e-322, 9.5e-305, 6.9294956446009195e15, 1.7976931348623157e308,
    ]
}
fn name_alphabet() -> Vec<String> {
    vec![
        String::new(),
        "a".into(),
        "127.0.0.3:123".into(),
        "\"quoted\\back/slash\"".into(),
        "tab\tnl\ncr\r nul\0 esc\u{1b} del\u{7f}".into(),
        "\u{fc}n\u{ef}c\u{f8}d\u{e9} \u{1F600} \u{2028}\u{ffff}".into(),
        "x".repeat(70_000),
        "{\"a\":[1,2,{\"b\":null}]}".repeat(12),
    ]
}
fn cookie_alphabet() -> Vec<Option<usize>> {
    vec![None, Some(0), Some(1), Some(8), Some((1 << 53) + 1), Some(usize::MAX)]
}
fn addr_alphabet() -> Vec<SocketAddr> {
    ["0.0.0.0:0", "127.0.0.1:123", "255.255.255.255:65535", "[::]:123", "[::1]:0", "[2001:db8::1]:65535", "[fe80::1%5]:123", "[::ffff:1.2.3.4]:123"]
        .iter()
        .map(|s| s.parse().expect("addr"))
        .collect()
}

type Mutator = Box<dyn Fn(&mut MState) + Send + Sync>;

/// Every (field, alphabet value) of a state with 2 sources and 2 servers.
fn mutators() -> Vec<(String, Mutator)> {
    let mut v: Vec<(String, Mutator)> = Vec::new();
    macro_rules! add {
        ($name:expr, $f:expr) => {
            v.push(($name, Box::new($f)));
        };
    }
    for (i, s) in name_alphabet().into_iter().enumerate() {
        let (a, b, c, d, e) = (s.clone(), s.clone(), s.clone(), s.clone(), s.clone());
        add!(format!("version=name#{i}"), move |m: &mut MState| m.version = a.clone());
        add!(format!("build_commit=name#{i}"), move |m: &mut MState| m.build_commit = b.clone());
        add!(format!("build_commit_date=name#{i}"), move |m: &mut MState| m.build_commit_date = c.clone());
        for si in 0..2 {
            let (d, e) = (d.clone(), e.clone());
            add!(format!("sources[{si}].name=name#{i}"), move |m: &mut MState| m.sources[si].name = d.clone());
            add!(format!("sources[{si}].address=name#{i}"), move |m: &mut MState| m.sources[si].address = e.clone());
        }
    }
    for x in f64_alphabet() {
        add!(format!("uptime={x:e}"), move |m: &mut MState| m.uptime = x);
        for k in 0..4 {
            add!(format!("var[{k}]={x:e}"), move |m: &mut MState| m.var[k] = x);
        }
    }
    for x in ts_alphabet() {
        add!(format!("now={x}"), move |m: &mut MState| m.now = x);
        add!(format!("base_time={x}"), move |m: &mut MState| m.base_time = x);
        for si in 0..2 {
            add!(format!("sources[{si}].last_update={x}"), move |m: &mut MState| m.sources[si].last_update = x);
        }
    }
    for x in dur_alphabet() {
        add!(format!("precision={x}"), move |m: &mut MState| m.precision = x);
        add!(format!("root_delay={x}"), move |m: &mut MState| m.root_delay = x);
        add!(format!("acc_steps={x}"), move |m: &mut MState| m.acc_steps = x);
        add!(format!("acc_thr=Some({x})"), move |m: &mut MState| m.acc_thr = Some(x));
        for si in 0..2 {
            for k in 0..5 {
                add!(format!("sources[{si}].{}={x}", DUR_NAMES[k]), move |m: &mut MState| m.sources[si].durs[k] = x);
            }
        }
    }
    for x in 0..5 {
        add!(format!("leap={x}"), move |m: &mut MState| m.leap = x);
    }
    for x in [0u8, 1, 15, 16, 255] {
        add!(format!("stratum={x}"), move |m: &mut MState| m.stratum = x);
    }
    for x in [0u32, 0x584e_4f4e, 0x7F00_0001, u32::MAX] {
        add!(format!("refid={x:#x}"), move |m: &mut MState| m.refid = x);
    }
    for si in 0..2 {
        for x in [0u32, 1, 8, u32::MAX] {
            add!(format!("sources[{si}].unanswered_polls={x}"), move |m: &mut MState| m.sources[si].unanswered_polls = x);
        }
        for x in [0u8, 4, 10, 17, 127, 128, 255] {
            add!(format!("sources[{si}].poll_interval={x}"), move |m: &mut MState| m.sources[si].poll_interval = x);
        }
        for x in cookie_alphabet() {
            add!(format!("sources[{si}].nts_cookies={x:?}"), move |m: &mut MState| m.sources[si].nts_cookies = x);
        }
        for x in [0u64, 1, (1 << 53) + 1, u64::MAX] {
            add!(format!("sources[{si}].id={x}"), move |m: &mut MState| m.sources[si].id = x);
        }
    }
    for vi in 0..2 {
        for x in addr_alphabet() {
            add!(format!("servers[{vi}].address={x}"), move |m: &mut MState| m.servers[vi].address = x);
        }
        for k in 0..11 {
            for x in cnt_alphabet() {
                add!(format!("servers[{vi}].{}={x}", COUNTER_NAMES[k]), move |m: &mut MState| m.servers[vi].counters[k] = x);
            }
        }
    }
    v
}

/// State with `ns` sources / `nv` servers whose every field takes the (p + field number)-th
/// value of its alphabet (rotating fill); p = 0.. covers every alphabet value in every field.
fn filled(ns: usize, nv: usize, p: usize, rotate: bool) -> MState {
    let (da, ta, ca, fa, na, ka, aa) =
        (dur_alphabet(), ts_alphabet(), cnt_alphabet(), f64_alphabet(), name_alphabet(), cookie_alphabet(), addr_alphabet());
    let mut n = 0usize;
    let mut next = move || {
        let r = if rotate { p + n } else { p };
        n += 1;
        r
    };
    // names: skip the 70 000 character one in fills (covered by "one"), keeps states small
    let name = |i: usize| {
        let s = &na[i % na.len()];
        if s.len() > 1000 { format!("long#{i}") } else { s.clone() }
    };
    let mut m = base(ns, nv);
    m.version = name(next());
    m.build_commit = name(next());
    m.build_commit_date = name(next());
    m.uptime = fa[next() % fa.len()];
    m.now = ta[next() % ta.len()];
    m.precision = da[next() % da.len()];
    m.root_delay = da[next() % da.len()];
    m.base_time = ta[next() % ta.len()];
    for k in 0..4 {
        m.var[k] = fa[next() % fa.len()];
    }
    m.leap = next() % 5;
    m.acc_steps = da[next() % da.len()];
    let i = next();
    m.acc_thr = if i % (da.len() + 1) == da.len() { None } else { Some(da[i % (da.len() + 1)]) };
    m.stratum = [0u8, 1, 15, 16, 255][next() % 5];
    m.refid = [0u32, 0x584e_4f4e, 0x7F00_0001, u32::MAX][next() % 4];
    for (si, s) in m.sources.iter_mut().enumerate() {
        for k in 0..5 {
            s.durs[k] = da[next() % da.len()];
        }
        s.last_update = ta[next() % ta.len()];
        s.unanswered_polls = [0u32, 1, 8, u32::MAX][next() % 4];
        s.poll_interval = [0u8, 4, 10, 17, 127, 128, 255][next() % 7];
        s.nts_cookies = ka[next() % ka.len()];
        s.name = name(next());
        s.address = name(next());
        // ids must stay distinct (they are map keys in the daemon)
        s.id = [0u64, 1, (1 << 53) + 1, u64::MAX][next() % 4].wrapping_add(si as u64 * 7);
    }
    for s in m.servers.iter_mut() {
        s.address = aa[next() % aa.len()];
        for k in 0..11 {
            s.counters[k] = ca[next() % ca.len()];
        }
    }
    m
}

// --- harness streams -----------------------------------------------------------------------

#[derive(Clone, Copy, Debug, PartialEq, Eq, Hash)]
enum Dev {
    Pending,
    Short(usize), // transfer at most this many bytes (>= 1)
    Half,         // transfer half of what was asked (at least 1)
    AllButOne,    // transfer one byte less than asked (at least 1)
}

type Sched = Vec<(usize, Dev)>; // (call index, deviation)

fn sched_str(s: &Sched) -> String {
    if s.is_empty() {
        return "-".into();
    }
    s.iter()
        .map(|(i, d)| match d {
            Dev::Pending => format!("{i}=P"),
            Dev::Short(n) => format!("{i}=S{n}"),
            Dev::Half => format!("{i}=H"),
            Dev::AllButOne => format!("{i}=B"),
        })
        .collect::<Vec<_>>()
        .join(",")
}

fn parse_sched(s: &str) -> Option<Sched> {
    if s == "-" {
        return Some(vec![]);
    }
    s.split(',')
        .map(|p| {
            let (i, d) = p.split_once('=')?;
            let d = match d {
                "P" => Dev::Pending,
                "H" => Dev::Half,
                "B" => Dev::AllButOne,
                x => Dev::Short(x.strip_prefix('S')?.parse().ok()?),
            };
            Some((i.parse().ok()?, d))
        })
        .collect()
}

fn allowed(dev: Option<Dev>, want: usize) -> Option<usize> {
    match dev {
        None => Some(want),
        Some(Dev::Pending) => None,
        Some(Dev::Short(n)) => Some(want.min(n.max(1))),
        Some(Dev::Half) => Some((want / 2).max(1).min(want)),
        Some(Dev::AllButOne) => Some(want.saturating_sub(1).max(1).min(want)),
    }
}

struct SchedReader<'a> {
    data: &'a [u8],
    pos: usize,
    calls: usize,
    sched: &'a Sched,
    /// requests made once the 8 header bytes had been delivered: (bytes requested)
    after_header_requests: Vec<usize>,
    deviations_applied: usize,
}

impl<'a> SchedReader<'a> {
    fn new(data: &'a [u8], sched: &'a Sched) -> Self {
        SchedReader { data, pos: 0, calls: 0, sched, after_header_requests: Vec::new(), deviations_applied: 0 }
    }
}

impl AsyncRead for SchedReader<'_> {
    fn poll_read(mut self: Pin<&mut Self>, cx: &mut Context<'_>, buf: &mut ReadBuf<'_>) -> Poll<std::io::Result<()>> {
        let idx = self.calls;
        self.calls += 1;
        let want = buf.remaining();
        if self.pos >= 8 {
            self.after_header_requests.push(want);
        }
        let dev = self.sched.iter().find(|(i, _)| *i == idx).map(|(_, d)| *d);
        if dev.is_some() {
            self.deviations_applied += 1;
        }
        let avail = self.data.len() - self.pos;
        match allowed(dev, want.min(avail)) {
            None => {
                cx.waker().wake_by_ref();
                Poll::Pending
            }
            Some(n) => {
                let (p, n) = (self.pos, n.min(avail).min(want));
                buf.put_slice(&self.data[p..p + n]);
                self.pos += n;
                Poll::Ready(Ok(()))
            }
        }
    }
}

struct SchedWriter<'a> {
    data: Vec<u8>,
    calls: usize,
    sched: &'a Sched,
    deviations_applied: usize,
}

impl AsyncWrite for SchedWriter<'_> {
    fn poll_write(mut self: Pin<&mut Self>, cx: &mut Context<'_>, buf: &[u8]) -> Poll<std::io::Result<usize>> {
        let idx = self.calls;
        self.calls += 1;
        let dev = self.sched.iter().find(|(i, _)| *i == idx).map(|(_, d)| *d);
        if dev.is_some() {
            self.deviations_applied += 1;
        }
        match allowed(dev, buf.len()) {
            None => {
                cx.waker().wake_by_ref();
                Poll::Pending
            }
            Some(n) => {
                self.data.extend_from_slice(&buf[..n]);
                Poll::Ready(Ok(n))
            }
        }
    }
    fn poll_flush(self: Pin<&mut Self>, _cx: &mut Context<'_>) -> Poll<std::io::Result<()>> {
        Poll::Ready(Ok(()))
    }
    fn poll_shutdown(self: Pin<&mut Self>, _cx: &mut Context<'_>) -> Poll<std::io::Result<()>> {
        Poll::Ready(Ok(()))
    }
}

/// Drive a future that only depends on harness streams; `Err` = it never completed.
fn drive<F: Future>(f: F) -> Result<F::Output, String> {
    let mut f = std::pin::pin!(f);
    let mut cx = Context::from_waker(Waker::noop());
    for _ in 0..1_000_000 {
        if let Poll::Ready(v) = f.as_mut().poll(&mut cx) {
            return Ok(v);
        }
    }
    Err("future still pending after 10^6 polls".into())
}

struct ReadOutcome {
    result: Result<ObservableState, String>,
    consumed: usize,
    after_header_requests: Vec<usize>,
    deviations_applied: usize,
}

/// `read_json::<ObservableState>` exactly as ntp-ctl and the exporter call it.
fn do_read(bytes: &[u8], sched: &Sched) -> Result<ReadOutcome, String> {
    let mut reader = SchedReader::new(bytes, sched);
    let mut msg: Vec<u8> = Vec::with_capacity(16 * 1024);
    msg.extend_from_slice(b"stale bytes from a previous message"); // clients reuse nothing, but must not matter
    let r = common::catch(|| drive(read_json::<ObservableState>(&mut reader, &mut msg)));
    let result = match r {
        Err(p) => return Err(format!("read_json panicked: {p}")),
        Ok(Err(stall)) => return Err(format!("read_json: {stall}")),
        Ok(Ok(Ok(v))) => Ok(v),
        Ok(Ok(Err(e))) => Err(format!("{:?}: {e}", e.kind())),
    };
    Ok(ReadOutcome {
        result,
        consumed: reader.pos,
        after_header_requests: reader.after_header_requests.clone(),
        deviations_applied: reader.deviations_applied,
    })
}

fn do_write(state: &ObservableState, sched: &Sched) -> Result<(Vec<u8>, usize), String> {
    let mut w = SchedWriter { data: Vec::new(), calls: 0, sched, deviations_applied: 0 };
    match common::catch(|| drive(write_json(&mut w, state))) {
        Err(p) => Err(format!("write_json panicked: {p}")),
        Ok(Err(stall)) => Err(format!("write_json: {stall}")),
        Ok(Ok(Err(e))) => Err(format!("write_json failed: {e}")),
        Ok(Ok(Ok(()))) => Ok((w.data, w.deviations_applied)),
    }
}

/// write -> read -> compare for one model state; returns the observation string.
fn roundtrip(ctx: &Ctx, m: &MState, trace: &str, wsched: &Sched, rsched: &Sched) -> String {
    ctx.add("transitions", 2);
    let state = build(m);
    let (bytes, wdev) = match do_write(&state, wsched) {
        Ok(b) => b,
        Err(e) => {
            ctx.violation("C38:write-failed", e.clone(), trace);
            return e;
        }
    };
    let payload = bytes.len().saturating_sub(8) as u64;
    let out = match do_read(&bytes, rsched) {
        Ok(o) => o,
        Err(e) => {
            ctx.violation("C38:read-crash", e.clone(), trace);
            return e;
        }
    };
    ctx.add("deviations_applied", (wdev + out.deviations_applied) as u64);
    if payload > LIMIT {
        ctx.inc("outcome_oversize_state");
        return check_oversize(ctx, &out, payload, trace);
    }
    match &out.result {
        Err(e) => {
            ctx.violation(
                "C38:published-state-unreadable",
                format!("a {payload}-byte snapshot was written but reading it back failed: {e}"),
                trace,
            );
            format!("payload={payload} read=Err({e})")
        }
        Ok(g) => {
            ctx.inc("outcome_read_back");
            let bad = compare(m, g, false, false);
            if !bad.is_empty() {
                let class = mismatch_class(&bad);
                ctx.violation(class, format!("{} field(s) differ: {}", bad.len(), bad[..bad.len().min(3)].join(" | ")), trace);
            }
            if out.consumed != bytes.len() {
                ctx.violation("C38:message-not-consumed", format!("{} of {} bytes consumed", out.consumed, bytes.len()), trace);
            }
            format!("payload={payload} read=Ok mismatches={bad:?}")
        }
    }
}

/// The statement's second clause for a header announcing `announced` > 1 MiB.
fn check_oversize(ctx: &Ctx, out: &ReadOutcome, announced: u64, trace: &str) -> String {
    if out.result.is_ok() {
        ctx.violation("C38:oversize-accepted", format!("a message announcing {announced} bytes was accepted"), trace);
    }
    if !out.after_header_requests.is_empty() || out.consumed > 8 {
        ctx.violation(
            "C38:payload-read-after-oversize-header",
            format!(
                "header announced {announced} bytes (> 1 MiB) but the reader went on to request payload: requests {:?}, {} bytes consumed",
                &out.after_header_requests[..out.after_header_requests.len().min(4)],
                out.consumed
            ),
            trace,
        );
    }
    format!(
        "announced={announced} read={} after_header_requests={:?} consumed={}",
        if out.result.is_ok() { "Ok".to_string() } else { format!("Err({})", out.result.as_ref().err().unwrap()) },
        out.after_header_requests,
        out.consumed
    )
}

// --- cases ------------------------------------------------------------------------------------

/// All schedules with <= `max_dev` deviations on call indices < `calls`, over `kinds`.
fn schedules(calls: usize, kinds: &[Dev], max_dev: usize) -> Vec<Sched> {
    let mut out: Vec<Sched> = vec![vec![]];
    if max_dev >= 1 {
        for i in 0..calls {
            for a in kinds {
                out.push(vec![(i, *a)]);
            }
        }
    }
    if max_dev >= 2 {
        for i in 0..calls {
            for j in i + 1..calls {
                for a in kinds {
                    for b in kinds {
                        out.push(vec![(i, *a), (j, *b)]);
                    }
                }
            }
        }
    }
    out
}

fn dev_kinds() -> Vec<Dev> {
    let mut k = vec![Dev::Pending, Dev::Half, Dev::AllButOne];
    for n in 1..=7 {
        k.push(Dev::Short(n));
    }
    k
}

fn pack_durs(ds: &[i64]) -> MState {
    let mut m = base(3, 1);
    let mut it = ds.iter().copied().chain(std::iter::repeat(0));
    m.precision = it.next().unwrap();
    m.root_delay = it.next().unwrap();
    m.acc_steps = it.next().unwrap();
    m.acc_thr = Some(it.next().unwrap());
    for s in m.sources.iter_mut() {
        for k in 0..5 {
            s.durs[k] = it.next().unwrap();
        }
    }
    m
}
const DURS_PER_STATE: usize = 19;

fn pack_floats(fs: &[u64]) -> MState {
    let mut m = base(1, 0);
    let mut it = fs.iter().map(|b| f64::from_bits(*b)).chain(std::iter::repeat(0.0));
    m.uptime = it.next().unwrap();
    for k in 0..4 {
        m.var[k] = it.next().unwrap();
    }
    m
}
const FLOATS_PER_STATE: usize = 5;

fn dur_sweep(thorough: bool) -> Vec<i64> {
    let mut v: Vec<i64> = Vec::new();
    for k in 0..=62u32 {
        for d in -2i64..=2 {
            v.push((1i64 << k).wrapping_add(d));
            v.push((-(1i64 << k)).wrapping_add(d));
        }
    }
    for d in 0..4 {
        v.push(i64::MAX - d);
        v.push(i64::MIN + d);
    }
    let n = if thorough { 100_000i64 } else { 2000 };
    for s in -n..=n {
        for frac in [0i64, 1, 1 << 31, 0xFFFF_FFFF] {
            v.push((s << 32) | frac);
        }
    }
    // whole-range stride sweep
    let steps: u64 = if thorough { 1 << 21 } else { 1 << 15 };
    let stride = (u64::MAX / steps) as i64;
    let mut x = i64::MIN;
    for _ in 0..steps {
        v.push(x);
        v.push(x ^ 0x5555_5555);
        x = x.wrapping_add(stride);
    }
    v
}

fn float_sweep(thorough: bool) -> Vec<u64> {
    let mut mants: Vec<u64> = vec![0, 1, 0x8_0000_0000_0000, 0xF_FFFF_FFFF_FFFF, 0x5_5555_5555_5555, 0xA_AAAA_AAAA_AAAB, 0x9_21FB_5444_2D18];
    if thorough {
        for k in 0..52 {
            mants.push(1u64 << k);
            mants.push((1u64 << k) - 1);
            mants.push(0xF_FFFF_FFFF_FFFF ^ (1u64 << k));
        }
    }
    let mut v = Vec::new();
    for sign in [0u64, 1] {
        for exp in 0..2047u64 {
            for m in &mants {
                v.push((sign << 63) | (exp << 52) | m);
            }
        }
    }
    v
}

/// A model state whose encoding is exactly `target` payload bytes (padding the first source name).
fn sized_state(target: usize) -> Option<MState> {
    let mut m = base(2, 1);
    let (bytes, _) = do_write(&build(&m), &vec![]).ok()?;
    let cur = bytes.len() - 8;
    if target < cur {
        return None;
    }
    m.sources[0].name.push_str(&"p".repeat(target - cur));
    Some(m)
}

fn rep_state(i: usize) -> MState {
    match i {
        0 => base(0, 0),
        1 => base(2, 2),
        2 => filled(3, 3, 5, true),
        _ => filled(1, 1, 17, true),
    }
}
const REP_STATES: usize = 4;

#[derive(Clone, Debug)]
enum Case {
    One(usize),
    Pair(usize, usize),
    Diag(usize),
    Shape(usize, usize, usize),
    Durs(Vec<i64>),
    Floats(Vec<u64>),
    Size(i64),
    Len { announced: u64, avail: usize, sched: Sched },
    Chunk { state: usize, write_side: bool, sched: Sched },
    Trunc { state: usize, cut: usize },
    Publish(usize, usize, usize),
    /// publish while the harness holds the write lock of the source map: (sources, servers, fill, variant)
    PublishLocked(usize, usize, usize, usize),
}

fn trace_of(c: &Case) -> String {
    match c {
        Case::One(i) => format!("one:{i}"),
        Case::Pair(i, j) => format!("pair:{i}:{j}"),
        Case::Diag(k) => format!("diag:{k}"),
        Case::Shape(a, b, p) => format!("shape:{a}:{b}:{p}"),
        Case::Durs(d) => format!("durs:{}", d.iter().map(|x| x.to_string()).collect::<Vec<_>>().join(",")),
        Case::Floats(f) => format!("floats:{}", f.iter().map(|x| format!("{x:016x}")).collect::<Vec<_>>().join(",")),
        Case::Size(d) => format!("size:{d}"),
        Case::Len { announced, avail, sched } => format!("len:{announced}:{avail}:{}", sched_str(sched)),
        Case::Chunk { state, write_side, sched } => format!("chunk:{state}:{}:{}", if *write_side { "w" } else { "r" }, sched_str(sched)),
        Case::Trunc { state, cut } => format!("trunc:{state}:{cut}"),
        Case::Publish(a, b, p) => format!("publish:{a}:{b}:{p}"),
        Case::PublishLocked(a, b, p, v) => format!("publock:{a}:{b}:{p}:{v}"),
    }
}

fn parse_case(t: &str) -> Option<Case> {
    let p: Vec<&str> = t.split(':').collect();
    let n = |s: &str| s.parse::<usize>().ok();
    Some(match p.as_slice() {
        ["one", i] => Case::One(n(i)?),
        ["pair", i, j] => Case::Pair(n(i)?, n(j)?),
        ["diag", k] => Case::Diag(n(k)?),
        ["shape", a, b, c] => Case::Shape(n(a)?, n(b)?, n(c)?),
        ["durs", d] => Case::Durs(d.split(',').map(|x| x.parse().ok()).collect::<Option<Vec<i64>>>()?),
        ["floats", f] => Case::Floats(f.split(',').map(|x| u64::from_str_radix(x, 16).ok()).collect::<Option<Vec<u64>>>()?),
        ["size", d] => Case::Size(d.parse().ok()?),
        ["len", a, v, s] => Case::Len { announced: a.parse().ok()?, avail: n(v)?, sched: parse_sched(s)? },
        ["chunk", st, side, s] => Case::Chunk { state: n(st)?, write_side: *side == "w", sched: parse_sched(s)? },
        ["trunc", st, c] => Case::Trunc { state: n(st)?, cut: n(c)? },
        ["publish", a, b, c] => Case::Publish(n(a)?, n(b)?, n(c)?),
        ["publock", a, b, c, v] => Case::PublishLocked(n(a)?, n(b)?, n(c)?, n(v)?),
        _ => return None,
    })
}

struct Shared {
    muts: Vec<(String, Mutator)>,
}

fn run_case(ctx: &Ctx, sh: &Shared, c: &Case) -> String {
    let trace = trace_of(c);
    let none: Sched = vec![];
    match c {
        Case::One(i) => {
            let mut m = base(2, 2);
            (sh.muts[*i].1)(&mut m);
            roundtrip(ctx, &m, &trace, &none, &none)
        }
        Case::Pair(i, j) => {
            let mut m = base(2, 2);
            (sh.muts[*i].1)(&mut m);
            (sh.muts[*j].1)(&mut m);
            roundtrip(ctx, &m, &trace, &none, &none)
        }
        Case::Diag(k) => roundtrip(ctx, &filled(2, 2, *k, false), &trace, &none, &none),
        Case::Shape(a, b, p) => roundtrip(ctx, &filled(*a, *b, *p, true), &trace, &none, &none),
        Case::Durs(d) => roundtrip(ctx, &pack_durs(d), &trace, &none, &none),
        Case::Floats(f) => roundtrip(ctx, &pack_floats(f), &trace, &none, &none),
        Case::Size(delta) => match sized_state((LIMIT as i64 + delta) as usize) {
            Some(m) => roundtrip(ctx, &m, &trace, &none, &none),
            None => "cannot build".into(),
        },
        Case::Len { announced, avail, sched } => {
            ctx.add("transitions", 1);
            let mut bytes = announced.to_be_bytes().to_vec();
            bytes.extend(std::iter::repeat(b'7').take(*avail));
            let out = match do_read(&bytes, sched) {
                Ok(o) => o,
                Err(e) => {
                    ctx.violation("C38:read-crash", e.clone(), &trace);
                    return e;
                }
            };
            ctx.add("deviations_applied", out.deviations_applied as u64);
            if *announced > LIMIT {
                ctx.inc("outcome_oversize_header_rejected_or_flagged");
                check_oversize(ctx, &out, *announced, &trace)
            } else {
                // not a state: whatever arrives, it must be an error (a digit string is not an ObservableState)
                if out.result.is_ok() {
                    ctx.violation("C38:garbage-accepted", format!("{avail} digits were read as an ObservableState"), &trace);
                }
                ctx.inc("outcome_small_header_error");
                format!("announced={announced} read={:?} consumed={}", out.result.as_ref().err(), out.consumed)
            }
        }
        Case::Chunk { state, write_side, sched } => {
            let m = rep_state(*state);
            if *write_side { roundtrip(ctx, &m, &trace, sched, &none) } else { roundtrip(ctx, &m, &trace, &none, sched) }
        }
        Case::Trunc { state, cut } => {
            ctx.add("transitions", 2);
            let m = rep_state(*state);
            let Ok((bytes, _)) = do_write(&build(&m), &none) else { return "write failed".into() };
            let cut = (*cut).min(bytes.len().saturating_sub(1));
            match do_read(&bytes[..cut], &none) {
                Err(e) => {
                    ctx.violation("C38:read-crash", e.clone(), &trace);
                    e
                }
                Ok(o) => {
                    if o.result.is_ok() {
                        ctx.violation("C38:truncated-message-accepted", format!("{cut} of {} bytes read as a complete state", bytes.len()), &trace);
                    }
                    ctx.inc("outcome_truncation_error");
                    format!("cut={cut}/{} read={:?}", bytes.len(), o.result.as_ref().err())
                }
            }
        }
        Case::Publish(a, b, p) => {
            ctx.add("transitions", 2);
            let m = filled(*a, *b, *p, true);
            let st = build(&m);
            let map: HashMap<ClockId, ObservableSourceState> = st.sources.iter().map(|s| (s.id, s.clone())).collect();
            let sources = std::sync::RwLock::new(map);
            let servers: Vec<ServerData> = m
                .servers
                .iter()
                .map(|s| ServerData { stats: build_stats(&s.counters), config: ServerConfig::from(s.address) })
                .collect();
            let (_stx, srx) = tokio::sync::watch::channel(servers);
            let (_ytx, yrx) = tokio::sync::watch::channel(st.system);
            let mut w = SchedWriter { data: Vec::new(), calls: 0, sched: &none, deviations_applied: 0 };
            let r = common::catch(|| drive(observer_probe::publish(&mut w, &sources, srx, yrx, st.program.now)));
            match r {
                Ok(Ok(Ok(()))) => {}
                other => {
                    let e = format!("handle_connection did not complete: {:?}", other.map(|x| x.map(|y| y.map_err(|e| e.to_string()))));
                    ctx.violation("C38:write-failed", e.clone(), &trace);
                    return e;
                }
            }
            let out = match do_read(&w.data, &none) {
                Ok(o) => o,
                Err(e) => {
                    ctx.violation("C38:read-crash", e.clone(), &trace);
                    return e;
                }
            };
            match &out.result {
                Err(e) => {
                    ctx.violation("C38:published-state-unreadable", format!("handle_connection output unreadable: {e}"), &trace);
                    format!("Err({e})")
                }
                Ok(g) => {
                    ctx.inc("outcome_published_read_back");
                    // the daemon fills in its own program data
                    let mut m2 = m.clone();
                    m2.version = g.program.version.clone();
                    m2.build_commit = g.program.build_commit.clone();
                    m2.build_commit_date = g.program.build_commit_date.clone();
                    let bad = compare(&m2, g, true, true);
                    if !bad.is_empty() {
                        ctx.violation(mismatch_class(&bad), format!("(via observer::handle_connection) {} field(s) differ: {}", bad.len(), bad[..bad.len().min(3)].join(" | ")), &trace);
                    }
                    format!("publish read=Ok mismatches={bad:?}")
                }
            }
        }
        Case::PublishLocked(a, b, p, variant) => publish_locked(ctx, &trace, *a, *b, *p, *variant),
    }
}

/// H-lock: a client is served while a source task holds the WRITE lock of the snapshot map.
/// The harness thread takes the write lock first, then starts a second thread running the real
/// `handle_connection` into an in-memory stream; it keeps the lock until the handler finished
/// (only possible if the handler does not wait for the lock) or has been running for >= 50 ms,
/// then (variant 0) releases unchanged, (1) inserts one more source and releases, (2) removes one
/// and releases. What the client reads must be a state the daemon actually had: the map as
/// before the writer's change or as at release. With the lock taken first the unchanged tree
/// always waits for the release, so the verdict does not depend on timing.
fn publish_locked(ctx: &Ctx, trace: &str, ns: usize, nv: usize, fill: usize, variant: usize) -> String {
    use std::sync::atomic::{AtomicBool, Ordering};
    use std::sync::{Arc, RwLock};
    use std::time::{Duration, Instant};
    ctx.add("transitions", 2);
    let before = filled(ns, nv, fill, true);
    let mut after = before.clone();
    match variant {
        1 => {
            let mut extra = base_source(7);
            extra.id = 0x4242_4242;
            extra.name = "inserted-while-client-waits".into();
            after.sources.push(extra);
        }
        2 => {
            after.sources.pop();
        }
        _ => {}
    }
    let st = build(&before);
    let map: HashMap<ClockId, ObservableSourceState> = st.sources.iter().map(|s| (s.id, s.clone())).collect();
    let sources = Arc::new(RwLock::new(map));
    let servers: Vec<ServerData> = before
        .servers
        .iter()
        .map(|s| ServerData { stats: build_stats(&s.counters), config: ServerConfig::from(s.address) })
        .collect();
    let (_stx, srx) = tokio::sync::watch::channel(servers);
    let (_ytx, yrx) = tokio::sync::watch::channel(st.system);
    let now = st.program.now;
    let (started, done) = (Arc::new(AtomicBool::new(false)), Arc::new(AtomicBool::new(false)));
    type Out = Result<Vec<u8>, String>;
    let result: Arc<std::sync::Mutex<Option<Out>>> = Arc::new(std::sync::Mutex::new(None));

    // the "source task": holds the write lock from before the client connects
    let mut guard = sources.write().expect("fresh lock");
    let handler = {
        let (sources, started, done, result) = (sources.clone(), started.clone(), done.clone(), result.clone());
        std::thread::spawn(move || {
            let none: Sched = vec![];
            let mut w = SchedWriter { data: Vec::new(), calls: 0, sched: &none, deviations_applied: 0 };
            started.store(true, Ordering::SeqCst);
            let r = common::catch(|| drive(observer_probe::publish(&mut w, &sources, srx, yrx, now)));
            let out: Out = match r {
                Ok(Ok(Ok(()))) => Ok(std::mem::take(&mut w.data)),
                other => Err(format!("{:?}", other.map(|x| x.map(|y| y.map_err(|e| e.to_string()))))),
            };
            *result.lock().unwrap() = Some(out);
            done.store(true, Ordering::SeqCst);
        })
    };
    let t0 = Instant::now();
    while !started.load(Ordering::SeqCst) && t0.elapsed() < Duration::from_secs(20) {
        std::thread::sleep(Duration::from_millis(1));
    }
    let t1 = Instant::now();
    while !done.load(Ordering::SeqCst) && t1.elapsed() < Duration::from_millis(50) {
        std::thread::sleep(Duration::from_millis(1));
    }
    let finished_under_lock = done.load(Ordering::SeqCst);
    ctx.inc(if finished_under_lock { "lock_outcome_handler_finished_while_write_locked" } else { "lock_outcome_handler_waited_for_release" });
    // the writer's change, then release
    match variant {
        1 => {
            let s = build_source(after.sources.last().expect("inserted"));
            guard.insert(s.id, s);
        }
        2 => {
            if let Some(last) = before.sources.last() {
                guard.remove(&mk_id(last.id));
            }
        }
        _ => {}
    }
    drop(guard);
    // dead-man: a cap, not a verdict
    let t2 = Instant::now();
    while !done.load(Ordering::SeqCst) && t2.elapsed() < Duration::from_secs(20) {
        std::thread::sleep(Duration::from_millis(1));
    }
    if !done.load(Ordering::SeqCst) {
        ctx.cap_hit("publish-under-write-lock: handler thread did not finish within 20 s of the release (thread leaked, case not judged)");
        return "dead-man".into();
    }
    handler.join().ok();
    let bytes = match result.lock().unwrap().take() {
        Some(Ok(b)) => b,
        other => {
            let e = format!("handle_connection did not complete: {other:?}");
            ctx.violation("C38:write-failed", e.clone(), trace);
            return e;
        }
    };
    let none: Sched = vec![];
    let out = match do_read(&bytes, &none) {
        Ok(o) => o,
        Err(e) => {
            ctx.violation("C38:read-crash", e.clone(), trace);
            return e;
        }
    };
    let g = match &out.result {
        Ok(g) => g,
        Err(e) => {
            ctx.violation("C38:published-state-unreadable", format!("handle_connection output unreadable: {e}"), trace);
            return format!("Err({e})");
        }
    };
    let against = |m: &MState| {
        let mut m2 = m.clone();
        m2.version = g.program.version.clone();
        m2.build_commit = g.program.build_commit.clone();
        m2.build_commit_date = g.program.build_commit_date.clone();
        compare(&m2, g, true, true)
    };
    let (bad_before, bad_after) = (against(&before), against(&after));
    let verdict = if bad_before.is_empty() {
        ctx.inc("lock_outcome_read_map_before_change");
        "map-before-change"
    } else if bad_after.is_empty() {
        ctx.inc("lock_outcome_read_map_at_release");
        "map-at-release"
    } else {
        let best = if bad_after.len() <= bad_before.len() { &bad_after } else { &bad_before };
        let only_values = best.iter().all(|b| b.contains("units (") || b.contains("[float,"));
        let class = if only_values { mismatch_class(best) } else { "C38:published-sources-not-a-snapshot" };
        ctx.violation(
            class,
            format!(
                "client served while a source task held the write lock of the snapshot map ({} sources before, {} at release; handler finished while locked: {finished_under_lock}) read {} sources; vs map at release: {}",
                before.sources.len(),
                after.sources.len(),
                g.sources.len(),
                best[..best.len().min(3)].join(" | ")
            ),
            trace,
        );
        "neither"
    };
    format!("sources before={} at-release={} read={} finished_under_lock={finished_under_lock} -> {verdict}", before.sources.len(), after.sources.len(), g.sources.len())
}

fn replay(ctx: &Ctx, trace: &str) -> String {
    let sh = Shared { muts: mutators() };
    match parse_case(trace) {
        Some(c) => run_case(ctx, &sh, &c),
        None => format!("unparseable trace {trace:?}"),
    }
}

#[test]
fn check() {
    let ctx = Ctx::new("C38");
    if let Some(t) = common::replay_trace() {
        let a = replay(&ctx, &t);
        let b = replay(&ctx, &t);
        common::report_replay("C38", &a, &b, ctx.violation_count() > 0);
        return;
    }
    ctx.rule(
        "A: every field of an ObservableState (2 sources, 2 servers) x its boundary alphabet (29 durations, 10 timestamps, 8 counters, \
         25 floats, 8 strings incl. empty / 70 000 chars / escapes, cookie counts, addresses ...) with the rest at base values, the k-th \
         value in all fields at once, every shape 0..=3 sources x 0..=3 servers x rotating fill; thorough: every pair of single-field \
         changes. B: duration sweep (2^k +-2, whole seconds x 4 fractions, stride sweep over i64). C: every finite f64 exponent x sign \
         x boundary mantissas. D: 16 announced lengths x 3 payload availabilities x every placement of <= 2 deviations on the header \
         reads. E: every placement of <= 2 deviations (Pending, short 1..7, half, all-but-one) on the first 6 read calls / 5 write calls \
         for 4 representative states. F: encodings of exactly 2^20-1, 2^20, 2^20+1, 2^20+2 bytes. G: every truncation point. H: \
         observer::handle_connection for every shape, and for 1..=3 sources x 0..=2 servers x 2 fills x 3 writer variants while the \
         harness holds the write lock of the source map (client must read the map as before the change or as at release). Distinct & non-trivial = a distinct case descriptor whose message reached the reader.",
    );
    ctx.assume("framing is an 8-byte length followed by the JSON text (needed only to know the encoded size of a state and to hand-craft oversize headers)");
    ctx.assume("NtpSnapshot::bloom_filter is #[serde(skip)]: it is not part of what the daemon publishes and is not compared");
    ctx.assume("states whose encoding exceeds 1 MiB fall under the statement's second clause (rejected before any payload is read), not the first");
    ctx.assume("time values are built from raw bits with NtpTimestamp += NtpDuration::from_exponent(k) (exact public arithmetic), ClockId through its integer Deserialize, checked by self_test");
    if let Err(e) = self_test() {
        ctx.violation("C38:harness-self-test", e, "self_test");
    }
    let thorough = !ctx.quick();
    let sh = Shared { muts: mutators() };
    let nm = sh.muts.len();
    ctx.set("single_field_mutations", nm as u64);
    let mut cases: Vec<Case> = Vec::new();
    // canonical first
    for d in [-1i64, 0, 1] {
        cases.push(Case::Size(d));
    }
    cases.push(Case::Size(2));
    cases.push(Case::Len { announced: LIMIT + 1, avail: 0, sched: vec![] });
    cases.push(Case::PublishLocked(1, 0, 0, 0));
    cases.push(Case::PublishLocked(2, 1, 0, 1));
    cases.push(Case::PublishLocked(2, 1, 0, 2));
    let seq = cases.len();
    for i in 0..nm {
        cases.push(Case::One(i));
    }
    for k in 0..dur_alphabet().len().max(f64_alphabet().len()) + 1 {
        cases.push(Case::Diag(k));
    }
    for a in 0..=3 {
        for b in 0..=3 {
            for p in 0..30 {
                cases.push(Case::Shape(a, b, p));
                if p < 6 {
                    cases.push(Case::Publish(a, b, p));
                }
                if (1..=3).contains(&a) && b <= 2 && (p == 0 || p == 3) {
                    for v in 0..3 {
                        cases.push(Case::PublishLocked(a, b, p, v));
                    }
                }
            }
        }
    }
    for ch in dur_sweep(thorough).chunks(DURS_PER_STATE) {
        cases.push(Case::Durs(ch.to_vec()));
    }
    for ch in float_sweep(thorough).chunks(FLOATS_PER_STATE) {
        cases.push(Case::Floats(ch.to_vec()));
    }
    // D: announced lengths
    let lens: [u64; 16] = [
        0, 1, 2, LIMIT - 1, LIMIT, LIMIT + 1, LIMIT + 2, 1 << 31, (1 << 32) - 1, 1 << 32, (1 << 32) + 5, (5 << 32) | 5,
        (1 << 32) + LIMIT, 1 << 63, (1 << 63) + 5, u64::MAX,
    ];
    let kinds = dev_kinds();
    let header_scheds = schedules(4, &kinds, 2);
    for l in lens {
        for avail in [0usize, 16, LIMIT as usize + 2] {
            for s in &header_scheds {
                if avail > 16 && s.len() == 2 && !thorough {
                    continue; // quick: big payload only with <= 1 deviation
                }
                cases.push(Case::Len { announced: l, avail, sched: s.clone() });
            }
        }
    }
    // E: chunked delivery
    let read_scheds = schedules(6, &kinds, 2);
    let write_scheds = schedules(5, &kinds, 2);
    for st in 0..REP_STATES {
        for s in &read_scheds {
            cases.push(Case::Chunk { state: st, write_side: false, sched: s.clone() });
        }
        for s in &write_scheds {
            cases.push(Case::Chunk { state: st, write_side: true, sched: s.clone() });
        }
    }
    // G: truncation
    for st in 0..REP_STATES {
        let len = do_write(&build(&rep_state(st)), &vec![]).map(|b| b.0.len()).unwrap_or(0);
        for cut in 0..len {
            cases.push(Case::Trunc { state: st, cut });
        }
    }
    let first_bound = cases.len();
    let run = |cases: &[Case], from: usize| {
        common::par_for((cases.len() - from) as u64, 16, |i| {
            let c = &cases[from + i as usize];
            let obs = run_case(&ctx, &sh, c);
            ctx.inc("evaluations");
            ctx.inc(match c {
                Case::One(_) | Case::Pair(..) | Case::Diag(_) | Case::Shape(..) => "cases_A_values",
                Case::Durs(_) => "cases_B_durations",
                Case::Floats(_) => "cases_C_floats",
                Case::Len { .. } => "cases_D_lengths",
                Case::Chunk { .. } => "cases_E_chunked",
                Case::Size(_) => "cases_F_size_boundary",
                Case::Trunc { .. } => "cases_G_truncations",
                Case::Publish(..) | Case::PublishLocked(..) => "cases_H_publish",
            });
            ctx.distinct(common::hash_of(&trace_of(c)));
            if i % 7919 == 3 {
                ctx.sample(format!("{} -> {}", trace_of(c).chars().take(80).collect::<String>(), obs.chars().take(160).collect::<String>()));
            }
        });
    };
    for c in &cases[..seq] {
        let obs = run_case(&ctx, &sh, c);
        ctx.inc("evaluations");
        ctx.inc(match c {
            Case::Size(_) => "cases_F_size_boundary",
            Case::PublishLocked(..) => "cases_H_publish",
            _ => "cases_D_lengths",
        });
        ctx.distinct(common::hash_of(&trace_of(c)));
        ctx.sample(format!("{} -> {}", trace_of(c), obs.chars().take(200).collect::<String>()));
    }
    run(&cases, seq);
    ctx.set("durations_swept", dur_sweep(thorough).len() as u64);
    ctx.set("floats_swept", float_sweep(thorough).len() as u64);
    ctx.note("bound_1", &format!("{first_bound} cases: A one/diag/shape, B, C, D, E, F, G, H complete"));
    // bound 2 (thorough): every pair of single-field changes
    if thorough {
        if ctx.over_budget() {
            ctx.cap_hit("pairs of single-field changes not started; all single changes complete");
        } else {
            let total = (nm * (nm - 1) / 2) as u64;
            // enumerate pairs (i < j) by index without materialising them
            common::par_for(nm as u64, 1, |i| {
                let i = i as usize;
                for j in i + 1..nm {
                    run_case(&ctx, &sh, &Case::Pair(i, j));
                }
                ctx.add("evaluations", (nm - i - 1) as u64);
                ctx.add("cases_A_values", (nm - i - 1) as u64);
            });
            ctx.set("pairs_of_changes", total);
            ctx.note("bound_2", &format!("{total} pairs of single-field changes complete"));
        }
    }
    let ld = |a: &std::sync::atomic::AtomicU64| a.load(std::sync::atomic::Ordering::Relaxed);
    ctx.set("float_fields_compared", ld(&FLOATS_COMPARED));
    ctx.set("float_fields_not_equal", ld(&FLOATS_DIFFERENT));
    ctx.set("float_max_ulp_error", ld(&FLOAT_MAX_ULPS));
    ctx.set("states", ctx.get("evaluations"));
    ctx.exhaustive(true);
    ctx.finish();
}
