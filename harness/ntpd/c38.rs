//! C38: not implemented yet.
