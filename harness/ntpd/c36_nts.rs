//! C36 (NTS part) — source (re)spawning is paced and follows removal reasons.
//!
//! (The pacing loop with a scripted spawner and the plain `StandardSpawner` are checked by c36.rs,
//! group gl. This file covers what gl declared "not covered": the real `NtsSpawner`,
//! `ntpd/src/daemon/spawn/nts.rs`, under the real `spawner_task`.)
//!
//! Engine E-SCHED (timed). The REAL `spawner_task` loop drives the REAL `NtsSpawner` on a
//! current-thread tokio runtime with a PAUSED clock. Every spawn attempt opens a real TCP connection
//! to a local NTS-KE server living on the same runtime (loopback, ephemeral port, TLS 1.3 with the
//! PKI of `ntpd/test-keys`, ntp-proto's real `KeyExchangeServer`; see `c35_nts::ke`). The harness
//! plays the system and sends `SystemEvent`s at scripted instants.
//!
//! Time. Virtual time moves only by the paused clock's auto-advance (gl's finding: it jumps exactly
//! to the earliest pending timer). tokio auto-advances whenever the runtime goes idle — also while
//! a socket operation is in flight (measured: a key exchange then "takes" up to several virtual
//! seconds, the clock jumping at every TLS flight). So the spawner is handed to `spawner_task`
//! inside `Watched`, a wrapper that forwards every `Spawner` method unchanged and brackets
//! `try_spawn` with a busy flag + its start/end instants; while the flag is up the driver task spins
//! on `yield_now` instead of sleeping, the runtime never goes idle, the clock is frozen, sockets and
//! the blocking pool (getaddrinfo) take real time only. Outside attempts the driver sleeps until the
//! next slot and the clock jumps from timer to timer. Result: an attempt takes zero virtual time,
//! all observed instants are exact and reproducible whatever the machine load (every 53rd schedule
//! and every schedule showing a violation are executed again and must give the same observation).
//!
//! KE-server behaviour b (per schedule):
//!   K  every connection completes and hands out a fresh record 127.0.36.<k>:123 (k = connection
//!      number), so the source a spawn creates tells which key exchange it came from;
//!   R  "recovering": 1st connection is closed without answer, 2nd hands out
//!      unresolvable.invalid:123, from the 3rd on as K;
//!   D  KE server down: nothing listens on the configured port (connection refused);
//!   F  refusing: every connection is accepted and closed without answer;
//!   C  wrong certificate: the client does not trust the CA that signed the server's certificate;
//!   U  every key exchange completes and hands out unresolvable.invalid:123.
//! Schedule: n slots on a 500 ms grid beginning at `start` ms (0; for R, whose first source appears
//!   at 2 s, start = 2000 quick / 1500 thorough) shifted by `phase` ms, every slot one of
//!   {- none, I Idle, G Registered, D Removed(Demobilized), N Removed(NetworkIssue),
//!    U Removed(Unreachable)}; Removed applies to the source that is active at that instant (none
//!   active => nothing is sent), Registered hands back the parameters of the last created source.
//!   ALL 6^n placements for K and R. Under D, F, C, U no source can exist (one would be reported as
//!   `C36:nts-source-without-key-exchange`), so G/D/N/U slots send nothing and are identical to
//!   `-`: ALL 2^n placements of {-, I}.
//!   quick   : K n=4 phases {0,1}; R n=3 phases {0,1}; D,F,C,U n=5 phases {0,1,250}
//!   thorough: K n=5 phases {0,1,499}; R n=5 phases {0,1}; D,F,C,U n=7 phases {0,1,250,499}
//!   horizon = last slot + 2.5 s.
//! Observation: start and end of every `try_spawn` (the wrapper), every `SpawnEvent` (source
//!   created), every connection the KE server accepted, every event sent — in their true order
//!   (one thread) with their virtual instants.
//!
//! Oracle (from the statement):
//!   `C36:nts-spawn-too-early`     successive attempts start >= 1 s apart;
//!   `C36:nts-spawn-stalled`       while incomplete it keeps attempting at that pace: first attempt
//!                                 by 1 s (+1 ms timer granularity); after a failed attempt at e the
//!                                 next by e + 1 s + 1 ms; after a NetworkIssue/Unreachable removal
//!                                 sent at t by max(t, last attempt + 1 s) + 1 ms (deadlines beyond
//!                                 the horizon give no verdict);
//!   `C36:nts-demobilized-respawned`  no source is created after a Demobilized removal;
//!   `C36:nts-unreachable-no-fresh-key-exchange`  the first source after an Unreachable removal
//!                                 comes from a key exchange performed after that removal;
//!   `C36:nts-address-not-from-latest-key-exchange`  a created source polls the server the latest
//!                                 completed key exchange named;
//!   `C36:nts-spawned-while-source-active`  a single-server spawner owns at most one source;
//!   `C36:nts-source-without-key-exchange`  no source without a completed key exchange naming a
//!                                 resolvable server;
//!   `C36:nts-task-ended`          the task neither ends nor panics while the system keeps its channel.
use std::net::{IpAddr, Ipv4Addr, SocketAddr};
use std::sync::atomic::{AtomicBool, Ordering};
use std::sync::{Arc, Mutex};
use std::time::Duration;

use ntp_proto::{ClockId, ProtocolVersion, SourceConfig};
use tokio::sync::mpsc;
use tokio::time::Instant;

use super::c35_nts::ke::{self, Answer};
use super::common::{self, Ctx};
use crate::daemon::config::{NormalizedAddress, NtsKeAddress, NtsSourceConfig};
use crate::daemon::spawn::nts::{NtsSpawnError, NtsSpawner};
use crate::daemon::spawn::{
    spawner_task, SourceCreateParameters, SourceRemovalReason, SourceRemovedEvent, SpawnAction, SpawnEvent,
    Spawner, SpawnerId, SystemEvent,
};

const MS: u64 = 1000; // microseconds per millisecond; all observation times are in µs
const WAIT: u64 = 1000 * MS; // the statement's "network wait period (one second)"
const SLACK: u64 = MS; // 1 ms timer granularity
const GRID_MS: u64 = 500;

// ---------------------------------------------------------------------------------------------
// slot alphabet
// ---------------------------------------------------------------------------------------------
const K_NONE: usize = 0;
const K_IDLE: usize = 1;
const K_REG: usize = 2;
const K_RD: usize = 3;
const K_RN: usize = 4;
const K_RU: usize = 5;
const KNAMES: [char; 6] = ['-', 'I', 'G', 'D', 'N', 'U'];

fn reason_of(k: usize) -> SourceRemovalReason {
    match k {
        K_RD => SourceRemovalReason::Demobilized,
        K_RN => SourceRemovalReason::NetworkIssue,
        _ => SourceRemovalReason::Unreachable,
    }
}

fn slots_str(w: &[usize]) -> String {
    w.iter().map(|k| KNAMES[*k]).collect()
}

fn parse_slots(s: &str) -> Option<Vec<usize>> {
    s.chars().map(|c| KNAMES.iter().position(|n| *n == c)).collect()
}

// ---------------------------------------------------------------------------------------------
// KE behaviours
// ---------------------------------------------------------------------------------------------
#[derive(Clone, Copy, PartialEq, Eq, Debug, Hash)]
enum Beh {
    K,
    R,
    D,
    F,
    C,
    U,
}

const BEHS: [(char, Beh); 6] = [('K', Beh::K), ('R', Beh::R), ('D', Beh::D), ('F', Beh::F), ('C', Beh::C), ('U', Beh::U)];

fn beh_char(b: Beh) -> char {
    BEHS.iter().find(|x| x.1 == b).map(|x| x.0).unwrap_or('?')
}

impl Beh {
    /// can a source ever exist under this behaviour (statement level: a source needs a completed
    /// key exchange naming a resolvable server)
    fn can_succeed(self) -> bool {
        matches!(self, Beh::K | Beh::R)
    }
}

const UNRES: &str = "unresolvable.invalid";

/// The record connection number `k` (0-based, counted over the whole schedule) hands out under K
/// (and under R from the third connection on).
fn fresh_record(k: usize) -> (String, SocketAddr) {
    let last = (k % 200) as u8 + 1;
    (format!("127.0.36.{last}"), SocketAddr::new(IpAddr::V4(Ipv4Addr::new(127, 0, 36, last)), 123))
}

fn fresh_answers(from: usize, n: usize) -> Vec<Answer> {
    (from..from + n).map(|k| Answer::Hand(Some(fresh_record(k).0), Some(123))).collect()
}

fn script_of(b: Beh) -> (Vec<Answer>, Vec<Answer>) {
    match b {
        Beh::K | Beh::C => (fresh_answers(0, 64), vec![Answer::Refuse]),
        Beh::R => {
            let mut q = vec![Answer::Refuse, Answer::Hand(Some(UNRES.to_string()), Some(123))];
            q.extend(fresh_answers(2, 62));
            (q, vec![Answer::Refuse])
        }
        Beh::D | Beh::F => (vec![], vec![Answer::Refuse]),
        Beh::U => (vec![], vec![Answer::Hand(Some(UNRES.to_string()), Some(123))]),
    }
}

// ---------------------------------------------------------------------------------------------
// the watched spawner: forwards everything, brackets try_spawn
// ---------------------------------------------------------------------------------------------
struct Shared {
    in_attempt: AtomicBool,
    started: tokio::sync::Notify,
    t0: Mutex<Instant>,
    log: Mutex<Vec<(u64, Rec)>>,
}

impl Shared {
    fn now_us(&self) -> u64 {
        Instant::now().saturating_duration_since(*self.t0.lock().unwrap()).as_micros() as u64
    }
    fn push(&self, r: Rec) {
        self.log.lock().unwrap().push((ke::next_order(), r));
    }
}

struct Watched {
    inner: NtsSpawner,
    sh: Arc<Shared>,
}

impl Spawner for Watched {
    type Error = NtsSpawnError;

    async fn try_spawn(&mut self, action_tx: &mpsc::Sender<SpawnEvent>) -> Result<(), NtsSpawnError> {
        self.sh.in_attempt.store(true, Ordering::SeqCst);
        self.sh.started.notify_one();
        self.sh.push(Rec::Start(self.sh.now_us()));
        let r = self.inner.try_spawn(action_tx).await;
        // let the SpawnEvent (if any) reach the harness' receiver before the attempt is closed
        tokio::task::yield_now().await;
        self.sh.push(Rec::End(self.sh.now_us()));
        self.sh.in_attempt.store(false, Ordering::SeqCst);
        r
    }

    fn is_complete(&self) -> bool {
        self.inner.is_complete()
    }

    async fn handle_source_removed(&mut self, event: SourceRemovedEvent) -> Result<(), NtsSpawnError> {
        self.inner.handle_source_removed(event).await
    }

    async fn handle_registered(&mut self, event: SourceCreateParameters) -> Result<(), NtsSpawnError> {
        self.inner.handle_registered(event).await
    }

    fn get_id(&self) -> SpawnerId {
        self.inner.get_id()
    }

    fn get_addr_description(&self) -> String {
        self.inner.get_addr_description()
    }

    fn get_description(&self) -> &'static str {
        self.inner.get_description()
    }
}

// ---------------------------------------------------------------------------------------------
// rig: one paused runtime + KE server per worker thread
// ---------------------------------------------------------------------------------------------
struct Rig {
    rt: tokio::runtime::Runtime,
    ke: ke::KeServer,
    ke_t0: Instant,
    /// bound but never listening: connecting to it is refused ("KE server down")
    dead_port: u16,
    _dead: tokio::net::TcpSocket,
}

impl Rig {
    fn new() -> Rig {
        let rt = tokio::runtime::Builder::new_current_thread().enable_all().start_paused(true).build().expect("runtime");
        let (ke, ke_t0, dead, dead_port) = rt.block_on(async {
            let t0 = Instant::now();
            let ke = ke::KeServer::start(t0).await;
            let dead = tokio::net::TcpSocket::new_v4().expect("socket");
            dead.bind("127.0.0.1:0".parse().unwrap()).expect("bind");
            let port = dead.local_addr().expect("addr").port();
            (ke, t0, dead, port)
        });
        Rig { rt, ke, ke_t0, dead_port, _dead: dead }
    }
}

#[derive(Clone, Debug, PartialEq, Eq, Hash)]
enum Rec {
    /// `try_spawn` entered / left at t
    Start(u64),
    End(u64),
    /// source created: (t, address)
    Create(u64, SocketAddr),
    /// KE server accepted connection number k: (t, k, key exchange completed)
    Conn(u64, usize, bool),
    /// harness sent an event: (t, slot kind)
    Sent(u64, usize),
}

#[derive(Clone, Debug, PartialEq, Eq, Hash)]
struct Obs {
    log: Vec<Rec>,
    horizon: u64,
    task_finished: Option<String>,
}

struct Sys {
    active: Option<ClockId>,
    pending_reg: Option<SourceCreateParameters>,
}

async fn run(ke_srv: &ke::KeServer, ke_t0: Instant, dead_port: u16, beh: Beh, start_ms: u64, phase_ms: u64, slots: &[usize]) -> Obs {
    let phase_ms = start_ms + phase_ms;
    let grid_ms = GRID_MS;
    let (q, tail) = script_of(beh);
    ke_srv.set_script(q, tail);
    let port = if beh == Beh::D { dead_port } else { ke_srv.port };
    let spawner = NtsSpawner::new(
        NtsSourceConfig {
            address: NtsKeAddress(NormalizedAddress::new_from_parts("localhost", port)),
            enable_srv_resolution: false,
            certificate_authorities: if beh == Beh::C { Arc::default() } else { ke::test_ca() },
            ntp_version: ProtocolVersion::V4,
        },
        SourceConfig::default(),
    )
    .expect("NtsSpawner::new");
    let (action_tx, mut action_rx) = mpsc::channel::<SpawnEvent>(32);
    let (notify_tx, notify_rx) = mpsc::channel::<SystemEvent>(32);
    let t0 = Instant::now();
    let base_us = t0.duration_since(ke_t0).as_micros() as u64;
    let sh = Arc::new(Shared {
        in_attempt: AtomicBool::new(false),
        started: tokio::sync::Notify::new(),
        t0: Mutex::new(t0),
        log: Mutex::new(Vec::new()),
    });
    let sys = Arc::new(Mutex::new(Sys { active: None, pending_reg: None }));
    let sys2 = sys.clone();
    let sh2 = sh.clone();
    let task = tokio::spawn(spawner_task(Watched { inner: spawner, sh: sh.clone() }, action_tx, notify_rx));
    let receiver = tokio::spawn(async move {
        while let Some(ev) = action_rx.recv().await {
            let SpawnAction::Create(params) = ev.action;
            let addr = match &params {
                SourceCreateParameters::Ntp(p) => p.addr,
                _ => SocketAddr::new(IpAddr::V4(Ipv4Addr::UNSPECIFIED), 0),
            };
            sh2.push(Rec::Create(sh2.now_us(), addr));
            let mut s = sys2.lock().unwrap();
            s.active = Some(params.get_id());
            s.pending_reg = Some(params);
        }
    });
    let last = phase_ms + grid_ms * (slots.len().max(1) as u64 - 1);
    let horizon_ms = last + 2500;
    // instants at which the driver acts: every slot, then the horizon
    let mut k = 0usize;
    loop {
        // an attempt is running: keep the runtime busy so that the paused clock cannot move
        while sh.in_attempt.load(Ordering::SeqCst) && !task.is_finished() {
            tokio::task::yield_now().await;
        }
        let at_ms = if k < slots.len() { phase_ms + grid_ms * k as u64 } else { horizon_ms };
        tokio::select! {
            biased;
            _ = sh.started.notified() => continue,
            _ = tokio::time::sleep_until(t0 + Duration::from_millis(at_ms)) => {}
        }
        if sh.in_attempt.load(Ordering::SeqCst) && !task.is_finished() {
            // an attempt began at this very instant: let it finish first (zero virtual time)
            continue;
        }
        if k >= slots.len() {
            break;
        }
        let now = sh.now_us();
        let ev = {
            let mut s = sys.lock().unwrap();
            match slots[k] {
                K_NONE => None,
                K_IDLE => {
                    sh.push(Rec::Sent(now, K_IDLE));
                    Some(SystemEvent::Idle)
                }
                K_REG => s.pending_reg.take().map(|p| {
                    sh.push(Rec::Sent(now, K_REG));
                    SystemEvent::SourceRegistered(p)
                }),
                kind => s.active.take().map(|id| {
                    s.pending_reg = None;
                    sh.push(Rec::Sent(now, kind));
                    SystemEvent::source_removed(id, reason_of(kind))
                }),
            }
        };
        if let Some(ev) = ev {
            let _ = notify_tx.send(ev).await;
        }
        k += 1;
    }
    let task_finished = if task.is_finished() {
        Some(match task.await {
            Ok(Ok(())) => "returned Ok".to_string(),
            Ok(Err(e)) => format!("returned Err({e})"),
            Err(e) => format!("join error: {e}"),
        })
    } else {
        task.abort();
        let _ = task.await;
        None
    };
    drop(notify_tx);
    receiver.abort();
    let _ = receiver.await;
    // the spawner (and its socket, had an attempt been in flight) is gone: let the KE server task
    // see the end of its connection before its log is taken
    for _ in 0..2 {
        tokio::time::sleep(Duration::from_millis(1)).await;
    }
    let mut log: Vec<(u64, Rec)> = std::mem::take(&mut *sh.log.lock().unwrap());
    for (k, c) in ke_srv.take_log().into_iter().enumerate() {
        log.push((c.order, Rec::Conn(c.at_us.saturating_sub(base_us), k, c.result.is_ok())));
    }
    log.sort_by_key(|r| r.0);
    Obs { log: log.into_iter().map(|r| r.1).collect(), horizon: horizon_ms * MS, task_finished }
}

// ---------------------------------------------------------------------------------------------
// oracle
// ---------------------------------------------------------------------------------------------
#[derive(Default, Clone)]
struct Facts {
    attempts: u64,
    creates: u64,
    fails: u64,
    conns: u64,
    conns_completed: u64,
    demobilized: bool,
    respawn_after_unreachable: u64,
    respawn_after_network_issue: u64,
    removals_sent: u64,
    registered_sent: u64,
    idle_sent: u64,
    deadlines_beyond_horizon: u64,
    attempts_with_virtual_duration: u64,
    attempts_without_connection: u64,
    events_during_attempt: u64,
}

fn judge(beh: Beh, o: &Obs) -> (Vec<(&'static str, String)>, Facts) {
    let mut v: Vec<(&'static str, String)> = Vec::new();
    let mut f = Facts::default();
    if let Some(t) = &o.task_finished {
        v.push(("C36:nts-task-ended", format!("spawner_task ended while the system channel was open: {t}")));
    }
    let mut last_start: Option<u64> = None;
    let mut last_end: Option<u64> = None;
    // inside an attempt: (start, sources created in it, connections accepted in it)
    let mut cur: Option<(u64, u64, u64)> = None;
    let mut demob_at: Option<u64> = None;
    let mut active = false;
    // (deadline, what it is counted from, its instant)
    let mut awaiting: Option<(u64, &'static str, u64)> = Some((WAIT + SLACK, "start", 0));
    // removal that the next create has to answer: (kind, instant)
    let mut after_removal: Option<(usize, u64)> = None;
    // latest completed key exchange: (instant, connection number)
    let mut last_ke: Option<(u64, usize)> = None;
    for r in &o.log {
        match r {
            Rec::Start(t) => {
                f.attempts += 1;
                if let Some(l) = last_start {
                    if *t < l + WAIT {
                        v.push(("C36:nts-spawn-too-early", format!("spawn attempts started at {l} us and {t} us, less than 1 s apart")));
                    }
                }
                if let Some((dl, what, ts)) = awaiting.take() {
                    if *t > dl {
                        v.push(("C36:nts-spawn-stalled", format!("attempt due by {dl} us ({what} at {ts} us) started at {t} us")));
                    }
                }
                last_start = Some(*t);
                cur = Some((*t, 0, 0));
            }
            Rec::End(t) => {
                if let Some((st, created, conns)) = cur.take() {
                    if *t != st {
                        f.attempts_with_virtual_duration += 1;
                    }
                    if conns == 0 {
                        f.attempts_without_connection += 1;
                    }
                    if created == 0 {
                        f.fails += 1;
                        if !active && demob_at.is_none() {
                            awaiting = Some((*t + WAIT + SLACK, "failed attempt ending", *t));
                        }
                    }
                }
                last_end = Some(*t);
            }
            Rec::Conn(t, k, ok) => {
                f.conns += 1;
                if let Some(c) = cur.as_mut() {
                    c.2 += 1;
                }
                if *ok {
                    f.conns_completed += 1;
                    last_ke = Some((*t, *k));
                }
            }
            Rec::Create(t, addr) => {
                f.creates += 1;
                if let Some(c) = cur.as_mut() {
                    c.1 += 1;
                }
                if let Some(d) = demob_at {
                    v.push(("C36:nts-demobilized-respawned", format!("source demobilised at {d} us, yet a new source was created at {t} us")));
                }
                if active {
                    v.push(("C36:nts-spawned-while-source-active", format!("a second source was created at {t} us while the previous one is still active")));
                }
                match last_ke {
                    None => v.push(("C36:nts-source-without-key-exchange", format!("source for {addr} created at {t} us although no key exchange has completed"))),
                    Some((kt, k)) => {
                        let want: Option<SocketAddr> = match beh {
                            Beh::K | Beh::C => Some(fresh_record(k).1),
                            Beh::R if k >= 2 => Some(fresh_record(k).1),
                            _ => None,
                        };
                        match want {
                            None => v.push(("C36:nts-source-without-key-exchange", format!("source for {addr} created at {t} us; the latest key exchange (connection {k}) named an unresolvable server"))),
                            Some(w) if w != *addr => v.push(("C36:nts-address-not-from-latest-key-exchange", format!("source created at {t} us polls {addr}; the latest key exchange (connection {k} at {kt} us) named {w}"))),
                            _ => {}
                        }
                        if let Some((kind, ts)) = after_removal {
                            if kind == K_RU {
                                f.respawn_after_unreachable += 1;
                                if kt < ts {
                                    v.push(("C36:nts-unreachable-no-fresh-key-exchange", format!("source removed as unreachable at {ts} us; the source created at {t} us stems from the key exchange of {kt} us")));
                                }
                            } else if kind == K_RN {
                                f.respawn_after_network_issue += 1;
                            }
                        }
                    }
                }
                after_removal = None;
                active = true;
            }
            Rec::Sent(t, kind) => {
                if cur.is_some() {
                    f.events_during_attempt += 1;
                }
                match *kind {
                    K_RD => {
                        f.removals_sent += 1;
                        f.demobilized = true;
                        demob_at = Some(*t);
                        active = false;
                        awaiting = None;
                        after_removal = Some((K_RD, *t));
                    }
                    K_RN | K_RU => {
                        f.removals_sent += 1;
                        active = false;
                        if demob_at.is_none() {
                            let dl = (*t).max(last_end.map(|l| l + WAIT).unwrap_or(0)) + SLACK;
                            awaiting = Some((dl, "removal", *t));
                        }
                        after_removal = Some((*kind, *t));
                    }
                    K_REG => f.registered_sent += 1,
                    K_IDLE => f.idle_sent += 1,
                    _ => {}
                }
            }
        }
    }
    if let Some((dl, what, ts)) = awaiting {
        if dl < o.horizon {
            v.push(("C36:nts-spawn-stalled", format!("attempt due by {dl} us ({what} at {ts} us) never started before the horizon {} us", o.horizon)));
        } else {
            f.deadlines_beyond_horizon += 1;
        }
    }
    if !beh.can_succeed() && f.creates > 0 && !v.iter().any(|x| x.0 == "C36:nts-source-without-key-exchange") {
        v.push(("C36:nts-source-without-key-exchange", format!("{} sources created under KE behaviour {beh:?}", f.creates)));
    }
    (v, f)
}

fn trace_of(beh: Beh, start: u64, phase: u64, slots: &[usize]) -> String {
    format!("nts;beh={};start={start};phase={phase};slots={}", beh_char(beh), slots_str(slots))
}

fn obs_str(o: &Obs) -> String {
    let log: Vec<String> = o
        .log
        .iter()
        .map(|r| match r {
            Rec::Start(t) => format!("try_spawn@{t}"),
            Rec::End(t) => format!("done@{t}"),
            Rec::Create(t, a) => format!("create({a})@{t}"),
            Rec::Conn(t, k, ok) => format!("conn#{k}{}@{t}", if *ok { "" } else { "!" }),
            Rec::Sent(t, k) => format!("sent[{}]@{t}", KNAMES[*k]),
        })
        .collect();
    format!("[{}]{}", log.join(" "), o.task_finished.as_ref().map(|t| format!(" TASK ENDED: {t}")).unwrap_or_default())
}

fn run_on(rig: &mut Rig, beh: Beh, start: u64, phase: u64, slots: &[usize]) -> Obs {
    let Rig { rt, ke, ke_t0, dead_port, .. } = rig;
    rt.block_on(run(ke, *ke_t0, *dead_port, beh, start, phase, slots))
}

fn kv<'a>(parts: &'a [&'a str], key: &str) -> Option<&'a str> {
    parts.iter().find_map(|p| p.strip_prefix(key)?.strip_prefix('='))
}

fn replay(ctx: &Ctx, trace: &str) -> String {
    let parts: Vec<&str> = trace.trim().split(';').collect();
    let slots = kv(&parts, "slots").and_then(parse_slots);
    let phase: Option<u64> = kv(&parts, "phase").and_then(|s| s.parse().ok());
    let beh = kv(&parts, "beh").and_then(|s| BEHS.iter().find(|b| Some(b.0) == s.chars().next()).map(|b| b.1));
    let (Some(slots), Some(phase), Some(beh)) = (slots, phase, beh) else {
        return format!("unparsable trace {trace:?}");
    };
    let start: u64 = kv(&parts, "start").and_then(|s| s.parse().ok()).unwrap_or(0);
    let mut rig = Rig::new();
    let o = run_on(&mut rig, beh, start, phase, &slots);
    let (vs, _) = judge(beh, &o);
    for (c, w) in &vs {
        ctx.violation(c, w.clone(), trace);
    }
    format!("{}; verdicts={:?}", obs_str(&o), vs)
}

struct Block {
    beh: Beh,
    n: usize,
    /// the first slot is at `start + phase` ms, the others follow every GRID_MS
    start: u64,
    phase: u64,
    /// slot kinds used (all 6, or {-, I})
    kinds: Vec<usize>,
}

impl Block {
    fn size(&self) -> u64 {
        common::pow(self.kinds.len(), self.n)
    }
}

fn blocks(quick: bool) -> Vec<Block> {
    let all: Vec<usize> = (0..6).collect();
    let two = vec![K_NONE, K_IDLE];
    let mut v = Vec::new();
    let (kn, kph, rn, rph, fnn, fph): (usize, &[u64], usize, &[u64], usize, &[u64]) =
        if quick { (4, &[0, 1], 3, &[0, 1], 5, &[0, 1, 250]) } else { (5, &[0, 1, 499], 5, &[0, 1], 7, &[0, 1, 250, 499]) };
    for p in kph {
        v.push(Block { beh: Beh::K, n: kn, start: 0, phase: *p, kinds: all.clone() });
    }
    // under R the first source appears at 2 s: the slots start there (thorough: one slot earlier)
    for p in rph {
        v.push(Block { beh: Beh::R, n: rn, start: if quick { 2000 } else { 1500 }, phase: *p, kinds: all.clone() });
    }
    for b in [Beh::D, Beh::F, Beh::C, Beh::U] {
        for p in fph {
            v.push(Block { beh: b, n: fnn, start: 0, phase: *p, kinds: two.clone() });
        }
    }
    v
}

#[derive(Default)]
struct Acc {
    schedules: u64,
    attempts: u64,
    creates: u64,
    fails: u64,
    conns: u64,
    conns_completed: u64,
    runs_with_demob: u64,
    respawn_u: u64,
    respawn_n: u64,
    removals: u64,
    registered: u64,
    idle: u64,
    beyond: u64,
    runs_by_attempts: [u64; 8],
    reruns: u64,
    rerun_diffs: u64,
    not_reproduced: u64,
    steps: u64,
    hashes: Vec<u64>,
    virtual_duration: u64,
    no_conn: u64,
    during: u64,
    per_beh_attempts: std::collections::BTreeMap<char, u64>,
}

#[test]
fn check() {
    let ctx = Ctx::new("C36");
    if let Some(t) = common::replay_trace() {
        let a = replay(&ctx, &t);
        let b = replay(&ctx, &t);
        common::report_replay("C36", &a, &b, ctx.violation_count() > 0);
        return;
    }
    let quick = ctx.quick();
    ctx.rule(
        "NTS part of C36: the real spawner_task driving the real NtsSpawner (enable_srv_resolution=false) under a paused tokio clock against a \
         real local NTS-KE server (loopback TCP + TLS 1.3) with behaviour b in {K hands out a fresh record per connection, R refuses, then names an \
         unresolvable server, then as K, D down (connection refused), F closes every connection, C certificate not trusted by the client, U names an \
         unresolvable server}; system events {-, Idle, Registered, Removed(Demobilized|NetworkIssue|Unreachable)} in n slots on a 500 ms grid + phase; \
         ALL 6^n placements for K (quick n=4 phases 0,1; thorough n=5 phases 0,1,499) and R (slots from 2 s / 1.5 s on; quick n=3, thorough n=5, phases 0,1), ALL 2^n placements of {-, Idle} for \
         D,F,C,U (no source can exist, the other kinds send nothing; quick n=5 phases 0,1,250; thorough n=7 phases 0,1,250,499); horizon last slot + 2.5 s. \
         Distinct & non-trivial = a distinct observation (instants of connections, attempt outcomes, events sent).",
    );
    ctx.assume("paused tokio clock with auto-advance between attempts; during try_spawn the clock is held (driver task spins), so socket and resolver latency never shows up as virtual time: an attempt takes zero virtual time (counter attempts_taking_virtual_time must be 0)");
    ctx.assume("the NtsSpawner is handed to spawner_task inside a wrapper that forwards every Spawner method unchanged and only records entry/exit of try_spawn");
    ctx.assume("the system reports a removal only for the source it created from this spawner's latest SpawnEvent, once; Registered hands back the parameters of the last created source");
    ctx.assume("NOT exercised: enable_srv_resolution=true (needs a DNS server for SRV lookups), a KE server that neither answers nor closes (NTS_TIMEOUT), real-time behaviour, a full action channel");

    let bl = blocks(quick);
    let mut offsets = Vec::new();
    let mut total = 0u64;
    for b in &bl {
        offsets.push(total);
        total += b.size();
    }
    ctx.set("schedules_planned", total);
    let acc = Mutex::new(Acc::default());
    common::par_for_with(
        total,
        8,
        || None::<Rig>,
        |rig, i| {
            let rig = rig.get_or_insert_with(Rig::new);
            let bi = offsets.iter().rposition(|o| *o <= i).unwrap();
            let b = &bl[bi];
            let w = common::word_of(i - offsets[bi], b.kinds.len(), b.n);
            let slots: Vec<usize> = w.iter().map(|x| b.kinds[*x]).collect();
            let o = run_on(rig, b.beh, b.start, b.phase, &slots);
            let (mut vs, f) = judge(b.beh, &o);
            let mut reruns = 0;
            let mut diffs = 0;
            let mut not_reproduced = 0;
            if !vs.is_empty() || i % 53 == 0 {
                // violations must reproduce (see header); every 53rd schedule is re-run as a
                // determinism check
                let tries = if vs.is_empty() { 1 } else { 2 };
                let mut same = true;
                for _ in 0..tries {
                    let o2 = run_on(rig, b.beh, b.start, b.phase, &slots);
                    reruns += 1;
                    if o2 != o {
                        same = false;
                        diffs += 1;
                    }
                }
                if !same && !vs.is_empty() {
                    not_reproduced = 1;
                    vs.clear();
                } else if !same {
                    ctx.violation(
                        "C36:harness-nondeterminism",
                        format!("two executions of one schedule differ: {}", obs_str(&o)),
                        trace_of(b.beh, b.start, b.phase, &slots),
                    );
                }
            }
            let tr = trace_of(b.beh, b.start, b.phase, &slots);
            for (c, what) in &vs {
                ctx.violation(c, what.clone(), tr.clone());
            }
            if (i % 397 == 5 || (b.beh != Beh::K && i % 41 == 3)) && f.attempts >= 2 {
                ctx.sample(format!("{tr} -> {}", obs_str(&o)));
            }
            let mut a = acc.lock().unwrap();
            a.schedules += 1;
            a.attempts += f.attempts;
            a.creates += f.creates;
            a.fails += f.fails;
            a.conns += f.conns;
            a.conns_completed += f.conns_completed;
            a.runs_with_demob += f.demobilized as u64;
            a.respawn_u += f.respawn_after_unreachable;
            a.respawn_n += f.respawn_after_network_issue;
            a.removals += f.removals_sent;
            a.registered += f.registered_sent;
            a.idle += f.idle_sent;
            a.beyond += f.deadlines_beyond_horizon;
            a.runs_by_attempts[(f.attempts as usize).min(7)] += 1;
            a.reruns += reruns;
            a.rerun_diffs += diffs;
            a.not_reproduced += not_reproduced;
            a.steps += o.log.len() as u64;
            a.hashes.push(common::hash_of(&(beh_char(b.beh), &o)));
            a.virtual_duration += f.attempts_with_virtual_duration;
            a.no_conn += f.attempts_without_connection;
            a.during += f.events_during_attempt;
            *a.per_beh_attempts.entry(beh_char(b.beh)).or_insert(0) += f.attempts;
        },
    );
    let a = acc.into_inner().unwrap();
    ctx.set("evaluations", a.schedules);
    ctx.set("states", a.steps);
    ctx.set("transitions", a.steps);
    ctx.set("attempts", a.attempts);
    ctx.set("sources_created", a.creates);
    ctx.set("failed_attempts", a.fails);
    ctx.set("ke_connections", a.conns);
    ctx.set("ke_exchanges_completed", a.conns_completed);
    ctx.set("runs_with_demobilisation", a.runs_with_demob);
    ctx.set("respawns_after_unreachable", a.respawn_u);
    ctx.set("respawns_after_network_issue", a.respawn_n);
    ctx.set("removals_sent", a.removals);
    ctx.set("registered_sent", a.registered);
    ctx.set("idle_sent", a.idle);
    ctx.set("deadlines_beyond_horizon_no_verdict", a.beyond);
    for (k, n) in a.runs_by_attempts.iter().enumerate() {
        if *n > 0 {
            ctx.set(&format!("runs_with_{k}{}_attempts", if k == 7 { "_or_more" } else { "" }), *n);
        }
    }
    for (b, n) in &a.per_beh_attempts {
        ctx.set(&format!("attempts_under_behaviour_{b}"), *n);
    }
    ctx.set("determinism_reruns", a.reruns);
    ctx.set("rerun_differences", a.rerun_diffs);
    ctx.set("violations_not_reproduced", a.not_reproduced);
    ctx.set("attempts_taking_virtual_time", a.virtual_duration);
    ctx.set("attempts_without_ke_connection", a.no_conn);
    ctx.set("events_sent_during_an_attempt", a.during);
    ctx.distinct_many(a.hashes);
    if a.not_reproduced > 0 {
        ctx.cap_hit(&format!("{} schedules showed a violation that did not reproduce; they give no verdict", a.not_reproduced));
    }
    ctx.exhaustive(a.schedules == total && a.not_reproduced == 0);
    ctx.finish();
}
