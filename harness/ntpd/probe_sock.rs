#[cfg(any(not(verif_select), verif_gm))] #[path = "/verif/harness/ntpd/gm_probe_sock.rs"] pub(crate) mod gm;
