//! Group gl probe (child of `ntpd::daemon::spawn::pool::verif_probe`): read-only view and
//! field-by-field copy of a `PoolSpawner` (it is not `Clone`), used by the C35 explicit-state search
//! to branch from a state. The copy shares the DNS stub of the original (same `Arc`), has the same
//! spawner id, the same `current_sources` (ids and addresses, same order) and the same `known_ips`
//! (same order).
use std::net::SocketAddr;

use ntp_proto::ClockId;

use super::super::{PoolSource, PoolSpawner};

/// (current sources in order, known ips in order) exactly as stored.
pub(crate) fn view(p: &PoolSpawner) -> (Vec<(ClockId, SocketAddr)>, Vec<SocketAddr>) {
    (
        p.current_sources.iter().map(|s| (s.id, s.addr)).collect(),
        p.known_ips.clone(),
    )
}

pub(crate) fn fork(p: &PoolSpawner) -> PoolSpawner {
    PoolSpawner {
        config: p.config.clone(),
        source_config: p.source_config,
        id: p.id,
        current_sources: p
            .current_sources
            .iter()
            .map(|s| PoolSource {
                id: s.id,
                addr: s.addr,
            })
            .collect(),
        known_ips: p.known_ips.clone(),
    }
}
