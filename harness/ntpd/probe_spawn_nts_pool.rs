#[cfg(any(not(verif_select), verif_gr))] #[path = "/verif/harness/ntpd/gr_probe_spawn_nts_pool.rs"] pub(crate) mod gr;
