#[cfg(any(not(verif_select), verif_gl))] #[path = "/verif/harness/ntpd/gl_probe_config.rs"] pub(crate) mod gl;
pub(crate) use super::ntp_source::verif_probe as ntp_source_probe; // config::ntp_source is private: crate::daemon::config::verif_probe::ntp_source_probe
