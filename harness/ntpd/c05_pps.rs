//! C05 (ntpd part, PPS) — a one-way source reports offset = remote time minus local time.
//!
//! (Two-way formulas and the one-way wrapper: ntp_proto/c05.rs, group gb. GPSd socket source:
//! ntpd/c05.rs, group gm. This file covers what gm declared "not covered": the PPS source.)
//!
//! What runs: the REAL `PpsSourceTask::run` loop (`ntpd/src/daemon/pps_source.rs`). Its
//! `Measurement` construction is inline in that loop, so the loop itself is driven: the probe
//! `gr_probe_pps.rs` builds the (private) task value exactly as `PpsSourceTask::spawn` does, only
//! the receiving end of the fetch channel is fed by the harness with scripted `pps_fdata` events
//! (what `PpsDevice::fetch_blocking` returns) instead of by the blocking device thread. The
//! `OneWaySource` wraps a recording `SourceController`, so the harness sees exactly the
//! `Measurement` the clock filter would be given.
//!
//! Statement -> oracle. A PPS pulse marks the start of a second of the reference ("remote") time
//! scale; the kernel stamps it with the local clock (`assert_tu` = sec + nsec, Unix time). So
//!   local time  L = the pulse timestamp, as an NTP timestamp: seconds (sec + 2 208 988 800) mod
//!                   2^32, fraction nsec * 2^32 / 10^9 (either rounding; the exact value is rarely
//!                   an integer);
//!   remote time R = a whole second (fraction exactly 0) adjacent to L (floor or ceiling; which of
//!                   the two is a modulo-one-period convention that the filter resolves with the
//!                   configured period, so both are accepted; for nsec == 0 only L itself);
//!   reported    `sender_ts - receiver_ts` (remote - local, what `OneWaySourceControllerWrapper`
//!                   feeds the filter; that wrapper is checked by ntp_proto/c05.rs) must be
//!                   congruent to -frac(L) modulo one second, within one 2^-32 s unit, and lie
//!                   strictly between -1 s and +1 s.
//! All reference values are computed in u128/i128 from (sec, nsec); timestamps are built and
//! compared exactly from raw bits through public arithmetic only (no float, no `to_seconds`).
//!
//! Enumerated (E-IN over a memoryless task; fed as ONE long event sequence per worker, then the
//! same cases in reverse order through a fresh task — every case must give the identical
//! measurement, which shows the task keeps no history):
//!   boundary block: sec in 21 values (0, 1, now-ish, both sides of the NTP era 0/1 edge in 2036
//!     and of the era 1/2 edge, 2^32 +- 1, the Unix-time values of 1900 +- 1 s (negative),
//!     -1, i64::MAX, i64::MIN, ...) x nsec in 17 values (0, 1 ns, 2 ns, 232/233 ps-unit edges,
//!     0.25, 0.499 999 999, 0.5, 0.500 000 001, 0.999 999 998, 0.999 999 999 s, ...) x
//!     assert_sequence in {0, 1, 0x7fffffff, 0x80000000, 0xffffffff} x 3 fillings of every field
//!     the statement does not mention (clear edge timestamp/sequence, mode, flags, timeout);
//!   nanosecond sweep: nsec = k*step + (k mod 7) over [0, 10^9) (quick step 50 021, thorough
//!     2 003) x 4 sec values (now-ish, last second of era 0, first of era 1, negative);
//!   out of domain (kernel never produces them; statement silent): nsec in {-1, 10^9, i32::MAX,
//!     i32::MIN} — only "the task survives and still measures the next pulse" is required.
use std::collections::HashMap;
use std::path::PathBuf;
use std::sync::{Arc, RwLock};

use ntp_proto::{
    ClockId, Measurement, NtpDuration, NtpLeapIndicator, NtpTimestamp, ObservableSourceTimedata,
    OneWaySource, PollInterval, SourceController,
};
use tokio::sync::mpsc;

use super::common::{self, Ctx};
use crate::daemon::ntp_source::SourceChannels;
use crate::daemon::pps_source::verif_probe::gr as probe;

// --- exact construction / reading of fixed-point values (public arithmetic only) -----------

fn mk_ts(v: u64) -> NtpTimestamp {
    let mut t = NtpTimestamp::default();
    for b in 0..63u32 {
        if (v >> b) & 1 == 1 {
            t += NtpDuration::from_exponent(b as i8 - 32);
        }
    }
    if v >> 63 == 1 {
        t += NtpDuration::from_exponent(30);
        t += NtpDuration::from_exponent(30);
    }
    t
}

fn mk_dur(v: i64) -> NtpDuration {
    mk_ts(v as u64) - NtpTimestamp::default()
}

/// Raw units of a duration, by binary search with exact comparisons (only used for reports).
fn units_of(d: NtpDuration) -> i64 {
    let (mut lo, mut hi) = (i64::MIN as i128, i64::MAX as i128);
    while lo < hi {
        let mid = (lo + hi + 1).div_euclid(2);
        if mk_dur(mid as i64) <= d { lo = mid } else { hi = mid - 1 }
    }
    lo as i64
}

/// Raw bits of a timestamp (only used for reports).
fn bits_of(t: NtpTimestamp) -> u64 {
    units_of(t - NtpTimestamp::default()) as u64
}

fn self_test() -> Result<(), String> {
    for v in [0i64, 1, -1, 1 << 32, -(1 << 32), i64::MAX, i64::MIN, 0x0123_4567_89ab_cdef] {
        if units_of(mk_dur(v)) != v {
            return Err(format!("units_of(mk_dur({v})) = {}", units_of(mk_dur(v))));
        }
    }
    if mk_dur(i64::MAX) != NtpDuration::MAX || mk_dur(0) != NtpDuration::ZERO {
        return Err("mk_dur constants".into());
    }
    if mk_ts((17u64 << 32) + (1 << 31)) != NtpTimestamp::from_seconds_nanos_since_ntp_era(17, 500_000_000) {
        return Err("mk_ts vs a half second".into());
    }
    // reference self test: 1970-01-01 is second 2 208 988 800 of NTP era 0; 2036-02-07T06:28:16Z
    // (Unix 2 085 978 496) is second 0 of era 1
    let r = reference(0, 0);
    if r.local_lo != 2_208_988_800u64 << 32 || r.whole_lo != r.local_lo {
        return Err("reference(0,0)".into());
    }
    let r = reference(2_085_978_496, 500_000_000);
    if r.local_lo != 1 << 31 || !r.exact || r.whole_lo != 0 || r.whole_hi != 1 << 32 {
        return Err("reference(era 1 start, .5)".into());
    }
    let r = reference(-2_208_988_801, 999_999_999);
    if r.local_lo >> 32 != 0xffff_ffff || r.exact || r.whole_hi != 0 {
        return Err("reference(1899-12-31T23:59:59.999999999)".into());
    }
    Ok(())
}

// --- the statement-level reference ---------------------------------------------------------------

struct Reference {
    /// floor / ceiling of the local pulse timestamp in NTP bits (equal when `exact`)
    local_lo: u64,
    local_hi: u64,
    exact: bool,
    /// the whole seconds at / after the pulse, NTP bits
    whole_lo: u64,
    whole_hi: u64,
    /// floor(nsec * 2^32 / 1e9)
    frac_lo: u64,
}

fn reference(sec: i64, nsec: i32) -> Reference {
    let secs_field = (sec as i128 + 2_208_988_800i128).rem_euclid(1i128 << 32) as u64;
    let num = (nsec as u128) << 32;
    let frac_lo = (num / 1_000_000_000) as u64;
    let exact = num % 1_000_000_000 == 0;
    let local_lo = (secs_field << 32).wrapping_add(frac_lo);
    let local_hi = if exact { local_lo } else { local_lo.wrapping_add(1) };
    let whole_lo = secs_field << 32;
    let whole_hi = whole_lo.wrapping_add(1 << 32);
    Reference { local_lo, local_hi, exact, whole_lo, whole_hi, frac_lo }
}

// --- alphabets ----------------------------------------------------------------------------------

const SECS: [i64; 21] = [
    0,
    1,
    1_700_000_000,
    1_790_000_000,
    2_085_978_494,
    2_085_978_495, // last second of NTP era 0
    2_085_978_496, // first second of NTP era 1 (2036-02-07T06:28:16Z)
    2_085_978_497,
    2_147_483_647, // i32::MAX (2038)
    2_147_483_648,
    4_294_967_295,
    4_294_967_296,
    6_380_945_791, // last second of era 1
    6_380_945_792, // first second of era 2
    -1,
    -2_208_988_799,
    -2_208_988_800, // 1900-01-01T00:00:00Z = NTP era 0 second 0
    -2_208_988_801, // last second of era -1
    i64::MAX,
    i64::MIN,
    i64::MIN + 1,
];

const NSECS: [i32; 17] = [
    0,
    1,
    2,
    232,
    233,
    1_000,
    250_000_000,
    333_333_333,
    499_999_999,
    500_000_000,
    500_000_001,
    750_000_000,
    976_562_500, // exact: 1e9 * 2^-10 * 1000
    999_999_000,
    999_999_767,
    999_999_998,
    999_999_999,
];

const SEQS: [u32; 5] = [0, 1, 0x7fff_ffff, 0x8000_0000, 0xffff_ffff];
const FILLS: u8 = 3;
const SWEEP_SECS: [i64; 4] = [1_790_000_000, 2_085_978_495, 2_085_978_496, -1_000_000_000];
const OUT_OF_DOMAIN_NSECS: [i32; 4] = [-1, 1_000_000_000, i32::MAX, i32::MIN];

#[derive(Clone, Copy, Debug, PartialEq, Eq, Hash)]
struct Case {
    sec: i64,
    nsec: i32,
    seq: u32,
    fill: u8,
}

fn case_str(c: &Case) -> String {
    format!("pps-task:{}:{}:{}:{}", c.sec, c.nsec, c.seq, c.fill)
}

fn parse_case(t: &str) -> Option<Case> {
    let p: Vec<&str> = t.trim().split(':').collect();
    match p.as_slice() {
        ["pps-task", sec, nsec, seq, fill] => Some(Case {
            sec: sec.parse().ok()?,
            nsec: nsec.parse().ok()?,
            seq: seq.parse().ok()?,
            fill: fill.parse().ok()?,
        }),
        _ => None,
    }
}

fn fetch_data(c: &Case) -> probe::FetchData {
    use pps_time::pps::pps_ktime;
    let mut d = probe::FetchData::default();
    d.info.assert_sequence = c.seq;
    d.info.assert_tu = pps_ktime { sec: c.sec, nsec: c.nsec, flags: 0 };
    match c.fill {
        0 => {}
        1 => {
            d.info.clear_sequence = c.seq ^ 0xffff;
            d.info.clear_tu = pps_ktime { sec: c.sec.wrapping_add(7), nsec: 123_456_789, flags: 0 };
            d.info.current_mode = 0x11;
            d.timeout = pps_ktime { sec: 3, nsec: 0, flags: 1 };
        }
        _ => {
            d.info.clear_sequence = c.seq.wrapping_add(1);
            d.info.clear_tu = pps_ktime { sec: c.sec.wrapping_sub(1), nsec: 999_999_999, flags: 1 };
            d.info.assert_tu.flags = 1;
            d.info.current_mode = -1;
            d.timeout = pps_ktime { sec: i64::MAX, nsec: i32::MAX, flags: u32::MAX };
        }
    }
    d
}

fn sweep_nsecs(step: u32) -> Vec<i32> {
    let mut v = Vec::new();
    let mut k = 0u64;
    loop {
        let n = k * step as u64 + (k % 7);
        if n >= 1_000_000_000 {
            break;
        }
        v.push(n as i32);
        k += 1;
    }
    v
}

fn all_cases(quick: bool) -> Vec<Case> {
    let mut v = Vec::new();
    for sec in SECS {
        for nsec in NSECS {
            for seq in SEQS {
                for fill in 0..FILLS {
                    v.push(Case { sec, nsec, seq, fill });
                }
            }
        }
    }
    let step = if quick { 50_021 } else { 2_003 };
    for (k, nsec) in sweep_nsecs(step).into_iter().enumerate() {
        for sec in SWEEP_SECS {
            v.push(Case { sec, nsec, seq: k as u32, fill: (k % FILLS as usize) as u8 });
        }
    }
    v
}

// --- the rig: one real PpsSourceTask loop ------------------------------------------------------

struct Recorder {
    tx: mpsc::UnboundedSender<Measurement>,
}

impl SourceController for Recorder {
    fn handle_measurement(&mut self, measurement: Measurement) {
        self.tx.send(measurement).ok();
    }
    fn set_usable(&mut self, _usable: bool) {}
    fn desired_poll_interval(&self) -> PollInterval {
        PollInterval::from_byte(4)
    }
    fn observe(&self) -> ObservableSourceTimedata {
        ObservableSourceTimedata::default()
    }
}

struct Rig {
    rt: tokio::runtime::Runtime,
    tx: mpsc::Sender<probe::FetchData>,
    rx: mpsc::UnboundedReceiver<Measurement>,
    handle: tokio::task::JoinHandle<()>,
    index: ClockId,
    snapshots: Arc<RwLock<HashMap<ClockId, ntp_proto::ObservableSourceState>>>,
}

impl Rig {
    fn new() -> Rig {
        let rt = tokio::runtime::Builder::new_current_thread().enable_all().build().expect("runtime");
        let index = ClockId::new();
        let snapshots = Arc::new(RwLock::new(HashMap::new()));
        // capacity 1, as in `PpsSourceTask::spawn`
        let (tx, fetch_receiver) = mpsc::channel(1);
        let (mtx, rx) = mpsc::unbounded_channel();
        let (sys_tx, _sys_rx) = mpsc::channel(1);
        let channels = SourceChannels { msg_for_system_sender: sys_tx, source_snapshots: snapshots.clone() };
        let handle = rt.spawn(probe::run_task(
            index,
            PathBuf::from("/dev/pps-verif"),
            channels,
            OneWaySource::new(Recorder { tx: mtx }),
            fetch_receiver,
        ));
        Rig { rt, tx, rx, handle, index, snapshots }
    }

    /// Feed one pulse event; the measurements the task produced for it.
    fn feed(&mut self, d: probe::FetchData) -> Result<Vec<Measurement>, String> {
        let Rig { rt, tx, rx, handle, .. } = self;
        rt.block_on(async {
            tx.send(d).await.map_err(|_| "task dropped its fetch channel".to_string())?;
            let mut out = Vec::new();
            match tokio::time::timeout(std::time::Duration::from_secs(5), rx.recv()).await {
                Ok(Some(m)) => out.push(m),
                Ok(None) => return Err("task ended (controller dropped)".to_string()),
                Err(_) => {
                    return Err(if handle.is_finished() {
                        "task finished/panicked".to_string()
                    } else {
                        "no measurement within 5 s".to_string()
                    });
                }
            }
            // the task is parked in `recv` again by now (current-thread runtime); anything it
            // produced in addition is already queued
            tokio::task::yield_now().await;
            while let Ok(m) = rx.try_recv() {
                out.push(m);
            }
            if handle.is_finished() {
                return Err("task finished/panicked after the measurement".to_string());
            }
            Ok(out)
        })
    }
}

impl Drop for Rig {
    fn drop(&mut self) {
        self.handle.abort();
    }
}

// --- judging one case ---------------------------------------------------------------------------

#[derive(Default, Clone)]
struct Tally {
    cases: u64,
    transitions: u64,
    remote_floor: u64,
    remote_ceiling: u64,
    offset_zero: u64,
    offset_negative: u64,
    offset_positive: u64,
    local_rounded_down: u64,
    local_rounded_up: u64,
    local_exact: u64,
    snapshot_present: u64,
    era0: u64,
    era_other: u64,
}

/// (sender bits, receiver bits) when both matched a reference candidate; used for the
/// history-independence comparison.
type Obs = Option<(u64, u64)>;

fn judge(ctx: &Ctx, c: &Case, index: ClockId, ms: &[Measurement], tally: &mut Tally) -> (Obs, String) {
    let trace = case_str(c);
    let [m] = ms else {
        ctx.violation(
            "C05:pps-event-not-measured-once",
            format!("one pulse event (sec {}, nsec {}) produced {} measurements", c.sec, c.nsec, ms.len()),
            trace,
        );
        return (None, format!("{} measurements", ms.len()));
    };
    let r = reference(c.sec, c.nsec);
    let mut ok = true;
    // local time = the pulse timestamp
    let local = if m.receiver_ts == mk_ts(r.local_lo) {
        Some(r.local_lo)
    } else if m.receiver_ts == mk_ts(r.local_hi) {
        Some(r.local_hi)
    } else {
        None
    };
    match local {
        Some(_) if r.exact => tally.local_exact += 1,
        Some(l) if l == r.local_lo => tally.local_rounded_down += 1,
        Some(_) => tally.local_rounded_up += 1,
        None => {
            ok = false;
            ctx.violation(
                "C05:pps-local-time-not-pulse-timestamp",
                format!(
                    "pulse stamped by the local clock at Unix {} s + {} ns = NTP {:#018x}; the measurement's local time (receiver_ts) is {:#018x}",
                    c.sec, c.nsec, r.local_lo, bits_of(m.receiver_ts)
                ),
                trace.clone(),
            );
        }
    }
    // remote time = an adjacent whole second
    let remote = if m.sender_ts == mk_ts(r.whole_lo) {
        tally.remote_floor += 1;
        Some(r.whole_lo)
    } else if c.nsec != 0 && m.sender_ts == mk_ts(r.whole_hi) {
        tally.remote_ceiling += 1;
        Some(r.whole_hi)
    } else {
        ok = false;
        ctx.violation(
            "C05:pps-remote-time-not-adjacent-whole-second",
            format!(
                "pulse at Unix {} s + {} ns (NTP {:#018x}): remote time (sender_ts) must be the whole second {:#018x}{}, it is {:#018x}",
                c.sec,
                c.nsec,
                r.local_lo,
                r.whole_lo,
                if c.nsec != 0 { format!(" or {:#018x}", r.whole_hi) } else { String::new() },
                bits_of(m.sender_ts)
            ),
            trace.clone(),
        );
        None
    };
    // reported offset = remote - local: congruent to -frac(L) modulo one second, within one unit
    let off = m.sender_ts - m.receiver_ts;
    let f = r.frac_lo as i64;
    let mut candidates = vec![-f, (1i64 << 32) - f];
    if !r.exact {
        candidates.push(-f - 1);
        candidates.push((1i64 << 32) - f - 1);
    }
    if c.nsec == 0 {
        candidates = vec![0];
    }
    let hit = candidates.iter().find(|v| off == mk_dur(**v)).copied();
    match hit {
        Some(0) => tally.offset_zero += 1,
        Some(v) if v < 0 => tally.offset_negative += 1,
        Some(_) => tally.offset_positive += 1,
        None => {
            ok = false;
            let got = units_of(off);
            let class = if candidates.iter().any(|v| got == -*v) {
                "C05:pps-offset-sign-inverted"
            } else {
                "C05:pps-offset"
            };
            ctx.violation(
                class,
                format!(
                    "pulse seen {} ns after the local second: remote - local must be {} units of 2^-32 s ({} ns) modulo one second; the measurement reports sender_ts - receiver_ts = {} units ({:e} s)",
                    c.nsec,
                    -f,
                    -(c.nsec as i64),
                    got,
                    off.to_seconds()
                ),
                trace.clone(),
            );
        }
    }
    if m.sender_id != index || m.receiver_id != ClockId::SYSTEM {
        ok = false;
        ctx.violation(
            "C05:pps-measurement-direction",
            format!("remote (sender) must be the PPS source {:?} and local (receiver) the system clock; got sender {:?}, receiver {:?}", index, m.sender_id, m.receiver_id),
            trace.clone(),
        );
    }
    let era0 = (c.sec as i128 + 2_208_988_800).div_euclid(1 << 32) == 0;
    if era0 { tally.era0 += 1 } else { tally.era_other += 1 }
    let obs = match (remote, local) {
        (Some(s), Some(l)) if ok => Some((s, l)),
        _ => None,
    };
    let text = format!(
        "sender_ts-receiver_ts={} units (want {} mod 2^32); remote={} local={} leap={:?} root_delay_zero={} root_dispersion_zero={}",
        if ok { hit.unwrap_or(0) } else { units_of(off) },
        -f,
        remote.map_or("?".to_string(), |s| format!("{s:#018x}")),
        local.map_or("?".to_string(), |s| format!("{s:#018x}")),
        m.leap,
        m.root_delay == NtpDuration::ZERO,
        m.root_dispersion == NtpDuration::ZERO
    );
    (obs, text)
}

/// Feed `c` to the rig, judge; on a crash/stall report and rebuild the rig.
fn run_case(ctx: &Ctx, rig: &mut Rig, c: &Case, tally: &mut Tally) -> (Obs, String) {
    tally.cases += 1;
    tally.transitions += 1;
    let d = fetch_data(c);
    let r = common::catch(|| rig.feed(d));
    match r {
        Ok(Ok(ms)) => {
            if rig.snapshots.read().map(|s| s.contains_key(&rig.index)).unwrap_or(false) {
                tally.snapshot_present += 1;
            }
            judge(ctx, c, rig.index, &ms, tally)
        }
        Ok(Err(e)) | Err(e) => {
            ctx.violation(
                "C05:pps-task-crashed",
                format!("PpsSourceTask stopped working on pulse (sec {}, nsec {}): {e}", c.sec, c.nsec),
                case_str(c),
            );
            *rig = Rig::new();
            (None, format!("crashed: {e}"))
        }
    }
}

fn flush(ctx: &Ctx, t: &Tally) {
    ctx.add("evaluations", t.cases);
    ctx.add("transitions", t.transitions);
    ctx.add("pps_remote_is_floor_second", t.remote_floor);
    ctx.add("pps_remote_is_ceiling_second", t.remote_ceiling);
    ctx.add("pps_offset_zero", t.offset_zero);
    ctx.add("pps_offset_negative", t.offset_negative);
    ctx.add("pps_offset_positive", t.offset_positive);
    ctx.add("pps_local_fraction_exact", t.local_exact);
    ctx.add("pps_local_fraction_rounded_down", t.local_rounded_down);
    ctx.add("pps_local_fraction_rounded_up", t.local_rounded_up);
    ctx.add("pps_snapshot_published", t.snapshot_present);
    ctx.add("pps_cases_in_ntp_era_0", t.era0);
    ctx.add("pps_cases_in_other_eras", t.era_other);
}

fn replay(ctx: &Ctx, trace: &str) -> String {
    let Some(c) = parse_case(trace) else {
        return format!("unparseable trace {trace:?}");
    };
    let mut rig = Rig::new();
    let mut t = Tally::default();
    let (_, text) = run_case(ctx, &mut rig, &c, &mut t);
    text
}

#[test]
fn check() {
    let ctx = Ctx::new("C05");
    if let Some(t) = common::replay_trace() {
        let a = replay(&ctx, &t);
        let b = replay(&ctx, &t);
        common::report_replay("C05", &a, &b, ctx.violation_count() > 0);
        return;
    }
    let quick = ctx.quick();
    ctx.rule(
        "PPS part of C05: scripted pulse events (pps_fdata) fed through the fetch channel of the REAL PpsSourceTask::run loop \
         (recording SourceController inside the OneWaySource). Boundary block 21 sec values (NTP era edges 0/1 and 1/2, 1900, 2038, \
         2^32, negative, i64 extremes) x 17 nsec values x 5 assert sequence numbers x 3 fillings of the unrelated fields; nanosecond \
         sweep nsec = k*step+(k mod 7) (quick step 50 021, thorough 2 003) x 4 sec values; every case is fed twice (forward \
         sequence through one task, reverse sequence through a fresh task) and both measurements must agree. Distinct & \
         non-trivial = a distinct (sec, nsec, sequence, filling).",
    );
    ctx.assume("a PPS assert event marks the start of a second of the reference time scale and carries the local clock reading (assert_tu, Unix time, 0 <= nsec < 1e9) — RFC 2783 / Linux pps_kinfo");
    ctx.assume("which adjacent whole second is named as remote time (floor or ceiling) is a modulo-one-period convention resolved by the filter with the configured period (ntp-proto kalman/source.rs); both are accepted");
    ctx.assume("the filter offset of a one-way source is Measurement.sender_ts - Measurement.receiver_ts (OneWaySourceControllerWrapper, checked by ntp_proto/c05.rs)");
    ctx.assume("the blocking device thread (PpsDeviceFetchTask: ioctl PPS_FETCH on a real device) is replaced by the harness writing to the same channel; PpsSourceTask::spawn (opens the device) is not executed");
    if let Err(e) = self_test() {
        ctx.violation("C05:harness-self-test", e, "self_test");
    }

    let cases = all_cases(quick);
    let n = cases.len() as u64;
    ctx.set("pps_boundary_block_cases", (SECS.len() * NSECS.len() * SEQS.len() * FILLS as usize) as u64);
    ctx.set("pps_sweep_cases", n - (SECS.len() * NSECS.len() * SEQS.len() * FILLS as usize) as u64);
    let chunk = 2048u64;
    let chunks = n.div_ceil(chunk);
    common::par_for_with(
        chunks,
        1,
        || (),
        |_, ci| {
            let lo = (ci * chunk) as usize;
            let hi = (((ci + 1) * chunk).min(n)) as usize;
            let mut tally = Tally::default();
            // forward sequence through one task
            let mut rig = Rig::new();
            let mut fwd: Vec<Obs> = Vec::with_capacity(hi - lo);
            for c in &cases[lo..hi] {
                let (o, text) = run_case(&ctx, &mut rig, c, &mut tally);
                fwd.push(o);
                if (c.sec == 2_085_978_496 || c.sec == 1_700_000_000 || c.sec == -2_208_988_801) && c.seq == 0x8000_0000 && c.fill == 2 && (c.nsec == 250_000_000 || c.nsec == 999_999_999) {
                    ctx.sample(format!("{} -> {}", case_str(c), text));
                }
            }
            // reverse sequence through a fresh task: identical measurements (no history)
            let mut rig2 = Rig::new();
            let mut t2 = Tally::default();
            for (k, c) in cases[lo..hi].iter().enumerate().rev() {
                let tmp = Ctx::new("C05");
                let (o, _) = run_case(&tmp, &mut rig2, c, &mut t2);
                if o != fwd[k] {
                    ctx.violation(
                        "C05:pps-history-dependent",
                        format!("the same pulse gives {:x?} in the forward sequence and {:x?} in the reversed one", fwd[k], o),
                        case_str(c),
                    );
                }
            }
            tally.transitions += t2.transitions;
            ctx.add("pps_history_independence_comparisons", (hi - lo) as u64);
            flush(&ctx, &tally);
            ctx.distinct_many(cases[lo..hi].iter().map(common::hash_of));
        },
    );

    // out of domain: no verdict on the value, the task must survive and keep measuring
    {
        let mut rig = Rig::new();
        for nsec in OUT_OF_DOMAIN_NSECS {
            for sec in [1_790_000_000i64, 2_085_978_495] {
                let c = Case { sec, nsec, seq: 9, fill: 0 };
                ctx.inc("pps_out_of_domain_cases");
                ctx.add("transitions", 1);
                let r = common::catch(|| rig.feed(fetch_data(&c)));
                if !matches!(r, Ok(Ok(_))) {
                    ctx.violation(
                        "C05:pps-task-crashed",
                        format!("PpsSourceTask did not survive an event with nsec = {nsec}: {r:?}"),
                        case_str(&c),
                    );
                    rig = Rig::new();
                    continue;
                }
                // the next well-formed pulse is measured as usual (judged like any other case)
                let mut t = Tally::default();
                let next = Case { sec: 1_790_000_000, nsec: 250_000_000, seq: 10, fill: 0 };
                let (after, _) = run_case(&ctx, &mut rig, &next, &mut t);
                ctx.add("transitions", 1);
                if after.is_some() {
                    ctx.inc("pps_out_of_domain_survived");
                }
            }
        }
    }

    ctx.set("states", ctx.get("evaluations"));
    ctx.exhaustive(true);
    ctx.finish();
}
