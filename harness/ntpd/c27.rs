//! C27 — Server cookie keys persist safely across restarts and crashes (ntpd part).
//!
//! Real-file-system pass against the real `nts_key_provider::spawn` in a scratch directory
//! `/verif/work/c27-<pid>` (removed at the end). Key sets handed out by the daemon's
//! provider are USED through the daemon's own public paths only:
//!   * cookies are issued by a real NTS-KE session (`KeyExchangeServer::handle_connection`
//!     against `KeyExchangeClient::exchange_keys` over an in-memory duplex, the repository's
//!     test certificates) — that is where the daemon calls `encode_cookie`;
//!   * cookies are decoded by a real `ntp_proto::Server::handle` on an NTS request built with
//!     `NtpPacket::nts_poll_message`; "accepted" = the answer decrypts with the session's s2c
//!     key and carries a new cookie, "rejected" = NTS NAK. The new cookie is fed back once.
//!
//! Scenarios (each one a `spawn` of the real provider task):
//!   create   no file -> file appears, mode exactly 0600, exactly 20+64 bytes, keys usable
//!   restart  same file again -> cookies of the first run accepted, key bytes in file unchanged
//!   multi    file with 3 keys written by a real `KeySetProvider` (history 2, 3 rotations,
//!            one session per rotation) -> sessions of age <= 2 accepted, age 3 rejected
//!   history  the 3-key file started with stale-key-count 5 and 1 (not what it was written with);
//!            with 1 also followed by the daemon's own rotation: the previous key must survive
//!   rotate   rotation interval 1 s: after the daemon's own rotation the file is copied and a
//!            restart from the copy accepts the cookies of before and after the rotation
//!   crash    every prefix of the stored 1-key file (thorough: also of a 2-key file) =
//!            every crash point after the truncating open -> fresh usable keys, no panic
//!   corrupt  header faults (primary = n, n+1, 2^32-1; count = 0, n+1, 2^32-1; time = 0,
//!            2^63, 2^64-1; id offset moved), all-zero file, all-0xff file, flipped key byte,
//!            over-long garbage, unwritable / missing directory -> fresh or usable keys,
//!            never a panic in any thread (panics are counted by a process-wide hook;
//!            the shipped daemon is built with panic=abort).
//!   dcrash   REAL crash injection: a child process runs the real provider on a full key file and
//!            is killed by the kernel (RLIMIT_FSIZE = N, SIGXFSZ) inside its rotation store at
//!            byte N, for many N (thorough: every N); the parent loads what is left: it must be
//!            rejected or be exactly the old set rotated once; a subset is restarted on
//!   fifo     the key file is a FIFO: each store blocks until the harness reads it; every key set
//!            published through the watch channel must already be in the last completed store
//!   After every start on an existing path the file must be exactly the healthy image of
//!   the key set in use (no stale tail: the daemon's store is truncate-then-write).
use std::io::{BufReader, Cursor};
use std::os::unix::fs::PermissionsExt;
use std::path::{Path, PathBuf};
use std::sync::atomic::{AtomicU64, Ordering};
use std::sync::{Arc, Mutex};
use std::time::{Duration, Instant};

use ntp_proto::{
    Cipher, FilterAction, FilterList, KeyExchangeClient, KeyExchangeServer, KeySet, KeySetProvider,
    NtpClock, NtpDuration, NtpLeapIndicator, NtpPacket, NtpTimestamp, NtpVersion, NtsClientConfig,
    NtsServerConfig, PollIntervalLimits, ProtocolVersion, Server, ServerAction, ServerConfig,
    ServerReason, ServerResponse, ServerStatHandler,
};

use super::common::{self, Ctx};
use crate::daemon::config::KeysetConfig;
use crate::daemon::nts_key_provider;

// ---------------------------------------------------------------------------------
// process-wide panic counter (a panic in ANY thread would abort the shipped daemon)
// ---------------------------------------------------------------------------------

static PANICS: AtomicU64 = AtomicU64::new(0);
/// number of starts after which the provider stored its file but did not publish a key set
static NOT_PUBLISHED: AtomicU64 = AtomicU64::new(0);
static LAST_PANIC: Mutex<String> = Mutex::new(String::new());

fn install_panic_counter() {
    let prev = std::panic::take_hook();
    std::panic::set_hook(Box::new(move |info| {
        PANICS.fetch_add(1, Ordering::SeqCst);
        let msg = if let Some(s) = info.payload().downcast_ref::<&str>() {
            (*s).to_string()
        } else if let Some(s) = info.payload().downcast_ref::<String>() {
            s.clone()
        } else {
            "<non-string panic>".to_string()
        };
        let loc = info.location().map(|l| format!("{}:{}", l.file(), l.line())).unwrap_or_default();
        // strip the build-specific path prefix so observations are stable
        let loc = loc.rsplit_once("ntp-proto/").map(|x| format!("ntp-proto/{}", x.1)).unwrap_or(loc);
        *LAST_PANIC.lock().unwrap() = format!("{msg} @ {loc}");
        prev(info);
    }));
}

fn panics() -> u64 {
    PANICS.load(Ordering::SeqCst)
}

fn last_panic() -> String {
    LAST_PANIC.lock().unwrap().clone()
}

// ---------------------------------------------------------------------------------
// using a key set through the daemon's public paths
// ---------------------------------------------------------------------------------

struct Rig {
    server: Arc<KeyExchangeServer>,
    client: KeyExchangeClient,
}

fn rig() -> Rig {
    let chain = include_bytes!(concat!(env!("CARGO_MANIFEST_DIR"), "/test-keys/end.fullchain.pem"));
    let key = include_bytes!(concat!(env!("CARGO_MANIFEST_DIR"), "/test-keys/end.key"));
    let ca = include_bytes!(concat!(env!("CARGO_MANIFEST_DIR"), "/test-keys/testca.pem"));
    let certificate_chain = ntp_proto::tls_utils::pemfile::certs(&mut BufReader::new(Cursor::new(&chain[..])))
        .collect::<std::io::Result<Vec<_>>>()
        .expect("test certificate chain");
    let private_key = ntp_proto::tls_utils::pemfile::private_key(&mut BufReader::new(Cursor::new(&key[..]))).expect("test key");
    let server = KeyExchangeServer::new(NtsServerConfig {
        certificate_chain,
        private_key,
        accepted_versions: vec![NtpVersion::V4],
        server: None,
        port: None,
        pool_authentication_tokens: vec![],
    })
    .expect("key exchange server");
    let ca_certs = ntp_proto::tls_utils::pemfile::certs(&mut BufReader::new(Cursor::new(&ca[..])))
        .collect::<std::io::Result<Vec<_>>>()
        .expect("test ca");
    let client = KeyExchangeClient::new(&NtsClientConfig {
        certificates: ca_certs.into(),
        protocol_version: ProtocolVersion::V4,
    })
    .expect("key exchange client");
    Rig { server: Arc::new(server), client }
}

struct Session {
    cookies: Vec<Vec<u8>>,
    c2s: Box<dyn Cipher>,
    s2c: Box<dyn Cipher>,
}

/// A real NTS-KE handshake; the server side issues cookies under `keyset`.
async fn issue(rig: &Rig, keyset: Arc<KeySet>) -> Result<Session, String> {
    let (a, b) = tokio::io::duplex(1 << 16);
    let server = rig.server.clone();
    let before = panics();
    let srv = tokio::spawn(async move { server.handle_connection(b, &keyset, || None::<()>).await.map(|_| ()) });
    let res = tokio::time::timeout(Duration::from_secs(20), rig.client.exchange_keys(a, "localhost".to_string(), [])).await;
    let srv_res = srv.await;
    if srv_res.as_ref().is_err_and(|e| e.is_panic()) || panics() != before {
        return Err(format!("panic: NTS-KE connection task panicked while issuing cookies: {}", last_panic()));
    }
    match res {
        Err(_) => Err("error: key exchange timed out".into()),
        Ok(Err(e)) => Err(format!("error: key exchange failed: {e} (server side: {srv_res:?})")),
        Ok(Ok(r)) => {
            let mut nts = *r.nts;
            let mut cookies = Vec::new();
            while let Some(c) = nts.get_cookie() {
                cookies.push(c);
            }
            let (c2s, s2c) = nts.get_keys();
            if cookies.is_empty() {
                return Err("error: key exchange produced no cookies".into());
            }
            Ok(Session { cookies, c2s, s2c })
        }
    }
}

#[derive(Clone, Copy, Debug)]
struct FixedClock;

impl NtpClock for FixedClock {
    type Error = std::convert::Infallible;
    fn now(&self) -> Result<NtpTimestamp, Self::Error> {
        Ok(NtpTimestamp::default())
    }
    fn set_frequency(&self, _: f64) -> Result<NtpTimestamp, Self::Error> {
        Ok(NtpTimestamp::default())
    }
    fn get_frequency(&self) -> Result<f64, Self::Error> {
        Ok(0.0)
    }
    fn step_clock(&self, _: NtpDuration) -> Result<NtpTimestamp, Self::Error> {
        Ok(NtpTimestamp::default())
    }
    fn disable_ntp_algorithm(&self) -> Result<(), Self::Error> {
        Ok(())
    }
    fn error_estimate_update(&self, _: NtpDuration, _: NtpDuration) -> Result<(), Self::Error> {
        Ok(())
    }
    fn status_update(&self, _: NtpLeapIndicator) -> Result<(), Self::Error> {
        Ok(())
    }
}

struct NoStats;
impl ServerStatHandler for NoStats {
    fn register(&mut self, _: u8, _: bool, _: ServerReason, _: ServerResponse) {}
}

#[derive(Debug, Clone, PartialEq, Eq)]
enum Served {
    /// authenticated answer carrying this many new cookies (first one returned)
    Accepted(Vec<u8>),
    Nak,
    Other(String),
    Panic(String),
}

impl Served {
    fn short(&self) -> String {
        match self {
            Served::Accepted(_) => "accepted".into(),
            Served::Nak => "nak".into(),
            Served::Other(s) => format!("other({s})"),
            Served::Panic(s) => format!("panic({s})"),
        }
    }
}

/// One NTS request with `cookie` handled by a real `Server` that holds `keyset`.
fn serve(keyset: &Arc<KeySet>, s: &Session, cookie: &[u8]) -> Served {
    let before = panics();
    let r = common::catch(|| {
        let config = ServerConfig {
            denylist: FilterList { filter: vec![], action: FilterAction::Ignore },
            allowlist: FilterList {
                filter: vec!["0.0.0.0/0".parse().unwrap(), "::/0".parse().unwrap()],
                action: FilterAction::Ignore,
            },
            rate_limiting_cache_size: 0,
            rate_limiting_cutoff: Duration::ZERO,
            require_nts: None,
            accepted_versions: vec![NtpVersion::V4],
        };
        let mut server = Server::new_internal(config, FixedClock, Arc::default(), keyset.clone());
        let (packet, _id) = NtpPacket::nts_poll_message(cookie, 1, PollIntervalLimits::default().min);
        let mut req = [0u8; 1024];
        let mut cur = Cursor::new(req.as_mut_slice());
        if let Err(e) = packet.serialize(&mut cur, s.c2s.as_ref(), None) {
            return Served::Other(format!("cannot build request: {e}"));
        }
        let n = cur.position() as usize;
        let mut out = [0u8; 1024];
        match server.handle("127.0.0.1".parse().unwrap(), NtpTimestamp::default(), &req[..n], &mut out, &mut NoStats) {
            ServerAction::Ignore => Served::Other("ignored".into()),
            ServerAction::Respond { message } => match NtpPacket::deserialize(message, s.s2c.as_ref()) {
                Err(e) => Served::Other(format!("answer does not parse/decrypt: {e:?}")),
                Ok((p, _)) => {
                    if p.is_kiss_ntsn() {
                        Served::Nak
                    } else {
                        match p.new_cookies().next() {
                            Some(c) => Served::Accepted(c),
                            None => Served::Other("answer without encrypted cookie".into()),
                        }
                    }
                }
            },
        }
    });
    match r {
        Ok(v) if panics() == before => v,
        Ok(_) => Served::Panic(last_panic()),
        Err(p) => Served::Panic(p),
    }
}

/// Full use of a key set: issue a session, serve its first cookie, serve the cookie that came
/// back. `Ok(session)` if everything worked.
async fn use_keyset(rig: &Rig, keyset: &Arc<KeySet>) -> Result<Session, String> {
    let s = issue(rig, keyset.clone()).await?;
    match serve(keyset, &s, &s.cookies[0]) {
        Served::Accepted(next) => match serve(keyset, &s, &next) {
            Served::Accepted(_) => Ok(s),
            Served::Panic(p) => Err(format!("panic: {p}")),
            o => Err(format!("error: cookie handed out by the server is not accepted back: {}", o.short())),
        },
        Served::Panic(p) => Err(format!("panic: {p}")),
        o => Err(format!("error: fresh cookie not accepted: {}", o.short())),
    }
}

// ---------------------------------------------------------------------------------
// driving the real provider task
// ---------------------------------------------------------------------------------

const FOREVER: usize = 10_000_000_000; // seconds; > now - UNIX_EPOCH so that time=0 files do not rotate

struct Started {
    keyset: Arc<KeySet>,
    rx: tokio::sync::watch::Receiver<Arc<KeySet>>,
    panicked: Option<String>,
}

/// `spawn` + wait until the first store/send round of the background thread is through.
async fn start(path: &Path, stale: usize, interval: usize) -> Result<Started, String> {
    let before = panics();
    let config = KeysetConfig {
        stale_key_count: stale,
        key_rotation_interval: interval,
        key_storage_path: Some(path.to_str().unwrap().to_string()),
    };
    let mtime0 = std::fs::metadata(path).and_then(|m| m.modified()).ok();
    let mut rx = match tokio::time::timeout(Duration::from_secs(20), nts_key_provider::spawn(config)).await {
        Ok(rx) => rx,
        Err(_) => return Err("hang: nts_key_provider::spawn did not return within 20 s".into()),
    };
    // Start-up is through when the background thread has published (`changed`; on HEAD it stores
    // first, then publishes) or, for a provider that does not publish after the start-up store,
    // when the file was rewritten into a complete image. Dead-man 20 s: never a hang.
    let t0 = Instant::now();
    let mut stored_at: Option<Instant> = None;
    loop {
        match rx.has_changed() {
            Ok(true) => break,
            Ok(false) => {}
            Err(_) => return Err("crash: provider thread dropped the channel".into()),
        }
        if stored_at.is_none() {
            let m = std::fs::metadata(path).and_then(|m| m.modified()).ok();
            if m.is_some() && m != mtime0 && file_image(path).is_ok() {
                stored_at = Some(Instant::now());
            }
        }
        let grace = if NOT_PUBLISHED.load(Ordering::SeqCst) == 0 { 1000 } else { 100 };
        if stored_at.is_some_and(|t| t.elapsed() > Duration::from_millis(grace)) {
            // stored, but nothing published afterwards: go on with the initial key set
            NOT_PUBLISHED.fetch_add(1, Ordering::SeqCst);
            break;
        }
        if t0.elapsed() > Duration::from_secs(if NOT_PUBLISHED.load(Ordering::SeqCst) == 0 { 20 } else { 3 }) {
            if NOT_PUBLISHED.load(Ordering::SeqCst) > 0 {
                // known non-publishing provider and a path that cannot be stored: nothing to wait for
                NOT_PUBLISHED.fetch_add(1, Ordering::SeqCst);
                break;
            }
            return Err("hang: provider thread neither published a key set nor stored the key file within 20 s".into());
        }
        tokio::time::sleep(Duration::from_millis(5)).await;
    }
    let keyset = rx.borrow_and_update().clone();
    let panicked = (panics() != before).then(last_panic);
    Ok(Started { keyset, rx, panicked })
}

fn mode_of(path: &Path) -> Option<u32> {
    std::fs::metadata(path).ok().map(|m| m.permissions().mode() & 0o7777)
}

/// The file must be a complete healthy image: parses with the real loader to n keys and is
/// exactly 20 + 64 n bytes long (no stale tail from a longer previous file).
fn file_image(path: &Path) -> Result<(usize, Vec<u8>), String> {
    let bytes = std::fs::read(path).map_err(|e| format!("cannot read key file: {e}"))?;
    if bytes.len() < 20 {
        return Err(format!("key file has only {} bytes", bytes.len()));
    }
    let n = u32::from_be_bytes(bytes[16..20].try_into().unwrap()) as usize;
    match common::catch(|| KeySetProvider::load(&mut Cursor::new(&bytes), 0)) {
        Ok(Ok(_)) => {}
        other => return Err(format!("stored key file does not load: {:?}", other.map(|r| r.map(|_| ())))),
    }
    if bytes.len() != 20 + 64 * n {
        return Err(format!("key file has {} bytes but describes {n} keys (= {} bytes): stale tail, store did not truncate", bytes.len(), 20 + 64 * n));
    }
    Ok((n, bytes))
}

// ---------------------------------------------------------------------------------
// scenarios
// ---------------------------------------------------------------------------------

struct Env<'a> {
    ctx: &'a Ctx,
    rig: Rig,
    dir: PathBuf,
    next: std::cell::Cell<u32>,
    /// when the last provider thread with a 1 s rotation interval was released
    live: std::cell::Cell<Option<Instant>>,
}

/// Inputs/outputs of the crash-injection batch (run on plain threads outside the runtime).
struct CrashData {
    /// per stale-key-count s: healthy image with s+1 keys and the sessions of generations 0..=s+1
    bases: Vec<(Vec<u8>, Vec<(usize, Session)>)>,
    outcomes: Vec<CrashOutcome>,
}

impl Env<'_> {
    fn path(&self, name: &str) -> PathBuf {
        let n = self.next.get();
        self.next.set(n + 1);
        self.dir.join(format!("{n:04}-{name}.keys"))
    }
}

/// Healthy file written by a real provider: `h` history, `rot` rotations, one session issued
/// per rotation count. Returns (file bytes, sessions with the rotation they were issued at).
async fn healthy(env: &Env<'_>, h: usize, rot: usize) -> (Vec<u8>, Vec<(usize, Session)>) {
    let mut p = KeySetProvider::new(h);
    let mut sessions = Vec::new();
    for r in 0..=rot {
        let s = issue(&env.rig, p.get()).await.expect("harness: key exchange on a healthy provider");
        sessions.push((r, s));
        if r < rot {
            p.rotate();
        }
    }
    let mut bytes = Vec::new();
    p.store(&mut bytes).expect("store to Vec");
    (bytes, sessions)
}

fn class_for_panic(file: Option<&[u8]>, default: &'static str) -> &'static str {
    // class names follow the fault that was written into the file by the harness
    if let Some(f) = file {
        if f.len() >= 20 {
            let t = u64::from_be_bytes(f[0..8].try_into().unwrap());
            let primary = u32::from_be_bytes(f[12..16].try_into().unwrap());
            let len = u32::from_be_bytes(f[16..20].try_into().unwrap());
            if t > i64::MAX as u64 {
                return "C27:load-time-overflow";
            }
            if primary >= len {
                return "C27:load-primary-out-of-range";
            }
        }
    }
    default
}

#[derive(Clone, Copy, PartialEq, Eq, Debug)]
enum Expect {
    /// must start with fresh keys (old cookies rejected)
    Fresh,
    /// must restore (old valid cookies accepted)
    Restored,
    /// anything, as long as the set is usable (validity of old cookies is not judged)
    Either,
}

/// Write `file` (None = no file), start the daemon's provider on it, use the key set, judge.
/// `old`: sessions issued under the original key set with their expected validity if restored
/// (None = not judged: slack between a history-reducing restart and the next rotation).
async fn file_case(env: &Env<'_>, kind: &str, name: &str, file: Option<&[u8]>, stale: usize, old: &[(Option<bool>, &Session)], expect: Expect) -> String {
    let ctx = env.ctx;
    let path = env.path(name);
    let trace = format!("{kind};{name}");
    if let Some(f) = file {
        std::fs::write(&path, f).expect("scratch write");
    }
    ctx.inc("evaluations");
    ctx.inc("daemon_starts");
    ctx.inc(&format!("{kind}_cases"));
    let st = match start(&path, stale, FOREVER).await {
        Ok(s) => s,
        Err(e) => {
            ctx.violation("C27:daemon-start-fails", format!("{name}: {e}"), trace);
            return format!("start: {e}");
        }
    };
    let mut obs = String::new();
    if let Some(p) = &st.panicked {
        ctx.violation(
            class_for_panic(file, "C27:load-panic"),
            format!("{name}: a thread panicked while the key provider started ({p}); only the test profile's unwinding turns this into a fallback, the shipped daemon (panic=abort) dies at start-up"),
            trace.clone(),
        );
        obs.push_str(&format!("start-panic({p}) "));
    }
    // use the key set the daemon would hand to its server / NTS-KE tasks
    match use_keyset(&env.rig, &st.keyset).await {
        Ok(_) => {
            ctx.inc("keysets_used_ok");
            obs.push_str("usable ");
        }
        Err(e) if e.starts_with("panic") => {
            ctx.violation(
                class_for_panic(file, "C27:loaded-set-unusable"),
                format!("{name}: the key set published by the provider crashes the task that uses it: {e}"),
                trace.clone(),
            );
            obs.push_str(&format!("use-{e} "));
            return obs;
        }
        Err(e) => {
            ctx.violation("C27:loaded-set-unusable", format!("{name}: {e}"), trace.clone());
            obs.push_str(&format!("use-{e} "));
            return obs;
        }
    }
    // old cookies
    let mut acc = 0;
    let mut rej = 0;
    let mut wrong = Vec::new();
    for (i, (valid_if_restored, s)) in old.iter().enumerate() {
        let r = serve(&st.keyset, s, &s.cookies[1 % s.cookies.len()]);
        match &r {
            Served::Accepted(_) => acc += 1,
            Served::Nak => rej += 1,
            o => {
                ctx.violation(
                    if matches!(o, Served::Panic(_)) { class_for_panic(file, "C27:loaded-set-unusable") } else { "C27:loaded-set-unusable" },
                    format!("{name}: serving a pre-restart cookie: {}", o.short()),
                    trace.clone(),
                );
            }
        }
        match valid_if_restored {
            Some(v) if matches!(r, Served::Accepted(_)) != *v => wrong.push(i),
            Some(_) => {}
            None => ctx.inc(if matches!(r, Served::Accepted(_)) { "reload_slack_accepted" } else { "reload_slack_rejected" }),
        }
    }
    let restored = wrong.is_empty() && old.iter().any(|o| o.0 == Some(true));
    let fresh = acc == 0;
    obs.push_str(&format!("old-accepted={acc} old-rejected={rej} "));
    if restored {
        ctx.inc("starts_restored");
    } else if fresh {
        ctx.inc("starts_fresh");
    }
    let ok = match expect {
        Expect::Fresh => fresh,
        Expect::Restored => restored,
        Expect::Either => true,
    };
    if !ok && !old.is_empty() {
        ctx.violation(
            match expect {
                Expect::Restored => "C27:restart-loses-keys",
                Expect::Fresh => "C27:crash-prefix-loads-other-set",
                Expect::Either => "C27:loaded-set-decodes-partially",
            },
            format!("{name}: expected {expect:?}; {acc} old cookies accepted, {rej} rejected, unexpected at sessions {wrong:?}"),
            trace.clone(),
        );
    }
    // the file after the start: complete healthy image of the key set in use
    match file_image(&path) {
        Ok((n, bytes)) => {
            obs.push_str(&format!("file={}B/{n}keys ", bytes.len()));
            if let (true, Some(f)) = (restored, file) {
                if f.len() < bytes.len() || bytes[8..] != f[8..bytes.len()] {
                    ctx.violation("C27:restart-rewrites-other-keys", format!("{name}: restored, but the re-stored file differs from the loaded one"), trace.clone());
                }
            }
        }
        Err(e) => {
            ctx.violation("C27:store-leaves-bad-file", format!("{name}: after the start {e}"), trace.clone());
            obs.push_str("file=bad ");
        }
    }
    if file.is_none() {
        let mode = mode_of(&path);
        obs.push_str(&format!("mode={:o} ", mode.unwrap_or(0)));
        ctx.inc("created_files");
        if mode != Some(0o600) {
            ctx.violation(
                "C27:key-file-mode",
                format!("{name}: newly created key file has mode {:o}, expected exactly 600", mode.unwrap_or(0)),
                trace.clone(),
            );
        } else {
            ctx.inc("created_files_mode_0600");
        }
    }
    ctx.distinct(common::hash_of(&(kind, name)));
    obs
}

/// A 3-key file (history 2, generations 1..=3, sessions of generations 0..=3) is started with
/// stale-key-count 1 and a 1 s rotation interval; after exactly one rotation of the daemon the
/// session of the previous key (generation 3) must still be accepted, older ones rejected.
async fn lowered_history_then_rotation(env: &Env<'_>, bytes: &[u8], sessions: &[(usize, Session)]) -> String {
    let ctx = env.ctx;
    let mut result = String::from("not judged");
        let path = env.path("lowered-history-then-rotation");
        std::fs::write(&path, bytes).expect("scratch write");
        ctx.inc("evaluations");
        ctx.inc("daemon_starts");
        ctx.inc("restart_cases");
        let trace = "restart;lowered-history-then-rotation";
        match start(&path, 1, 1).await {
            Err(e) => ctx.violation("C27:daemon-start-fails", format!("lowered history: {e}"), trace),
            Ok(mut st) => {
                match tokio::time::timeout(Duration::from_secs(20), st.rx.changed()).await {
                    Ok(Ok(())) => {
                        let k = st.rx.borrow_and_update().clone();
                        // the thread stores before it publishes: the file is at least as new as `k`.
                        // rotations so far = keys in the file that the original file did not hold
                        // (robust against wrong ids, which is what this scenario is about)
                        let now_file = std::fs::read(&path).unwrap_or_default();
                        drop(st);
                        env.live.set(Some(Instant::now()));
                        let orig: Vec<&[u8]> = bytes[20..].chunks(64).collect();
                        let new_keys = now_file.get(20..).map(|b| b.chunks(64).filter(|c| c.len() == 64 && !orig.contains(c)).count());
                        match new_keys {
                            Some(1) => {
                                ctx.inc("daemon_rotations_observed");
                                // generations after one rotation with history 1: newest 4, previous 3
                                let mut obs = String::new();
                                for (r, s) in sessions {
                                    let served = serve(&k, s, &s.cookies[2 % s.cookies.len()]);
                                    let want = *r == 3;
                                    obs.push_str(&format!("gen{r}:{} ", served.short()));
                                    match (&served, want) {
                                        (Served::Accepted(_), true) | (Served::Nak, false) => {}
                                        (Served::Accepted(_), false) => ctx.violation(
                                            "C27:rotation-keeps-expired-key",
                                            format!("stale-key-count lowered to 1, one rotation later the session of generation {r} (newest is 4) is still accepted"),
                                            trace,
                                        ),
                                        (Served::Nak, true) => ctx.violation(
                                            "C27:rotation-drops-valid-cookie",
                                            "stale-key-count lowered from 2 to 1 across a restart: after the next rotation the cookie of the previous key (within 1 stale key) is rejected".to_string(),
                                            trace,
                                        ),
                                        (o, _) => ctx.violation("C27:loaded-set-unusable", format!("lowered history: serving old cookie: {}", o.short()), trace),
                                    }
                                }
                                match use_keyset(&env.rig, &k).await {
                                    Ok(_) => ctx.inc("keysets_used_ok"),
                                    Err(e) => ctx.violation("C27:loaded-set-unusable", format!("lowered history, after rotation: {e}"), trace),
                                }
                                ctx.sample(format!("history lowered 2->1 then daemon rotation: {obs}"));
                                result = obs.clone();
                                ctx.distinct(common::hash_of(&trace));
                            }
                            other => { ctx.inc("unjudged_scenarios"); ctx.cap_hit(&format!("lowered-history scenario: expected exactly one rotation when the key set was read, the file shows {other:?} new keys; not judged")); }
                        }
                    }
                    w => { ctx.inc("unjudged_scenarios"); ctx.cap_hit(&format!("lowered-history scenario: no rotation observed within 20 s ({w:?}); not judged")); }
                }
            }
        }
    result
}

/// Order of store and publish: the key file is a FIFO, so every store of the provider thread
/// blocks in `open` until the harness reads it; the bytes of the last completed store are "the
/// disk". Oracle (statement: keys stored are restored on restart, so cookies issued before the
/// restart stay valid): every key set that comes through the watch channel after start-up must
/// already be on the disk, i.e. a cookie issued under it is accepted by the set loaded from the
/// disk bytes. Every wait has a dead-man; machinery trouble is a cap, never a hang.
async fn published_before_stored(env: &Env<'_>) {
    let ctx = env.ctx;
    let trace = "fifo;publish-order";
    ctx.inc("evaluations");
    ctx.inc("fifo_cases");
    let unjudged = |why: String| {
        ctx.inc("unjudged_scenarios");
        ctx.cap_hit(&format!("publish-order scenario not judged: {why}"));
    };
    let path = env.path("fifo");
    let made = std::process::Command::new("/usr/bin/mkfifo").arg("-m").arg("600").arg(&path).status().map(|s| s.success()).unwrap_or(false);
    if !made {
        return unjudged("mkfifo failed".into());
    }
    // the load at start-up opens the FIFO for reading: give it a writer that writes nothing
    let p = path.clone();
    std::thread::spawn(move || drop(std::fs::OpenOptions::new().write(true).open(p)));
    let config = KeysetConfig { stale_key_count: 1, key_rotation_interval: 1, key_storage_path: Some(path.to_str().unwrap().to_string()) };
    let mut rx = match tokio::time::timeout(Duration::from_secs(20), nts_key_provider::spawn(config)).await {
        Ok(rx) => rx,
        Err(_) => return unjudged("spawn did not return within 20 s".into()),
    };
    // read one complete store from the FIFO (blocks in a helper thread until the provider opens it)
    async fn read_store(path: &Path) -> Option<Vec<u8>> {
        let (tx, rx) = std::sync::mpsc::channel();
        let p = path.to_path_buf();
        std::thread::spawn(move || {
            let _ = tx.send(std::fs::read(p));
        });
        let t0 = Instant::now();
        while t0.elapsed() < Duration::from_secs(20) {
            if let Ok(r) = rx.try_recv() {
                return r.ok();
            }
            tokio::time::sleep(Duration::from_millis(5)).await;
        }
        None
    }
    let Some(mut disk) = read_store(&path).await else { return unjudged("start-up store never arrived".into()) };
    let mut published = 0u64;
    for round in 0..2 {
        // the next store (of the rotated set) is blocked until we read again: watch what gets published
        let t0 = Instant::now();
        while t0.elapsed() < Duration::from_millis(if round == 0 { 2500 } else { 1000 }) {
            if rx.has_changed().unwrap_or(false) {
                let k = rx.borrow_and_update().clone();
                published += 1;
                let on_disk = match common::catch(|| KeySetProvider::load(&mut Cursor::new(&disk), 1)) {
                    Ok(Ok((p, _))) => Some(p.get()),
                    _ => None,
                };
                let ok = match (issue(&env.rig, k.clone()).await, &on_disk) {
                    (Ok(s), Some(d)) => matches!(serve(d, &s, &s.cookies[0]), Served::Accepted(_)),
                    (Ok(_), None) => false,
                    (Err(e), _) => return unjudged(format!("cannot issue under the published set: {e}")),
                };
                if ok {
                    ctx.inc("published_sets_already_stored");
                } else {
                    ctx.violation(
                        "C27:published-before-stored",
                        format!("publication #{published} ({k:?}) reached the watch channel while its store is still blocked: a cookie issued under it is not accepted by the key set on disk ({} bytes) - a crash now loses cookies issued before the restart", disk.len()),
                        trace,
                    );
                }
            }
            tokio::time::sleep(Duration::from_millis(10)).await;
        }
        if round == 0 {
            match read_store(&path).await {
                Some(d) => disk = d,
                None => return unjudged("the rotated set's store never arrived".into()),
            }
        }
    }
    ctx.set("fifo_publications_seen", published);
    if published == 0 {
        unjudged("nothing was published".into());
    }
    ctx.distinct(common::hash_of(&trace));
    ctx.sample(format!("publish-order (FIFO as key file): {published} publications checked against the bytes of the last completed store"));
}

fn with_hdr(f: &[u8], time: Option<u64>, off: Option<u32>, primary: Option<u32>, len: Option<u32>) -> Vec<u8> {
    let mut f = f.to_vec();
    if let Some(t) = time {
        f[0..8].copy_from_slice(&t.to_be_bytes());
    }
    if let Some(o) = off {
        f[8..12].copy_from_slice(&o.to_be_bytes());
    }
    if let Some(p) = primary {
        f[12..16].copy_from_slice(&p.to_be_bytes());
    }
    if let Some(l) = len {
        f[16..20].copy_from_slice(&l.to_be_bytes());
    }
    f
}

/// The named corrupt-file classes, built from a healthy n-key image.
fn corrupt_classes(f: &[u8]) -> Vec<(String, Vec<u8>, Expect)> {
    let n = u32::from_be_bytes(f[16..20].try_into().unwrap());
    let mut v: Vec<(String, Vec<u8>, Expect)> = Vec::new();
    v.push((format!("primary={n}(=count)"), with_hdr(f, None, None, Some(n), None), Expect::Either));
    v.push((format!("primary={}", n + 1), with_hdr(f, None, None, Some(n + 1), None), Expect::Either));
    v.push(("primary=4294967295".into(), with_hdr(f, None, None, Some(u32::MAX), None), Expect::Either));
    v.push(("primary=0".into(), with_hdr(f, None, None, Some(0), None), Expect::Either));
    v.push(("count=0,primary=0".into(), with_hdr(f, None, None, Some(0), Some(0)), Expect::Either));
    v.push((format!("count={}", n - 1), with_hdr(f, None, None, None, Some(n - 1)), Expect::Either));
    v.push((format!("count={}", n + 1), with_hdr(f, None, None, None, Some(n + 1)), Expect::Either));
    v.push(("count=4294967295".into(), with_hdr(f, None, None, None, Some(u32::MAX)), Expect::Either));
    v.push(("time=0".into(), with_hdr(f, Some(0), None, None, None), Expect::Either));
    v.push(("time=9223372036854775807".into(), with_hdr(f, Some(i64::MAX as u64), None, None, None), Expect::Either));
    v.push(("time=9223372036854775808".into(), with_hdr(f, Some(1 << 63), None, None, None), Expect::Either));
    v.push(("time=18446744073709551615".into(), with_hdr(f, Some(u64::MAX), None, None, None), Expect::Either));
    v.push(("idoffset+1".into(), with_hdr(f, None, Some(u32::from_be_bytes(f[8..12].try_into().unwrap()).wrapping_add(1)), None, None), Expect::Either));
    v.push(("all-zero".into(), vec![0u8; f.len()], Expect::Either));
    v.push(("all-ff".into(), vec![0xffu8; f.len()], Expect::Either));
    let mut k = f.to_vec();
    let last = k.len() - 1;
    k[last] ^= 0x01;
    v.push(("last-key-byte^01".into(), k, Expect::Either));
    let mut k = f.to_vec();
    k[20] ^= 0x80;
    v.push(("first-key-byte^80".into(), k, Expect::Either));
    let mut long = f.to_vec();
    long.extend(std::iter::repeat_n(0x5a, 1000));
    v.push(("healthy+1000-trailing-bytes".into(), long, Expect::Either));
    v.push(("garbage-1000-bytes".into(), (0..1000u32).map(|i| (i.wrapping_mul(97) >> 2) as u8 | 1).map(|b| b & 0x7f).collect(), Expect::Either));
    v
}

async fn run_all(env: &Env<'_>, crash: &CrashData) {
    let ctx = env.ctx;
    let thorough = !ctx.quick();

    // ---- real crash injection into the daemon's store: judge what the kernel-killed children left ----
    for o in &crash.outcomes {
        let (base, sessions) = &crash.bases[o.s];
        let obs = judge_crash(ctx, base, o);
        let len = base.len() as u64;
        if o.n == 0 || o.n == 20 || o.n == 84 || o.n + 1 == len || o.n == len {
            ctx.sample(format!("daemon killed in store: stale-key-count {} limit {}/{len}: {obs}", o.s, o.n));
        }
        // a real restart on what was left, for a subset of the crash points
        if o.machinery.is_none() && o.limited && !o.late && [0, 20, 84, len - 1, len].contains(&o.n) {
            let loads = matches!(common::catch(|| KeySetProvider::load(&mut Cursor::new(&o.after), o.s)), Ok(Ok(_)));
            // generations: newest old key = s+1; after the rotation newest = s+2, valid >= 2
            let (old, expect): (Vec<(Option<bool>, &Session)>, Expect) = if !loads {
                (sessions.iter().map(|(_, s)| (Some(true), s)).collect(), Expect::Fresh)
            } else if is_rotated_once(base, &o.after, o.s) {
                // with stale-key-count 0 no old generation survives the rotation
                (sessions.iter().map(|(g, s)| (Some(*g >= 2), s)).collect(), if o.s >= 1 { Expect::Restored } else { Expect::Fresh })
            } else {
                (sessions.iter().map(|(_, s)| (None, s)).collect(), Expect::Either)
            };
            file_case(env, "dcrash-restart", &format!("s={};n={}", o.s, o.n), Some(&o.after), o.s, &old, expect).await;
        }
    }

    // ---- rotate (first, its provider thread needs ~1 s to wind down) ----
    let rotate_done = {
        let path = env.path("rotate");
        ctx.inc("evaluations");
        ctx.inc("daemon_starts");
        match start(&path, 7, 1).await {
            Err(e) => {
                ctx.violation("C27:daemon-start-fails", format!("rotate: {e}"), "rotate;live");
            }
            Ok(mut st) => {
                let s0 = use_keyset(&env.rig, &st.keyset).await;
                let waited = tokio::time::timeout(Duration::from_secs(20), st.rx.changed()).await;
                match (s0, waited) {
                    (Ok(s0), Ok(Ok(()))) => {
                        let k1 = st.rx.borrow_and_update().clone();
                        let copy = std::fs::read(&path).unwrap_or_default();
                        ctx.inc("daemon_rotations_observed");
                        let s1 = use_keyset(&env.rig, &k1).await;
                        // cookie of before the rotation under the rotated set
                        let carried = serve(&k1, &s0, &s0.cookies[1]);
                        if !matches!(carried, Served::Accepted(_)) {
                            ctx.violation("C27:rotation-drops-valid-cookie", format!("cookie of before the daemon's rotation (7 stale keys): {}", carried.short()), "rotate;live");
                        }
                        drop(st);
                        match s1 {
                            Ok(s1) => {
                                let old: Vec<(Option<bool>, &Session)> = vec![(Some(true), &s0), (Some(true), &s1)];
                                let o = file_case(env, "rotate", "restart-after-daemon-rotation", Some(&copy), 7, &old, Expect::Restored).await;
                                ctx.sample(format!("rotate: file copied after the daemon's own rotation ({} bytes), restart -> {o}", copy.len()));
                            }
                            Err(e) => ctx.violation("C27:loaded-set-unusable", format!("rotated key set: {e}"), "rotate;live"),
                        }
                    }
                    (Err(e), _) => ctx.violation("C27:loaded-set-unusable", format!("rotate: first key set: {e}"), "rotate;live"),
                    (_, w) => { ctx.inc("unjudged_scenarios"); ctx.cap_hit(&format!("rotate scenario: no rotation observed within 20 s ({w:?}); not judged")); }
                }
            }
        }
        Instant::now()
    };

    // ---- create + restart ----
    {
        let path = env.path("create");
        ctx.inc("evaluations");
        ctx.inc("daemon_starts");
        ctx.inc("create_cases");
        match start(&path, 1, FOREVER).await {
            Err(e) => ctx.violation("C27:daemon-start-fails", format!("create: {e}"), "create;none"),
            Ok(st) => {
                let mode = mode_of(&path);
                ctx.inc("created_files");
                if mode == Some(0o600) {
                    ctx.inc("created_files_mode_0600");
                } else {
                    ctx.violation("C27:key-file-mode", format!("newly created key file has mode {:o}, expected exactly 600", mode.unwrap_or(0)), "create;none");
                }
                match file_image(&path) {
                    Ok((1, _)) => {}
                    Ok((n, b)) => ctx.violation("C27:store-leaves-bad-file", format!("fresh provider stored {n} keys / {} bytes", b.len()), "create;none"),
                    Err(e) => ctx.violation("C27:store-leaves-bad-file", format!("create: {e}"), "create;none"),
                }
                match use_keyset(&env.rig, &st.keyset).await {
                    Err(e) => ctx.violation("C27:loaded-set-unusable", format!("fresh key set: {e}"), "create;none"),
                    Ok(s) => {
                        ctx.inc("keysets_used_ok");
                        let image = std::fs::read(&path).unwrap_or_default();
                        drop(st);
                        // restart on the very file the daemon wrote
                        let o = file_case(env, "restart", "file-written-by-daemon", Some(&image), 1, &[(Some(true), &s)], Expect::Restored).await;
                        ctx.sample(format!("create: mode {:o}, {} bytes; restart -> {o}", mode.unwrap_or(0), image.len()));
                    }
                }
            }
        }
        // plain creation through the generic path as well (mode judged there too)
        let o = file_case(env, "create", "no-file", None, 3, &[], Expect::Either).await;
        ctx.sample(format!("create (no file, 3 stale keys): {o}"));
    }

    // ---- multi-key restart ----
    {
        let (bytes, sessions) = healthy(env, 2, 3).await;
        let old: Vec<(Option<bool>, &Session)> = sessions.iter().map(|(r, s)| (Some(3 - r <= 2), s)).collect();
        let o = file_case(env, "restart", "3-keys-history-2-after-3-rotations", Some(&bytes), 2, &old, Expect::Restored).await;
        ctx.sample(format!("multi: {o}"));
        // the same file, permissive mode bits beforehand: still restored (only a warning)
        let o = file_case(env, "restart", "3-keys-again", Some(&bytes), 2, &old, Expect::Restored).await;
        let _ = o;
    }

    // ---- restart with another stale-key-count than the file was written with ----
    {
        let (bytes, sessions) = healthy(env, 2, 3).await; // 3 keys (generations 1,2,3), sessions of ages 3,2,1,0
        // larger history: nothing more to restore than the file holds
        let old: Vec<(Option<bool>, &Session)> = sessions.iter().map(|(r, s)| (Some(3 - r <= 2), s)).collect();
        let o = file_case(env, "restart", "3-keys-loaded-with-history-5", Some(&bytes), 5, &old, Expect::Restored).await;
        ctx.sample(format!("history raised 2->5: {o}"));
        // smaller history, no rotation yet: ages 0..=1 must be accepted, age 2 is slack, age 3 must fail
        let old: Vec<(Option<bool>, &Session)> = sessions
            .iter()
            .map(|(r, s)| (match 3 - r { 0 | 1 => Some(true), 2 => None, _ => Some(false) }, s))
            .collect();
        let o = file_case(env, "restart", "3-keys-loaded-with-history-1", Some(&bytes), 1, &old, Expect::Restored).await;
        ctx.sample(format!("history lowered 2->1, before the next rotation: {o}"));
        // smaller history and then the daemon's own rotation (interval 1 s)
        lowered_history_then_rotation(env, &bytes, &sessions).await;
    }

    // ---- crash points: every prefix of a stored file ----
    {
        let mut bases = vec![healthy(env, 0, 0).await];
        if thorough {
            bases.push(healthy(env, 1, 1).await);
        }
        for (bytes, sessions) in &bases {
            let old: Vec<(Option<bool>, &Session)> = sessions.iter().map(|(_, s)| (Some(true), s)).collect();
            for k in 0..bytes.len() {
                let o = file_case(env, "crash", &format!("prefix-{k}-of-{}", bytes.len()), Some(&bytes[..k]), 1, &old, Expect::Fresh).await;
                if k == 0 || k == 20 || k + 1 == bytes.len() {
                    ctx.sample(format!("crash prefix {k}/{}: {o}", bytes.len()));
                }
            }
            let o = file_case(env, "crash", &format!("complete-{}", bytes.len()), Some(bytes), 1, &old, Expect::Restored).await;
            let _ = o;
        }
    }

    // ---- corrupt classes ----
    {
        let (bytes, sessions) = healthy(env, 1, 1).await;
        let old: Vec<(Option<bool>, &Session)> = sessions.iter().map(|(_, s)| (Some(true), s)).collect();
        for (name, file, expect) in corrupt_classes(&bytes) {
            // corrupted files may legitimately keep some keys and lose others: old cookies are
            // served for crash/panic detection, their validity is not judged (Expect::Either)
            let o = file_case(env, "corrupt", &name, Some(&file), 1, &old, expect).await;
            ctx.sample(format!("corrupt {name}: {o}"));
        }
        if thorough {
            let (bytes1, _) = healthy(env, 0, 0).await;
            for (name, file, expect) in corrupt_classes(&bytes1) {
                file_case(env, "corrupt", &format!("1key:{name}"), Some(&file), 0, &[], expect).await;
            }
        }
    }

    // ---- store cannot succeed ----
    {
        ctx.inc("evaluations");
        ctx.inc("daemon_starts");
        ctx.inc("unwritable_cases");
        let path = env.dir.join("no-such-dir").join("keys");
        match start(&path, 1, FOREVER).await {
            Err(e) => ctx.violation("C27:daemon-start-fails", format!("missing directory: {e}"), "unwritable;missing-dir"),
            Ok(st) => {
                if let Some(p) = st.panicked {
                    ctx.violation("C27:load-panic", format!("missing directory: panic {p}"), "unwritable;missing-dir");
                }
                match use_keyset(&env.rig, &st.keyset).await {
                    Ok(_) => ctx.inc("keysets_used_ok"),
                    Err(e) => ctx.violation("C27:loaded-set-unusable", format!("missing directory: {e}"), "unwritable;missing-dir"),
                }
            }
        }
        ctx.inc("evaluations");
        ctx.inc("daemon_starts");
        ctx.inc("unwritable_cases");
        let dirpath = env.dir.join("is-a-directory");
        std::fs::create_dir_all(&dirpath).unwrap();
        match start(&dirpath, 1, FOREVER).await {
            Err(e) => ctx.violation("C27:daemon-start-fails", format!("path is a directory: {e}"), "unwritable;is-dir"),
            Ok(st) => {
                if let Some(p) = st.panicked {
                    ctx.violation("C27:load-panic", format!("path is a directory: panic {p}"), "unwritable;is-dir");
                }
                match use_keyset(&env.rig, &st.keyset).await {
                    Ok(_) => ctx.inc("keysets_used_ok"),
                    Err(e) => ctx.violation("C27:loaded-set-unusable", format!("path is a directory: {e}"), "unwritable;is-dir"),
                }
            }
        }
    }

    // ---- store-before-publish order ----
    published_before_stored(env).await;

    // let the 1 s-interval provider thread of the rotate scenario finish its last round
    let since = env.live.get().map_or(rotate_done, |l| l.max(rotate_done)).elapsed();
    if since < Duration::from_millis(2500) {
        tokio::time::sleep(Duration::from_millis(2500) - since).await;
    }
}

// ---------------------------------------------------------------------------------
// replay: "<kind>;<name>" re-creates the named file class and runs that one case
// ---------------------------------------------------------------------------------

async fn replay_one(env: &Env<'_>, trace: &str) -> String {
    let (kind, name) = trace.split_once(';').unwrap_or((trace, ""));
    match kind {
        "crash" => {
            // prefix-K-of-N | complete-N
            let nums: Vec<usize> = name.split('-').filter_map(|p| p.parse().ok()).collect();
            let total = *nums.last().unwrap_or(&84);
            let (bytes, sessions) = if total <= 84 { healthy(env, 0, 0).await } else { healthy(env, 1, 1).await };
            let old: Vec<(Option<bool>, &Session)> = sessions.iter().map(|(_, s)| (Some(true), s)).collect();
            if name.starts_with("prefix") {
                let k = nums.first().copied().unwrap_or(0).min(bytes.len());
                file_case(env, "crash", "replay", Some(&bytes[..k]), 1, &old, Expect::Fresh).await
            } else {
                file_case(env, "crash", "replay", Some(&bytes), 1, &old, Expect::Restored).await
            }
        }
        "corrupt" => {
            let (one, cname) = match name.strip_prefix("1key:") {
                Some(c) => (true, c),
                None => (false, name),
            };
            let (bytes, _) = if one { healthy(env, 0, 0).await } else { healthy(env, 1, 1).await };
            match corrupt_classes(&bytes).into_iter().find(|c| c.0 == cname) {
                Some((_, file, expect)) => file_case(env, "corrupt", "replay", Some(&file), if one { 0 } else { 1 }, &[], expect).await,
                None => "unknown corrupt class".into(),
            }
        }
        "create" => file_case(env, "create", "replay", None, 1, &[], Expect::Either).await,
        "restart" if name == "lowered-history-then-rotation" => {
            let (bytes, sessions) = healthy(env, 2, 3).await;
            lowered_history_then_rotation(env, &bytes, &sessions).await
        }
        "restart" => {
            let (bytes, sessions) = healthy(env, 2, 3).await;
            let old: Vec<(Option<bool>, &Session)> = sessions.iter().map(|(r, s)| (Some(3 - r <= 2), s)).collect();
            file_case(env, "restart", "replay", Some(&bytes), 2, &old, Expect::Restored).await
        }
        "fifo" => {
            let (a0, v0) = (env.ctx.get("published_sets_already_stored"), env.ctx.violation_count());
            published_before_stored(env).await;
            format!("publications={} already_stored={} violations={}", env.ctx.get("fifo_publications_seen"), env.ctx.get("published_sets_already_stored") - a0, env.ctx.violation_count() - v0)
        }
        "dcrash" => {
            let parts: Vec<&str> = name.split(';').collect();
            let get = |k: &str| parts.iter().find_map(|p| p.strip_prefix(k)).and_then(|v| v.parse::<u64>().ok());
            let (sc, n) = (get("s=").unwrap_or(0) as usize, get("n=").unwrap_or(0));
            let (base, _) = healthy(env, sc, sc + 1).await;
            let dir = env.dir.join(format!("replay-crash-{}", env.next.get()));
            env.next.set(env.next.get() + 1);
            let o = run_crash_child(&dir, sc, n, &base);
            judge_crash(env.ctx, &base, &o)
        }
        _ => "trace kind not replayable (rotate/unwritable scenarios are timing/fs bound): run the check".into(),
    }
}

// ---------------------------------------------------------------------------------
// real crash injection: the daemon's own store path is killed by the kernel at byte N
// ---------------------------------------------------------------------------------
//
// The crash states are OBSERVED, not derived from reading the daemon: a child process (this
// very test binary, test `child`) runs the real `nts_key_provider::spawn` on a prepared full
// key file (stale-key-count s, s+1 keys) with a 3 s rotation interval. After the start-up
// store it limits its own RLIMIT_FSIZE to N bytes (`/usr/bin/prlimit --pid self`; ntpd forbids
// unsafe code, so no setrlimit call). At the next store (after the rotation) the kernel cuts
// the write at offset N and kills the process with SIGXFSZ the moment it tries to pass N:
// an exact, kernel-enforced crash point inside the daemon's real store. The parent then looks
// at the file the way the next start does.

const SIGXFSZ: i32 = 25;
const CHILD_INTERVAL_S: usize = 3;

#[derive(Clone, Debug)]
struct CrashOutcome {
    s: usize,
    n: u64,
    /// Some(signal) / None
    signal: Option<i32>,
    code: Option<i32>,
    late: bool,
    limited: bool,
    boot_image_ok: bool,
    after: Vec<u8>,
    machinery: Option<String>,
}

/// Prepared file for stale-key-count `s`: the healthy image with its time field moved into
/// the future, so that the provider's first sleep is one full rotation interval.
fn prepared(base: &[u8]) -> Vec<u8> {
    let future = std::time::SystemTime::now().duration_since(std::time::UNIX_EPOCH).map(|d| d.as_secs()).unwrap_or(0) + 3600;
    with_hdr(base, Some(future), None, None, None)
}

fn run_crash_child(dir: &Path, s: usize, n: u64, base: &[u8]) -> CrashOutcome {
    let mut out = CrashOutcome { s, n, signal: None, code: None, late: false, limited: false, boot_image_ok: false, after: vec![], machinery: None };
    let _ = std::fs::remove_dir_all(dir);
    if let Err(e) = std::fs::create_dir_all(dir).and_then(|_| std::fs::write(dir.join("keys"), prepared(base))) {
        out.machinery = Some(format!("cannot prepare {dir:?}: {e}"));
        return out;
    }
    let exe = match std::env::current_exe() {
        Ok(e) => e,
        Err(e) => {
            out.machinery = Some(format!("current_exe: {e}"));
            return out;
        }
    };
    let child = std::process::Command::new(exe)
        .args(["daemon::verif::c27::child", "--exact", "--nocapture", "--test-threads", "1"])
        .env("VERIF_C27_CHILD", dir)
        .env("VERIF_C27_STALE", s.to_string())
        .env("VERIF_C27_FSIZE", n.to_string())
        .env_remove("VERIF_REPLAY_TRACE")
        .stdin(std::process::Stdio::null())
        .stdout(std::process::Stdio::null())
        .stderr(std::process::Stdio::null())
        .spawn();
    let mut child = match child {
        Ok(c) => c,
        Err(e) => {
            out.machinery = Some(format!("cannot start child: {e}"));
            return out;
        }
    };
    let t0 = Instant::now();
    let status = loop {
        match child.try_wait() {
            Ok(Some(st)) => break Some(st),
            Ok(None) if t0.elapsed() > Duration::from_secs(40) => {
                let _ = child.kill();
                let _ = child.wait();
                break None;
            }
            Ok(None) => std::thread::sleep(Duration::from_millis(15)),
            Err(_) => break None,
        }
    };
    match status {
        None => out.machinery = Some("child did not finish within 40 s".into()),
        Some(st) => {
            use std::os::unix::process::ExitStatusExt;
            out.signal = st.signal();
            out.code = st.code();
        }
    }
    out.late = dir.join("late").exists();
    out.limited = dir.join("limited").exists();
    out.after = std::fs::read(dir.join("keys")).unwrap_or_default();
    // what the start-up store left must be the prepared set (same ids and keys)
    out.boot_image_ok = std::fs::read(dir.join("old")).map(|o| o.len() == base.len() && o[8..] == base[8..]).unwrap_or(false);
    let _ = std::fs::remove_dir_all(dir);
    out
}

fn parse_image(f: &[u8]) -> Option<(u32, u32, Vec<&[u8]>)> {
    if f.len() < 20 {
        return None;
    }
    let off = u32::from_be_bytes(f[8..12].try_into().unwrap());
    let primary = u32::from_be_bytes(f[12..16].try_into().unwrap());
    let n = u32::from_be_bytes(f[16..20].try_into().unwrap()) as usize;
    if f.len() != 20 + 64 * n {
        return None;
    }
    Some((off, primary, f[20..].chunks(64).collect()))
}

/// Reference (statement): the set being stored at the crash is the old set rotated once with
/// history s: the s newest old keys keep their ids, one new key (not among the old ones)
/// becomes primary with the next id.
fn is_rotated_once(base: &[u8], after: &[u8], s: usize) -> bool {
    let (Some((bo, _bp, bk)), Some((ao, ap, ak))) = (parse_image(base), parse_image(after)) else { return false };
    let dropped = bk.len().saturating_sub(s);
    let survivors = &bk[dropped..];
    ak.len() == survivors.len() + 1
        && ak[..survivors.len()] == *survivors
        && !bk.contains(ak.last().unwrap())
        && ak.last().unwrap().iter().any(|b| *b != 0)
        && ao == bo.wrapping_add(dropped as u32)
        && ap as usize == ak.len() - 1
}

/// Judge one crash outcome. Returns the observation string.
fn judge_crash(ctx: &Ctx, base: &[u8], o: &CrashOutcome) -> String {
    let trace = format!("dcrash;s={};n={}", o.s, o.n);
    let len = base.len() as u64;
    ctx.inc("evaluations");
    ctx.inc("daemon_crash_cases");
    let expect_crash = o.n < len;
    let machinery = o.machinery.clone().or_else(|| {
        if !o.limited {
            Some(format!("child never applied the limit (exit {:?}, signal {:?})", o.code, o.signal))
        } else if o.late {
            Some("limit applied too late (more than 2.5 s after the start-up store)".into())
        } else if !o.boot_image_ok {
            Some("start-up store did not leave the prepared key set".into())
        } else if expect_crash && o.signal != Some(SIGXFSZ) {
            Some(format!("child was expected to die of SIGXFSZ at offset {}, got exit {:?} signal {:?}", o.n, o.code, o.signal))
        } else if !expect_crash && o.code != Some(0) {
            Some(format!("control child (limit {} >= {len}) was expected to store and exit 0, got exit {:?} signal {:?}", o.n, o.code, o.signal))
        } else {
            None
        }
    });
    if let Some(m) = machinery {
        ctx.inc("daemon_crash_machinery_errors");
        ctx.cap_hit(&format!("{trace}: not judged: {m}"));
        return format!("machinery: {m}");
    }
    let loaded = common::catch(|| KeySetProvider::load(&mut Cursor::new(&o.after), o.s));
    let is_prefix = o.after.len() as u64 == o.n.min(len);
    if expect_crash && is_prefix {
        ctx.inc("daemon_crash_file_is_n_byte_prefix");
    }
    let obs;
    match loaded {
        Err(p) => {
            ctx.violation("C27:load-panic", format!("load of the file left by a crash at offset {} panicked: {p}", o.n), trace.clone());
            obs = format!("signal={:?} len={} load=panic", o.signal, o.after.len());
        }
        Ok(Err(_)) => {
            if expect_crash {
                ctx.inc("daemon_crash_left_unloadable");
            } else {
                ctx.violation("C27:daemon-rotation-store-differs", format!("uninterrupted rotation store (limit {} >= {len}) left a file that does not load", o.n), trace.clone());
            }
            obs = format!("signal={:?} len={} load=Err", o.signal, o.after.len());
        }
        Ok(Ok((prov, _))) => {
            let rotated = is_rotated_once(base, &o.after, o.s);
            // identical to the previous set (only the time field may differ)?
            let previous = o.after.len() == base.len() && o.after[8..] == base[8..];
            if !expect_crash {
                if rotated {
                    ctx.inc("daemon_store_completed_rotated_set");
                } else {
                    ctx.violation(
                        "C27:daemon-rotation-store-differs",
                        format!("uninterrupted rotation store (stale-key-count {}, limit {} >= {len}) left a set that is not the old one rotated once: {:?}", o.s, o.n, prov.get()),
                        trace.clone(),
                    );
                }
            } else if previous {
                // The kernel let at most n < len bytes of the new stream through, so a complete
                // loadable file cannot be the set being stored. Here it is exactly the previous
                // set: literally outside "the set being stored or fresh keys", but the benign
                // kind (what write-temp-then-rename would leave) -> own class.
                ctx.violation(
                    "C27:daemon-crash-keeps-previous-set",
                    format!("daemon killed at byte {} of its rotation store (stale-key-count {}): the previous key set is still in the file and loads; the statement allows only the set being stored or fresh keys", o.n, o.s),
                    trace.clone(),
                );
            } else {
                ctx.violation(
                    "C27:daemon-crash-leaves-other-set",
                    format!(
                        "daemon killed at byte {} of its rotation store (stale-key-count {}, {len}-byte file): the file left behind ({} bytes, at most {} of them new) LOADS, but is neither the set being stored nor rejected nor the previous set{}: {:?}",
                        o.n, o.s, o.after.len(), o.n,
                        if rotated { " (it has the shape of the rotated set, but its newest key is a splice of new and stale bytes)" } else { "" },
                        prov.get()
                    ),
                    trace.clone(),
                );
            }
            obs = format!("signal={:?} len={} load=Ok rotated_once={rotated} previous={previous}", o.signal, o.after.len());
        }
    }
    ctx.distinct(common::hash_of(&trace));
    obs
}

fn crash_offsets(len: u64, thorough: bool) -> Vec<u64> {
    let mut v: Vec<u64> = if thorough {
        (0..=len).collect()
    } else {
        let mut v: Vec<u64> = (0..=24).collect();
        let mut k = 20i64;
        while k <= len as i64 {
            for d in [-2i64, -1, 0, 1, 2] {
                if k + d >= 0 && k + d <= len as i64 {
                    v.push((k + d) as u64);
                }
            }
            k += 64;
        }
        v.extend((0..=len).step_by(8));
        v.push(len);
        v
    };
    v.push(len + 1000); // control far above
    v.sort();
    v.dedup();
    v
}

/// Run all crash cases with up to `par` children at a time. `bases[s]` = healthy s+1-key image.
fn run_crash_batch(dir: &Path, bases: &[Vec<u8>], thorough: bool, par: usize) -> Vec<CrashOutcome> {
    let mut cases = Vec::new();
    for (s, base) in bases.iter().enumerate() {
        for n in crash_offsets(base.len() as u64, thorough) {
            cases.push((s, n));
        }
    }
    let next = AtomicU64::new(0);
    let results = Mutex::new(Vec::new());
    std::thread::scope(|sc| {
        for _ in 0..par {
            sc.spawn(|| loop {
                let i = next.fetch_add(1, Ordering::SeqCst) as usize;
                if i >= cases.len() {
                    break;
                }
                let (s, n) = cases[i];
                let cdir = dir.join(format!("crash-s{s}-n{n}"));
                let mut o = run_crash_child(&cdir, s, n, &bases[s]);
                // retries for machinery trouble only (limit applied late under load, fork failure);
                // a case that was judged is never repeated
                let mut tries = 1;
                while tries < 5 && (o.machinery.is_some() || o.late || !o.limited) {
                    o = run_crash_child(&cdir, s, n, &bases[s]);
                    tries += 1;
                }
                results.lock().unwrap().push(o);
            });
        }
    });
    let mut r = results.into_inner().unwrap();
    r.sort_by_key(|o| (o.s, o.n));
    r
}

/// Child mode of the crash injection (see above). A no-op unless VERIF_C27_CHILD is set.
#[test]
fn child() {
    let Ok(dir) = std::env::var("VERIF_C27_CHILD") else { return };
    let dir = PathBuf::from(dir);
    let stale: usize = std::env::var("VERIF_C27_STALE").ok().and_then(|v| v.parse().ok()).unwrap_or(0);
    let fsize: u64 = std::env::var("VERIF_C27_FSIZE").ok().and_then(|v| v.parse().ok()).unwrap_or(0);
    let rt = tokio::runtime::Builder::new_current_thread().enable_all().build().expect("runtime");
    let code = rt.block_on(async {
        let keys = dir.join("keys");
        let config = KeysetConfig {
            stale_key_count: stale,
            key_rotation_interval: CHILD_INTERVAL_S,
            key_storage_path: Some(keys.to_str().unwrap().to_string()),
        };
        let prepared = std::fs::read(&keys).unwrap_or_default();
        let _rx = nts_key_provider::spawn(config).await;
        // Start-up store done = the file is complete again and carries a new time stamp (the
        // prepared one lies in the future). Deliberately NOT synchronised through the watch
        // channel: whether and when the provider publishes must not matter here.
        let t_start = Instant::now();
        loop {
            let now = std::fs::read(&keys).unwrap_or_default();
            if now.len() == prepared.len() && now.len() >= 20 && now[..8] != prepared[..8] && now[8..] == prepared[8..] {
                break;
            }
            if t_start.elapsed() > Duration::from_secs(15) {
                return 3;
            }
            tokio::time::sleep(Duration::from_millis(5)).await;
        }
        // the provider thread now sleeps one full interval
        let t0 = Instant::now();
        if std::fs::copy(&keys, dir.join("old")).is_err() {
            return 6;
        }
        let me = std::process::id().to_string();
        let ok = std::process::Command::new("/usr/bin/prlimit")
            .args(["--pid", &me, &format!("--fsize={fsize}:{fsize}"), "--core=0:0"])
            .stdin(std::process::Stdio::null())
            .stdout(std::process::Stdio::null())
            .stderr(std::process::Stdio::null())
            .status()
            .map(|s| s.success())
            .unwrap_or(false);
        if !ok {
            return 4;
        }
        // only empty files can be created from here on
        if t0.elapsed() > Duration::from_millis(2500) {
            let _ = std::fs::File::create(dir.join("late"));
        }
        let _ = std::fs::File::create(dir.join("limited"));
        // the rotation store: either the kernel kills us in it, or it completes (control):
        // then the file is complete and holds a key that was not there before
        let t_lim = Instant::now();
        loop {
            let now = std::fs::read(&keys).unwrap_or_default();
            // (full key sets: the rotated image has the length of the prepared one)
            if now.len() == prepared.len() && now.len() > 20 && now[20..] != prepared[20..] {
                return 0;
            }
            if t_lim.elapsed() > Duration::from_secs(CHILD_INTERVAL_S as u64 + 12) {
                return 5;
            }
            tokio::time::sleep(Duration::from_millis(10)).await;
        }
    });
    std::process::exit(code);
}

fn scratch_dir() -> PathBuf {
    PathBuf::from(format!("/verif/work/c27-{}", std::process::id()))
}

#[test]
fn check() {
    let ctx = Ctx::new("C27");
    install_panic_counter();
    let dir = scratch_dir();
    let _ = std::fs::remove_dir_all(&dir);
    std::fs::create_dir_all(&dir).expect("scratch dir under /verif/work");
    // real time: the provider thread sleeps with std::thread::sleep
    let rt = tokio::runtime::Builder::new_current_thread().enable_all().build().expect("runtime");
    let env = Env { ctx: &ctx, rig: rig(), dir: dir.clone(), next: std::cell::Cell::new(0), live: std::cell::Cell::new(None) };

    if let Some(t) = common::replay_trace() {
        let a = rt.block_on(replay_one(&env, &t));
        let b = rt.block_on(replay_one(&env, &t));
        rt.shutdown_background();
        let _ = std::fs::remove_dir_all(&dir);
        common::report_replay("C27", &a, &b, ctx.violation_count() > 0);
        return;
    }
    ctx.rule(
        "ntpd part, real file system: one start of the real nts_key_provider::spawn per case. Cases: no file (creation, mode), restart on \
         the daemon's own file, restart on a 3-key file with sessions of ages 0..=3 (with the stale-key-count it was written with, a larger and a smaller one; the \
         smaller one also followed by the daemon's own rotation), restart after the daemon's own 1 s rotation, EVERY \
         prefix of a stored 1-key file (thorough: and of a 2-key file), 19 named corrupt-file classes (thorough: for a 1-key and a 2-key \
         file), missing directory, path is a directory. Crash injection: for stale-key-count 0, 1, 2 and a full key file, the real provider in a child \
         process is killed by the kernel (RLIMIT_FSIZE = N) inside its rotation store, for N in {0..=24, every key boundary +-2, every 8th byte, len, len+1000} \
         (thorough: every N in 0..=len), and the file left behind is loaded (and for 5 offsets per s restarted on). Every published key set is used through a real NTS-KE handshake and a real \
         Server::handle round trip (twice). Distinct & non-trivial = a distinct file content handed to a daemon start.",
    );
    ctx.assume("a panic in any thread of the test process during a case is attributed to that case (one test thread, cases run sequentially)");
    ctx.assume("the repository's test certificates (ntpd/test-keys) are valid at the time of the run");
    ctx.assume("crash points inside the daemon's store are produced by the kernel: a child running the real provider limits its RLIMIT_FSIZE to N (prlimit) and is killed by SIGXFSZ when the store passes byte N; a child that did not die that way (or applied the limit late) is a machinery error and is not judged");
    ctx.assume("RLIMIT_FSIZE crashes cover 'process dies after N bytes reached the file'; reordering / loss of already written data below the write call (power failure) is not modelled");
    // crash injection: sessions are issued inside the runtime, the children run on plain threads
    let mut crash = CrashData { bases: Vec::new(), outcomes: Vec::new() };
    for s in 0..=2usize {
        crash.bases.push(rt.block_on(healthy(&env, s, s + 1)));
    }
    let images: Vec<Vec<u8>> = crash.bases.iter().map(|b| b.0.clone()).collect();
    let t_crash = Instant::now();
    crash.outcomes = run_crash_batch(&dir, &images, !ctx.quick(), 48);
    ctx.set("daemon_crash_batch_ms", t_crash.elapsed().as_millis() as u64);
    rt.block_on(run_all(&env, &crash));
    rt.shutdown_background();
    if std::fs::remove_dir_all(&dir).is_err() {
        // a late writer may have re-created a file; once more
        std::thread::sleep(Duration::from_millis(200));
        let _ = std::fs::remove_dir_all(&dir);
    }
    let unpublished = NOT_PUBLISHED.load(Ordering::SeqCst);
    ctx.set("starts_without_publish_after_store", unpublished);
    if unpublished > 0 {
        ctx.cap_hit(&format!(
            "{unpublished} starts: the provider stored its key file but published no key set afterwards (HEAD publishes after every store); \
             those starts were synchronised on the file and judged with the initial key set; rotation-dependent scenarios may be unjudged"
        ));
    }
    // a crash case that could not be judged (machinery) leaves a hole in the enumeration
    ctx.exhaustive(ctx.get("daemon_crash_machinery_errors") == 0 && unpublished == 0 && ctx.get("unjudged_scenarios") == 0);
    ctx.finish();
}
