//! C08 (daemon level, group gs): the REAL source task (`SourceTask::run`, real connected UDP
//! socket, real `NtpSource`) hands the controller at most one measurement pair per request, only
//! for an answer that matches the pending request, arrives from the configured server address
//! inside the poll window, and the pair carries the time stamps of exactly that exchange.
//! Rig, reference and driver: `c11_task.rs` (shared, `pub(super)`).
#![allow(dead_code)]

use super::c11_task::{self as rig, Plan, Sym, Ts, Ver, cfg};
use super::common::{self, Ctx};

fn replay(ctx: &Ctx, trace: &str) -> String {
    rig::replay_case(ctx, "C08", trace)
}

#[test]
fn check() {
    let ctx = Ctx::new("C08");
    if let Some(t) = common::replay_trace() {
        let a = replay(&ctx, &t);
        let b = replay(&ctx, &t);
        common::report_replay("C08", &a, &b, ctx.violation_count() > 0);
        return;
    }
    ctx.rule("every script of exactly n poll reactions (shorter scripts are their prefixes: silence follows anyway) over {N none, V valid, W the same valid answer twice, O wrong origin/cookie, D DENY, S RSTR, R RATE, U unknown KISS, A valid from 127.0.0.2, P valid from another port, L valid but 5.5 s late, Q (v5) valid asking for max+2} played by a scripted UDP server against the real SourceTask::run, then silent polls until the task gives up; distinct = canonical observation differs");
    rig::common_assumptions(&ctx);
    let quick = ctx.quick();
    let full: Vec<Sym> = Sym::ALL.to_vec();
    // the nine reactions of the brief (none, valid, twice, wrong origin, DENY, RSTR, RATE, unknown KISS, other address)
    let nine = vec![Sym::N, Sym::V, Sym::W, Sym::O, Sym::D, Sym::S, Sym::R, Sym::U, Sym::A];
    let mut plans = Vec::new();
    let len = if quick { 4 } else { 5 };
    for c in [
        cfg(Ver::V4, 4, 10, Ts::Kr),
        cfg(Ver::V4, 4, 4, Ts::Sw),
        cfg(Ver::V4, 4, 10, Ts::Ka),
        cfg(Ver::V5, 4, 10, Ts::Sw),
        cfg(Ver::Auto, 4, 10, Ts::Ka),
    ] {
        plans.push(Plan { cfg: c, alphabet: full.iter().copied().filter(|s| s.applies(c.ver)).collect(), len });
    }
    if quick {
        plans.push(Plan { cfg: cfg(Ver::V4, 4, 10, Ts::Kr), alphabet: nine, len: 5 });
    } else {
        plans.push(Plan { cfg: cfg(Ver::V4, 4, 10, Ts::Kr), alphabet: full.iter().copied().filter(|s| s.applies(Ver::V4)).collect(), len: 6 });
    }
    rig::explore(&ctx, "C08", &plans);
    ctx.finish();
}
