//! C08 (daemon level, group gs): the REAL source task (`SourceTask::run`, real connected UDP
//! socket, real `NtpSource`) hands the controller at most one measurement pair per request, only
//! for an answer that matches the pending request, arrives from the configured server address
//! inside the poll window, and the pair carries the time stamps of exactly that exchange —
//! whatever else arrives before or after it in the same poll (strays with a wrong origin, the
//! reflected request, KISS codes, datagrams from other peers, truncated datagrams, duplicates).
//! Rig, reference and driver: `c11_task.rs` (shared, `pub(super)`).
#![allow(dead_code)]

use super::c11_task::{self as rig, Ts, Ver, cfg, plan};
use super::common::{self, Ctx};

fn replay(ctx: &Ctx, trace: &str) -> String {
    rig::replay_case(ctx, "C08", trace)
}

#[test]
fn check() {
    let ctx = Ctx::new("C08");
    if let Some(t) = common::replay_trace() {
        let a = replay(&ctx, &t);
        let b = replay(&ctx, &t);
        common::report_replay("C08", &a, &b, ctx.violation_count() > 0);
        return;
    }
    ctx.rule("every script of exactly n polls (shorter scripts are their prefixes: silence follows anyway) in which the scripted UDP server reacts to each poll with any sequence of at most k datagrams, in every order, over {V valid (repeated = the same datagram again), O wrong origin/cookie, X the request reflected, D DENY, S RSTR, R RATE, U unknown KISS, A valid from 127.0.0.2, P valid from another port, T 5.5 s pass (what follows is late), Q (v5) valid asking for max+2, 0 1 2 4 7 = the first 0/1/2/4/47 bytes of a valid answer}, played against the real SourceTask::run, then silent polls until the task gives up; distinct = canonical observation differs");
    rig::common_assumptions(&ctx);
    let quick = ctx.quick();
    let full = "VOXDSRUAPTQ01247";
    let mut plans = Vec::new();
    // sequences of up to two datagrams per poll, every order, two polls
    plans.push(plan(cfg(Ver::V4, 4, 10, Ts::Kr), full, 2, 2));
    plans.push(plan(cfg(Ver::V4, 4, 10, Ts::Ka), "VODRUA27X", 2, 2));
    plans.push(plan(cfg(Ver::V5, 4, 10, Ts::Sw), "VODRUA27Q", 2, 2));
    plans.push(plan(cfg(Ver::Auto, 4, 10, Ts::Ka), "VODRUA27", 2, 2));
    // one datagram per poll, four polls
    let n = if quick { 4 } else { 5 };
    let single = "VOXDSRUAPTQ27";
    for c in [cfg(Ver::V4, 4, 10, Ts::Kr), cfg(Ver::V4, 4, 4, Ts::Sw), cfg(Ver::V5, 4, 10, Ts::Sw), cfg(Ver::Auto, 4, 10, Ts::Ka)] {
        plans.push(plan(c, single, 1, n));
    }
    if !quick {
        // up to three datagrams per poll
        plans.push(plan(cfg(Ver::V4, 4, 10, Ts::Sw), "VODUA27T", 3, 2));
        plans.push(plan(cfg(Ver::V5, 4, 10, Ts::Kr), "VODRA2", 3, 2));
        plans.push(plan(cfg(Ver::V4, 4, 4, Ts::Kr), "VODRUA27X", 2, 3));
    }
    rig::explore(&ctx, "C08", &plans);
    ctx.finish();
}
