//! c08_task (ntpd): not implemented yet.
