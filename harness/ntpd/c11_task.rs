//! c11_task (ntpd): not implemented yet.
