//! C11 (daemon level, group gs) + the shared rig of c08_task / c09_task / c10_task / c11_task.
//!
//! Subject: the REAL source task of the daemon — `SourceTask::run` in
//! `ntpd/src/daemon/ntp_source.rs` — i.e. the code that carries out what the library decides
//! (`NtpSourceAction::{Send, SetTimer, Reset, Demobilize}`): a real connected UDP socket per
//! poll (re-opened at every `Send`), the poll timer, `MsgForSystem` to the system task, the
//! published `ObservableSourceState` map, measurement delivery to the `SourceController`.
//! The library-level state machine itself is the subject of ntp_proto's c08..c11 (groups gd, ge).
//!
//! Rig
//! * The task is built exactly like `SourceTask::spawn` builds it (probe
//!   `ntp_source::verif_probe::gs::build`, a struct literal as in the crate's own tests) around
//!   `NtpManager::new_source(..)` — the production constructor — and its private `run` loop is
//!   polled by the harness on a current-thread tokio runtime whose clock is PAUSED: virtual time
//!   only moves when the harness advances it (by the duration the task asked its timer for, and
//!   by 5.5 s for the "late answer" symbol), so the duration handed to the poll timer is read
//!   exactly (`deadline - now`) and the library's 5 s answer window is under harness control.
//! * Poll timer = `ManualWait` (the generic `T: Wait` of `run`): fires when the harness says so,
//!   records every `reset(deadline)`.
//! * Clock = `SeqClock`: reading k is `BASE + k` seconds, so the send time stamp handed to the
//!   library can be tied to the request it belongs to.
//! * Controller = `RecCtl`: records every `handle_measurement` / `set_usable`; desire = min.
//! * "Server" = a plain `std::net::UdpSocket` on 127.0.0.1:P (P chosen by the kernel), plus
//!   127.0.0.2:P (other address, same port) and 127.0.0.1:P' (same address, other port). The
//!   harness reads every datagram the task emits with its own walker and builds answers at byte
//!   level from the request (48-byte v4 / v5 headers written field by field).
//! * The scripted server reacts to each poll with a SEQUENCE of datagrams ("atoms": valid answer,
//!   wrong origin, the reflected request, KISS codes, datagrams from other peers, truncated
//!   datagrams of 0/1/2/4/47 bytes, 5.5 s passing), in every order.
//! * Real-time nondeterminism is owned by SENTINELS: at every synchronisation point (end of the
//!   reaction, and before virtual time is advanced inside a reaction) the harness sends datagrams
//!   of 8..40 bytes (rotating size) from the server address; the task (rightly) ignores them
//!   without calling the library, but logs their size. "Nothing happened" is decided when the
//!   last sentinel has been logged by the task (tracing subscriber of this thread), never by a
//!   timeout; loopback delivery is in order, so everything sent before it has been consumed (or
//!   dropped by the kernel: the task's socket is connected). The rig does not DEPEND on that log
//!   line: one sentinel more than the number of foreign-peer datagrams is sent, and the count of
//!   datagrams the task took ("accept packet") is accepted as proof as well (see `flush`); a task
//!   that takes short datagrams without the log line is reported (`sentinel-unlogged`, cap +
//!   exhaustive=false) and a short datagram that produces a measurement is a C08 violation. The
//!   task never has the timer and a datagram ready at the same time, so `select!`'s random
//!   branch order is never exercised. Real-time dead-men (20 s for a timer firing, 10 s for a
//!   sentinel) turn a hang into `task-stuck` / a machinery note; after three expiries the
//!   exploration stops (cap, exhaustive=false) — never a hung test.
//! * One keeper time-stamping socket per process keeps kernel receive time stamping on
//!   (found by group gq: it is enabled lazily and switched off with the last stamping socket).
#![allow(dead_code)]

use std::collections::{BTreeMap, HashMap};
use std::future::Future;
use std::net::{IpAddr, Ipv4Addr, SocketAddr, UdpSocket};
use std::pin::Pin;
use std::sync::atomic::{AtomicU32, AtomicU64, Ordering};
use std::sync::{Arc, Mutex, RwLock};
use std::task::{Context, Poll};
use std::time::Duration;

use ntp_proto::{
    ClockId, Measurement, NtpClock, NtpDuration, NtpLeapIndicator, NtpManager, NtpTimestamp,
    ObservableSourceState, ObservableSourceTimedata, PollInterval, PollIntervalLimits,
    ProtocolVersion, SourceConfig, SourceController, SynchronizationConfig,
};

use super::common::{self, Ctx};
use crate::daemon::config::TimestampMode;
use crate::daemon::ntp_source::verif_probe::gs as probe;
use crate::daemon::ntp_source::{MsgForSystem, SourceChannels, Wait};
use crate::daemon::util::EPOCH_OFFSET;

// =======================================================================================
// keeper: kernel receive time stamping stays switched on for the whole process
// =======================================================================================

pub(super) fn ensure_timestamping() -> Result<(), String> {
    use timestamped_socket::socket::{GeneralTimestampMode, Open, Socket, open_ip};
    static KEEPER: std::sync::OnceLock<Result<(tokio::runtime::Runtime, Socket<SocketAddr, Open>), String>> =
        std::sync::OnceLock::new();
    let k = KEEPER.get_or_init(|| {
        let rt = tokio::runtime::Builder::new_current_thread().enable_all().build().map_err(|e| e.to_string())?;
        let sock = rt.block_on(async {
            let lo = IpAddr::V4(Ipv4Addr::LOCALHOST);
            let sock = open_ip(SocketAddr::new(lo, 0), GeneralTimestampMode::SoftwareRecv, false)
                .map_err(|e| format!("keeper socket: {e}"))?;
            let to = sock.local_addr();
            let tx = UdpSocket::bind(SocketAddr::new(lo, 0)).map_err(|e| e.to_string())?;
            let mut buf = [0u8; 16];
            let mut stamped = 0;
            for _ in 0..2000 {
                tx.send_to(&[0x55], to).map_err(|e| e.to_string())?;
                match tokio::time::timeout(Duration::from_secs(5), sock.recv(&mut buf)).await {
                    Ok(Ok(r)) if r.timestamp_data.selected_timestamp().is_some() => {
                        stamped += 1;
                        if stamped >= 3 {
                            return Ok(sock);
                        }
                    }
                    Ok(Ok(_)) => {
                        stamped = 0;
                        tokio::time::sleep(Duration::from_millis(5)).await;
                    }
                    Ok(Err(e)) => return Err(format!("keeper recv: {e}")),
                    Err(_) => return Err("keeper socket received nothing".to_string()),
                }
            }
            Err("the kernel never started stamping received datagrams".to_string())
        })?;
        Ok((rt, sock))
    });
    k.as_ref().map(|_| ()).map_err(|e| e.clone())
}

// =======================================================================================
// event log: what the task says it did (tracing events of this thread)
// =======================================================================================

#[derive(Default)]
pub(super) struct EvLog {
    /// "wait completed": the task took the timer branch
    pub timer: AtomicU64,
    /// "accept packet": the task took a datagram (or an error) from its socket
    pub recv: AtomicU64,
    /// "received packet is too small" with a sentinel size (8..=40): number of such events and
    /// the size of the last one
    pub small: AtomicU64,
    pub small_size: AtomicU64,
    /// "received packet is too small" with any other size (the short datagrams of the alphabet)
    pub small_other: AtomicU64,
    /// datagrams that came without a kernel time stamp (clock substituted)
    pub unstamped: AtomicU64,
    /// library / task warnings and debug lines by text (vacuity counters only, never judged)
    pub lines: Mutex<BTreeMap<String, u64>>,
}

/// Sentinel datagrams have 8..=40 bytes; the short datagrams of the alphabet have 0, 1, 2, 4, 47.
pub(super) const SENTINEL_MIN: u64 = 8;
pub(super) const SENTINEL_MAX: u64 = 40;

struct Sub(Arc<EvLog>);

#[derive(Default)]
struct Fields {
    msg: String,
    actual: Option<u64>,
}

impl tracing::field::Visit for Fields {
    fn record_u64(&mut self, field: &tracing::field::Field, value: u64) {
        if field.name() == "actual" {
            self.actual = Some(value);
        }
    }
    fn record_i64(&mut self, field: &tracing::field::Field, value: i64) {
        if field.name() == "actual" {
            self.actual = Some(value as u64);
        }
    }
    fn record_debug(&mut self, field: &tracing::field::Field, value: &dyn std::fmt::Debug) {
        if field.name() == "message" {
            use std::fmt::Write;
            let _ = write!(self.msg, "{value:?}");
        }
    }
}

impl tracing::Subscriber for Sub {
    fn enabled(&self, _metadata: &tracing::Metadata<'_>) -> bool {
        true
    }
    fn new_span(&self, _span: &tracing::span::Attributes<'_>) -> tracing::span::Id {
        tracing::span::Id::from_u64(1)
    }
    fn record(&self, _span: &tracing::span::Id, _values: &tracing::span::Record<'_>) {}
    fn record_follows_from(&self, _span: &tracing::span::Id, _follows: &tracing::span::Id) {}
    fn event(&self, event: &tracing::Event<'_>) {
        let mut f = Fields::default();
        event.record(&mut f);
        let log = &self.0;
        match f.msg.as_str() {
            "wait completed" => {
                log.timer.fetch_add(1, Ordering::SeqCst);
            }
            "accept packet" => {
                log.recv.fetch_add(1, Ordering::SeqCst);
            }
            "received packet is too small" => {
                let n = f.actual.unwrap_or(u64::MAX);
                if (SENTINEL_MIN..=SENTINEL_MAX).contains(&n) {
                    log.small_size.store(n, Ordering::SeqCst);
                    log.small.fetch_add(1, Ordering::SeqCst);
                } else {
                    log.small_other.fetch_add(1, Ordering::SeqCst);
                }
            }
            "received a packet without a timestamp, substituting" => {
                log.unstamped.fetch_add(1, Ordering::SeqCst);
            }
            other => {
                let mut key: String = other.chars().take(48).collect();
                if key.is_empty() {
                    key = "<no message>".to_string();
                }
                *log.lines.lock().unwrap().entry(key).or_insert(0) += 1;
            }
        }
    }
    fn enter(&self, _span: &tracing::span::Id) {}
    fn exit(&self, _span: &tracing::span::Id) {}
}

// =======================================================================================
// manual poll timer, clock, controller
// =======================================================================================

#[derive(Default)]
pub(super) struct WaitShared {
    fired: bool,
    waker: Option<std::task::Waker>,
    /// every `reset(deadline)`: deadline - now (virtual time, exact because the clock is paused)
    pub resets: Vec<Duration>,
}

pub(super) struct ManualWait(pub Arc<Mutex<WaitShared>>);

impl Future for ManualWait {
    type Output = ();
    fn poll(self: Pin<&mut Self>, cx: &mut Context<'_>) -> Poll<()> {
        let mut s = self.0.lock().unwrap();
        if s.fired {
            s.fired = false;
            s.waker = None;
            Poll::Ready(())
        } else {
            s.waker = Some(cx.waker().clone());
            Poll::Pending
        }
    }
}

impl Wait for ManualWait {
    fn reset(self: Pin<&mut Self>, deadline: tokio::time::Instant) {
        let now = tokio::time::Instant::now();
        self.0.lock().unwrap().resets.push(deadline.saturating_duration_since(now));
    }
}

pub(super) fn fire(w: &Arc<Mutex<WaitShared>>) {
    let mut s = w.lock().unwrap();
    s.fired = true;
    if let Some(wk) = s.waker.take() {
        wk.wake();
    }
}

/// Reading k (k = 0, 1, ..) is `CLOCK_BASE + k` seconds, fraction 0.
pub(super) const CLOCK_BASE: u32 = 0xE000_0000;

#[derive(Clone)]
pub(super) struct SeqClock(pub Arc<AtomicU32>);

impl SeqClock {
    pub(super) fn reading(k: u32) -> NtpTimestamp {
        NtpTimestamp::from_seconds_nanos_since_ntp_era(CLOCK_BASE.wrapping_add(k), 0)
    }
}

impl NtpClock for SeqClock {
    type Error = std::io::Error;
    fn now(&self) -> Result<NtpTimestamp, Self::Error> {
        let k = self.0.fetch_add(1, Ordering::SeqCst);
        Ok(Self::reading(k))
    }
    fn set_frequency(&self, _freq: f64) -> Result<NtpTimestamp, Self::Error> {
        self.now()
    }
    fn get_frequency(&self) -> Result<f64, Self::Error> {
        Ok(0.0)
    }
    fn step_clock(&self, _offset: NtpDuration) -> Result<NtpTimestamp, Self::Error> {
        self.now()
    }
    fn disable_ntp_algorithm(&self) -> Result<(), Self::Error> {
        Ok(())
    }
    fn error_estimate_update(&self, _e: NtpDuration, _m: NtpDuration) -> Result<(), Self::Error> {
        Ok(())
    }
    fn status_update(&self, _l: NtpLeapIndicator) -> Result<(), Self::Error> {
        Ok(())
    }
}

#[derive(Default)]
pub(super) struct Rec {
    pub meas: Vec<Measurement>,
    pub usable: Vec<bool>,
    /// `observe()` calls = snapshots the task published
    pub observes: u64,
}

pub(super) struct RecCtl {
    rec: Arc<Mutex<Rec>>,
    desired: PollInterval,
}

pub(super) fn rec_ctl(rec: Arc<Mutex<Rec>>, desired: PollInterval) -> RecCtl {
    RecCtl { rec, desired }
}

impl SourceController for RecCtl {
    fn handle_measurement(&mut self, measurement: Measurement) {
        self.rec.lock().unwrap().meas.push(measurement);
    }
    fn set_usable(&mut self, usable: bool) {
        self.rec.lock().unwrap().usable.push(usable);
    }
    fn desired_poll_interval(&self) -> PollInterval {
        self.desired
    }
    fn observe(&self) -> ObservableSourceTimedata {
        self.rec.lock().unwrap().observes += 1;
        ObservableSourceTimedata::default()
    }
}

// =======================================================================================
// configurations, script symbols, traces
// =======================================================================================

#[derive(Clone, Copy, Debug, PartialEq, Eq, Hash, PartialOrd, Ord)]
pub(super) enum Ver {
    V4,
    V5,
    /// `V4UpgradingToV5` with 8 tries — what the standard and pool spawners configure
    Auto,
}

#[derive(Clone, Copy, Debug, PartialEq, Eq, Hash, PartialOrd, Ord)]
pub(super) enum Ts {
    /// `TimestampMode::Software`: no kernel stamps, the task substitutes its clock
    Sw,
    /// `TimestampMode::KernelRecv` (what the crate's own tests use)
    Kr,
    /// `TimestampMode::KernelAll` (the Linux default): kernel send time stamps as well
    Ka,
}

#[derive(Clone, Copy, Debug, PartialEq, Eq, Hash, PartialOrd, Ord)]
pub(super) struct Cfg {
    pub ver: Ver,
    pub min: i8,
    pub max: i8,
    pub ts: Ts,
    /// poll exponent the (recording) controller desires
    pub des: i8,
    /// backpressure: the channel to the system task is filled to capacity with another source's
    /// messages before every timer firing, and drained only after the task has run
    pub bp: bool,
}

impl Cfg {
    pub(super) fn code(&self) -> String {
        format!(
            "{};{}-{};{}{}{}",
            match self.ver {
                Ver::V4 => "v4",
                Ver::V5 => "v5",
                Ver::Auto => "auto",
            },
            self.min,
            self.max,
            match self.ts {
                Ts::Sw => "sw",
                Ts::Kr => "kr",
                Ts::Ka => "ka",
            },
            if self.des == self.min { String::new() } else { format!(";d{}", self.des) },
            if self.bp { ";bp" } else { "" }
        )
    }
    pub(super) fn parse(s: &str) -> Option<Cfg> {
        let p: Vec<&str> = s.split(';').collect();
        if p.len() < 3 || p.len() > 5 {
            return None;
        }
        let ver = match p[0] {
            "v4" => Ver::V4,
            "v5" => Ver::V5,
            "auto" => Ver::Auto,
            _ => return None,
        };
        let (a, b) = p[1].split_once('-')?;
        let ts = match p[2] {
            "sw" => Ts::Sw,
            "kr" => Ts::Kr,
            "ka" => Ts::Ka,
            _ => return None,
        };
        let min: i8 = a.parse().ok()?;
        let mut des = min;
        let mut bp = false;
        for extra in &p[3..] {
            if *extra == "bp" {
                bp = true;
            } else {
                des = extra.strip_prefix('d')?.parse().ok()?;
            }
        }
        Some(Cfg { ver, min, max: b.parse().ok()?, ts, des, bp })
    }
}

/// One datagram (or the passing of time) in the scripted server's reaction to a poll. A reaction
/// is a sequence of atoms; the empty sequence (`N` in traces) is "no answer".
#[derive(Clone, Copy, Debug, PartialEq, Eq, Hash, PartialOrd, Ord)]
pub(super) enum Atom {
    /// valid answer (stratum 2, server mode, identifier of this request, from the server address);
    /// a second `V` in the same poll re-sends the very same datagram (a duplicate)
    V,
    /// answer from the server address whose origin time stamp / client cookie is not the request's
    O,
    /// the request itself, reflected (client mode, origin field not the request's identifier)
    X,
    /// KISS DENY (v5: stratum 0, poll 127)
    D,
    /// KISS RSTR (v4 only; NTPv5 has no such code)
    S,
    /// KISS RATE (v5: stratum 0, poll own+1)
    R,
    /// unknown KISS code (v4 "XXXX"; v5: stratum 0, poll own)
    U,
    /// valid answer sent from another address (127.0.0.2, same port)
    A,
    /// valid answer sent from the server's address but another port
    P,
    /// 5.5 s of virtual time pass: everything after it in this poll is outside the poll window
    T,
    /// NTPv5 only: valid answer whose poll field asks for max+2 / max+1 / 18 / 20
    Q,
    J,
    G,
    H,
    /// the first 0 / 1 / 2 / 4 / 47 bytes of a valid answer, from the server address
    Z0,
    Z1,
    Z2,
    Z4,
    Z47,
}

impl Atom {
    pub(super) const ALL: [Atom; 19] = [
        Atom::V,
        Atom::O,
        Atom::X,
        Atom::D,
        Atom::S,
        Atom::R,
        Atom::U,
        Atom::A,
        Atom::P,
        Atom::T,
        Atom::Q,
        Atom::J,
        Atom::G,
        Atom::H,
        Atom::Z0,
        Atom::Z1,
        Atom::Z2,
        Atom::Z4,
        Atom::Z47,
    ];
    pub(super) fn ch(self) -> char {
        match self {
            Atom::V => 'V',
            Atom::O => 'O',
            Atom::X => 'X',
            Atom::D => 'D',
            Atom::S => 'S',
            Atom::R => 'R',
            Atom::U => 'U',
            Atom::A => 'A',
            Atom::P => 'P',
            Atom::T => 'T',
            Atom::Q => 'Q',
            Atom::J => 'J',
            Atom::G => 'G',
            Atom::H => 'H',
            Atom::Z0 => '0',
            Atom::Z1 => '1',
            Atom::Z2 => '2',
            Atom::Z4 => '4',
            Atom::Z47 => '7',
        }
    }
    pub(super) fn from_ch(c: char) -> Option<Atom> {
        Atom::ALL.into_iter().find(|s| s.ch() == c)
    }
    /// Does the atom exist for this kind of source?
    pub(super) fn applies(self, ver: Ver) -> bool {
        match self {
            Atom::S => ver == Ver::V4,
            Atom::Q | Atom::J | Atom::G | Atom::H => ver == Ver::V5,
            _ => true,
        }
    }
    /// A full-size, well-formed answer with the identifier of the request, from the server address.
    pub(super) fn valid_shape(self) -> bool {
        matches!(self, Atom::V | Atom::Q | Atom::J | Atom::G | Atom::H)
    }
    pub(super) fn short_len(self) -> Option<usize> {
        match self {
            Atom::Z0 => Some(0),
            Atom::Z1 => Some(1),
            Atom::Z2 => Some(2),
            Atom::Z4 => Some(4),
            Atom::Z47 => Some(47),
            _ => None,
        }
    }
    /// poll exponent a `Q`-like answer asks for
    pub(super) fn asks(self, max: i8) -> Option<i8> {
        match self {
            Atom::Q => Some(max.saturating_add(2)),
            Atom::J => Some(max.saturating_add(1)),
            Atom::G => Some(18),
            Atom::H => Some(20),
            _ => None,
        }
    }
}

pub(super) fn reaction_code(r: &[Atom]) -> String {
    if r.is_empty() { "N".to_string() } else { r.iter().map(|a| a.ch()).collect() }
}

/// All atoms by their trace letters, e.g. `atoms("VOD2")`.
pub(super) fn atoms(s: &str) -> Vec<Atom> {
    s.chars().map(|c| Atom::from_ch(c).expect("atom letter")).collect()
}

#[derive(Clone, Debug, PartialEq, Eq, Hash)]
pub(super) struct Case {
    pub cfg: Cfg,
    /// one reaction (sequence of atoms) per poll
    pub script: Vec<Vec<Atom>>,
}

impl Case {
    /// `cfg;poll.poll.poll`, each poll a word of atom letters, `N` = no answer
    pub(super) fn trace(&self) -> String {
        format!("{};{}", self.cfg.code(), self.script.iter().map(|r| reaction_code(r)).collect::<Vec<_>>().join("."))
    }
    pub(super) fn parse(s: &str) -> Option<Case> {
        let s = s.trim();
        let (c, script) = s.rsplit_once(';')?;
        // the desire part `dN` is the last part of the configuration, not a script
        let (c, script) = if script.starts_with('d') && script[1..].parse::<i8>().is_ok() { (s, "") } else { (c, script) };
        let cfg = Cfg::parse(c)?;
        let mut out = Vec::new();
        for poll in script.split('.') {
            if poll.is_empty() || poll == "N" {
                out.push(Vec::new());
                continue;
            }
            let r: Option<Vec<Atom>> = poll.chars().map(Atom::from_ch).collect();
            out.push(r?);
        }
        Some(Case { cfg, script: out })
    }
}

// =======================================================================================
// wire: request walker, answer builder (byte level, no NtpPacket)
// =======================================================================================

const UPGRADE_MARKER: [u8; 8] = *b"NTP5DRFT";
const DRAFT: &[u8] = b"draft-ietf-ntp-ntpv5-09";

#[derive(Clone, Debug)]
pub(super) struct Req {
    pub from: SocketAddr,
    pub len: usize,
    pub version: u8,
    pub mode: u8,
    /// poll exponent on the wire
    pub poll: i8,
    /// v4: transmit time stamp; v5: client cookie
    pub id8: [u8; 8],
    /// v4 request carrying the NTPv5 upgrade marker
    pub marker: bool,
    /// index of the last clock reading taken before the datagram was seen (= the send time stamp)
    pub clock_k: u32,
    /// the datagram as it left the task
    pub bytes: Vec<u8>,
}

pub(super) fn parse_req(bytes: &[u8], from: SocketAddr, clock_k: u32) -> Option<Req> {
    if bytes.len() < 48 {
        return None;
    }
    let version = (bytes[0] >> 3) & 7;
    let mut id8 = [0u8; 8];
    if version == 5 {
        id8.copy_from_slice(&bytes[24..32]);
    } else {
        id8.copy_from_slice(&bytes[40..48]);
    }
    Some(Req {
        from,
        len: bytes.len(),
        version,
        mode: bytes[0] & 7,
        poll: bytes[2] as i8,
        id8,
        marker: version == 4 && bytes[16..24] == UPGRADE_MARKER,
        clock_k,
        bytes: bytes.to_vec(),
    })
}

#[derive(Clone, Copy, Debug, PartialEq, Eq)]
pub(super) enum Kind {
    Valid,
    /// valid, poll field = this value (NTPv5 server request)
    ValidAsking(i8),
    WrongOrigin,
    Deny,
    Rstr,
    Rate,
    Unknown,
}

pub(super) const RECV_BASE: u32 = 0xA000_0000;
pub(super) const XMIT_BASE: u32 = 0xB000_0000;

/// Answer to `req` in the version of the request. `serial` makes the receive / transmit time
/// stamps of every answer unique (seconds field; fraction 0) so that a delivered measurement can
/// be tied to the datagram it came from.
pub(super) fn build_answer(req: &Req, kind: Kind, serial: u32) -> Vec<u8> {
    let usable = matches!(kind, Kind::Valid | Kind::ValidAsking(_));
    let stratum: u8 = if usable || kind == Kind::WrongOrigin { 2 } else { 0 };
    let mut id8 = req.id8;
    if kind == Kind::WrongOrigin {
        id8[7] ^= 0x01;
        id8[0] ^= 0x80;
    }
    let mut recv = [0u8; 8];
    recv[..4].copy_from_slice(&(RECV_BASE + serial).to_be_bytes());
    let mut xmit = [0u8; 8];
    xmit[..4].copy_from_slice(&(XMIT_BASE + serial).to_be_bytes());
    let own = req.poll as u8;
    let mut d = Vec::with_capacity(80);
    if req.version == 5 {
        d.push((5 << 3) | 4);
        d.push(stratum);
        d.push(match kind {
            Kind::Rate => own.saturating_add(1).min(126),
            Kind::Deny => 127,
            Kind::ValidAsking(p) => p as u8,
            _ => own,
        });
        d.push(0xE8); // precision
        d.extend_from_slice(&[0, 0, 0x10, 0]); // root delay (time32)
        d.extend_from_slice(&[0, 0, 0x20, 0]); // root dispersion (time32)
        d.push(0); // timescale UTC
        d.push(0); // era
        d.extend_from_slice(&[0, if stratum != 0 { 1 } else { 0 }]); // flags: synchronized
        d.extend_from_slice(b"SRVCOOKI");
        d.extend_from_slice(&id8);
        d.extend_from_slice(&recv);
        d.extend_from_slice(&xmit);
        d.extend_from_slice(&0xF5FFu16.to_be_bytes());
        d.extend_from_slice(&((4 + DRAFT.len()) as u16).to_be_bytes());
        d.extend_from_slice(DRAFT);
        while d.len() % 4 != 0 {
            d.push(0);
        }
    } else {
        d.push((req.version << 3) | 4);
        d.push(stratum);
        d.push(own);
        d.push(0xE8);
        d.extend_from_slice(&[0, 0, 0x01, 0]); // root delay
        d.extend_from_slice(&[0, 0, 0x02, 0]); // root dispersion
        let refid: [u8; 4] = match kind {
            Kind::Deny => *b"DENY",
            Kind::Rstr => *b"RSTR",
            Kind::Rate => *b"RATE",
            Kind::Unknown => *b"XXXX",
            _ => *b"VRF\0",
        };
        d.extend_from_slice(&refid);
        if usable && req.marker {
            // a server that speaks NTPv5 mirrors the marker (only in usable answers, as ntpd-rs does)
            d.extend_from_slice(&UPGRADE_MARKER);
        } else {
            d.extend_from_slice(&[0xD0, 0, 0, 0, 0, 0, 0, 1]);
        }
        d.extend_from_slice(&id8);
        d.extend_from_slice(&recv);
        d.extend_from_slice(&xmit);
    }
    d
}

// =======================================================================================
// observations
// =======================================================================================

#[derive(Clone, Copy, Debug, PartialEq, Eq, Hash)]
pub(super) enum MsgKind {
    Unreachable,
    MustDemobilize,
    NetworkIssue,
    /// a message carrying another source's id
    ForeignId,
}

impl MsgKind {
    fn code(self) -> &'static str {
        match self {
            MsgKind::Unreachable => "unreachable",
            MsgKind::MustDemobilize => "demobilize",
            MsgKind::NetworkIssue => "network-issue",
            MsgKind::ForeignId => "foreign-id",
        }
    }
}

#[derive(Clone, Debug)]
pub(super) struct Sent {
    pub atom: Atom,
    /// serial of the answer's receive / transmit time stamps (0 for `T`, `X`)
    pub serial: u32,
    /// 0 = server address, 1 = other address, 2 = other port, 9 = nothing sent (`T`)
    pub via: u8,
    /// sent after 5.5 s of virtual time had passed in this poll
    pub late: bool,
    pub len: usize,
    /// datagrams (answers and sentinels) the server address had sent to the task in this poll
    /// before this one: each of them costs the task one clock reading in Software mode
    pub rx_before: u32,
}

#[derive(Clone, Debug, Default)]
pub(super) struct StepObs {
    /// the request seen on the wire after the timer fired
    pub req: Option<Req>,
    /// further datagrams seen at the server (or the other sockets) during the step
    pub extra_datagrams: usize,
    /// datagrams shorter than 48 bytes / unparsable seen at the server
    pub odd_datagrams: usize,
    pub resets: Vec<Duration>,
    pub msgs: Vec<MsgKind>,
    pub finished: bool,
    pub panicked: Option<String>,
    pub meas: Vec<Measurement>,
    pub usable_calls: Vec<bool>,
    /// published state after the step: (unanswered polls, poll exponent, address text)
    pub snap: Option<(u32, i8, String)>,
    pub snap_foreign_entries: usize,
    pub observes: u64,
    /// index of the first clock reading of the step, number of readings in the step
    pub clock_first: u32,
    pub clock_reads: u32,
    pub timer_events: u64,
    pub recv_events: u64,
    pub unstamped: u64,
    pub sent: Vec<Sent>,
    /// phase 1: the timer fired and neither a datagram nor a message nor the end of the task followed
    pub stuck: Option<String>,
    /// phase 2: the rig lost track of its sentinel (machinery, not a verdict)
    pub sentinel_lost: Option<String>,
    /// the sentinel was consumed (datagram count) without the "too small" log line
    pub sentinel_unlogged: bool,
    /// "too small" log lines for the short datagrams of the alphabet
    pub short_logged: u64,
    /// backpressure mode: filler messages put into / taken out of the channel in this step, and
    /// whether the channel was full when the timer fired
    pub fillers_in: u64,
    pub fillers_out: u64,
    pub channel_full_at_timer: bool,
    /// real time around the step (seconds since the unix epoch), for kernel time stamps
    pub real_before: f64,
    pub real_after: f64,
}

#[derive(Clone, Debug, Default)]
pub(super) struct CaseObs {
    /// the id the source was created with
    pub index: Option<ClockId>,
    pub steps: Vec<StepObs>,
    /// steps after the task reported Unreachable / MustDemobilize / ended (timer fired again)
    pub epilogue: Vec<StepObs>,
    pub stale_datagrams: usize,
    pub machinery: Option<String>,
}

// =======================================================================================
// the worker: runtime + sockets + log, reused for many cases
// =======================================================================================

pub(super) struct Io {
    pub log: Arc<EvLog>,
    pub server: UdpSocket,
    pub alt_ip: UdpSocket,
    pub alt_port: UdpSocket,
    pub server_addr: SocketAddr,
    serial: u32,
    sentinel: u64,
}

impl Io {
    pub(super) fn next_serial(&mut self) -> u32 {
        self.serial += 1;
        self.serial
    }
    /// Send the next sentinel to the task's socket; returns (size, sentinel log lines so far).
    pub(super) fn send_sentinel(&mut self, to: SocketAddr) -> Result<(u64, u64), String> {
        self.sentinel = if self.sentinel < SENTINEL_MIN || self.sentinel >= SENTINEL_MAX { SENTINEL_MIN } else { self.sentinel + 1 };
        let size = self.sentinel;
        let before = self.log.small.load(Ordering::SeqCst);
        // first byte: LI 1, VN 3, mode 6 - never a server-mode answer, whatever follows it
        self.server.send_to(&vec![0x5E; size as usize], to).map_err(|e| format!("send sentinel: {e}"))?;
        Ok((size, before))
    }
    pub(super) fn sentinel_seen(&self, size: u64, before: u64) -> bool {
        self.log.small.load(Ordering::SeqCst) > before && self.log.small_size.load(Ordering::SeqCst) == size
    }
}

pub(super) struct Worker {
    pub(super) rt: tokio::runtime::Runtime,
    _guard: tracing::subscriber::DefaultGuard,
    pub io: Io,
}

pub(super) fn deadman() -> Duration {
    let s = std::env::var("VERIF_GS_DEADMAN_S").ok().and_then(|v| v.parse::<f64>().ok()).unwrap_or(20.0);
    Duration::from_secs_f64(s)
}

impl Worker {
    pub(super) fn new() -> Result<Worker, String> {
        ensure_timestamping()?;
        let log = Arc::new(EvLog::default());
        let guard = tracing::subscriber::set_default(Sub(log.clone()));
        let rt = tokio::runtime::Builder::new_current_thread()
            .enable_all()
            .start_paused(true)
            .build()
            .map_err(|e| format!("runtime: {e}"))?;
        let lo = Ipv4Addr::LOCALHOST;
        let lo2 = Ipv4Addr::new(127, 0, 0, 2);
        let mut last = String::new();
        for _ in 0..200 {
            let server = UdpSocket::bind((lo, 0)).map_err(|e| format!("bind server: {e}"))?;
            let server_addr = server.local_addr().map_err(|e| e.to_string())?;
            let alt_ip = match UdpSocket::bind((lo2, server_addr.port())) {
                Ok(s) => s,
                Err(e) => {
                    last = format!("bind 127.0.0.2:{}: {e}", server_addr.port());
                    continue;
                }
            };
            let alt_port = UdpSocket::bind((lo, 0)).map_err(|e| format!("bind alt port: {e}"))?;
            for s in [&server, &alt_ip, &alt_port] {
                s.set_nonblocking(true).map_err(|e| e.to_string())?;
            }
            return Ok(Worker {
                rt,
                _guard: guard,
                io: Io { log, server, alt_ip, alt_port, server_addr, serial: 0, sentinel: 0 },
            });
        }
        Err(format!("no usable server port: {last}"))
    }

    pub(super) fn run(&mut self, case: &Case) -> CaseObs {
        let Worker { rt, io, .. } = self;
        rt.block_on(drive(io, case))
    }
}

type TaskFut = Pin<Box<dyn Future<Output = ()>>>;

struct Live {
    fut: Option<TaskFut>,
    panicked: Option<String>,
    wait: Arc<Mutex<WaitShared>>,
    rec: Arc<Mutex<Rec>>,
    clock: Arc<AtomicU32>,
    msgs: tokio::sync::mpsc::Receiver<MsgForSystem>,
    snaps: Arc<RwLock<HashMap<ClockId, ObservableSourceState>>>,
    index: ClockId,
    /// where the task's current socket lives (source address of its last request)
    task_addr: Option<SocketAddr>,
    last_req: Option<Req>,
    /// virtual time still to pass before the next timer firing
    pending_advance: Duration,
    /// backpressure mode: a second sender of the task's channel, and the id its fillers carry
    filler: Option<(tokio::sync::mpsc::Sender<MsgForSystem>, ClockId)>,
}

fn unix_now() -> f64 {
    std::time::SystemTime::now().duration_since(std::time::UNIX_EPOCH).map(|d| d.as_secs_f64()).unwrap_or(0.0)
}

/// One scheduling round: poll the task once (if it is alive), then let the runtime poll its
/// I/O driver so that socket readiness reaches the task's waker.
async fn round(live: &mut Live) {
    if live.fut.is_some() {
        let mut done = false;
        let mut panicked = None;
        std::future::poll_fn(|cx| {
            if let Some(f) = live.fut.as_mut() {
                match common::catch(|| f.as_mut().poll(cx)) {
                    Ok(Poll::Ready(())) => done = true,
                    Ok(Poll::Pending) => {}
                    Err(p) => {
                        panicked = Some(p);
                        done = true;
                    }
                }
            }
            Poll::Ready(())
        })
        .await;
        if done {
            live.fut = None;
        }
        if panicked.is_some() {
            live.panicked = panicked;
        }
    }
    tokio::task::yield_now().await;
}

pub(super) fn msg_kind(m: &MsgForSystem, index: ClockId) -> MsgKind {
    match m {
        MsgForSystem::Unreachable(i) if *i == index => MsgKind::Unreachable,
        MsgForSystem::MustDemobilize(i) if *i == index => MsgKind::MustDemobilize,
        MsgForSystem::NetworkIssue(i) if *i == index => MsgKind::NetworkIssue,
        _ => MsgKind::ForeignId,
    }
}

struct Marks {
    resets: usize,
    meas: usize,
    usable: usize,
    observes: u64,
    clock: u32,
    timer: u64,
    recv: u64,
    unstamped: u64,
}

fn marks(io: &Io, live: &Live) -> Marks {
    let rec = live.rec.lock().unwrap();
    Marks {
        resets: live.wait.lock().unwrap().resets.len(),
        meas: rec.meas.len(),
        usable: rec.usable.len(),
        observes: rec.observes,
        clock: live.clock.load(Ordering::SeqCst),
        timer: io.log.timer.load(Ordering::SeqCst),
        recv: io.log.recv.load(Ordering::SeqCst),
        unstamped: io.log.unstamped.load(Ordering::SeqCst),
    }
}

/// Back off a little once a wait takes unusually long, so a descheduled kernel path does not
/// cost a whole core; never decides anything.
pub(super) fn backoff(rounds: u32) {
    if rounds > 64 {
        std::thread::sleep(Duration::from_micros(if rounds > 2000 { 1000 } else { 50 }));
    }
}

/// What has been sent to the task's socket since the last synchronisation point.
struct Pend {
    /// "accept packet" events at the last synchronisation point
    recv0: u64,
    from_server: u64,
    foreign: u64,
}

/// Synchronisation point: sentinels — short datagrams from the server address which the task
/// must ignore but logs. One more than the number of datagrams sent from foreign peers since the
/// last point, so that the datagram COUNT alone proves that everything before the first sentinel
/// has been consumed even if the task (wrongly) takes foreign datagrams or does not log short
/// ones. Done when
///  (i)   the log line of the LAST sentinel appeared: everything has been consumed; or
///  (ii)  as many datagrams were taken as were sent in total; or
///  (iii) as many datagrams were taken as the server address sent (answers + sentinels) while
///        not a single sentinel log line has appeared — at least one sentinel is among them, so
///        this task evidently does not log short datagrams and (i) will never come.
/// Returns the number of sentinels sent (each costs the task a clock reading in Software mode).
async fn flush(io: &mut Io, live: &mut Live, o: &mut StepObs, to: SocketAddr, pend: &mut Pend, dead: Duration) -> u32 {
    let small0 = io.log.small.load(Ordering::SeqCst);
    let mut last = (0u64, u64::MAX);
    let mut n_sent = 0u64;
    for _ in 0..=pend.foreign {
        match io.send_sentinel(to) {
            Ok(x) => {
                last = x;
                n_sent += 1;
            }
            Err(e) => o.sentinel_lost = Some(e),
        }
    }
    let t0 = std::time::Instant::now();
    let mut rounds = 0u32;
    let wait = Duration::from_secs(10).min(dead);
    while o.sentinel_lost.is_none() {
        round(live).await;
        let taken = io.log.recv.load(Ordering::SeqCst) - pend.recv0;
        if io.sentinel_seen(last.0, last.1) || taken >= pend.from_server + pend.foreign + n_sent {
            break;
        }
        if taken >= pend.from_server + n_sent && io.log.small.load(Ordering::SeqCst) == small0 {
            break;
        }
        if live.fut.is_none() {
            break;
        }
        rounds += 1;
        backoff(rounds);
        if t0.elapsed() > wait {
            o.sentinel_lost = Some(format!(
                "sentinel of {} bytes not consumed within {:?}: {} datagrams taken of {} + {} foreign + {} sentinels",
                last.0, wait, taken, pend.from_server, pend.foreign, n_sent
            ));
            break;
        }
    }
    if io.log.small.load(Ordering::SeqCst) == small0 && live.fut.is_some() && o.sentinel_lost.is_none() {
        o.sentinel_unlogged = true;
    }
    pend.recv0 = io.log.recv.load(Ordering::SeqCst);
    pend.from_server = 0;
    pend.foreign = 0;
    n_sent as u32
}

/// Fire the poll timer and play `sym` against whatever the task sends.
async fn step(io: &mut Io, live: &mut Live, reaction: &[Atom], max: i8, dead: Duration) -> StepObs {
    let mut o = StepObs::default();
    let m0 = marks(io, live);
    o.clock_first = m0.clock;
    o.real_before = unix_now();
    if live.fut.is_some() && !live.pending_advance.is_zero() {
        tokio::time::advance(live.pending_advance).await;
    }
    live.pending_advance = Duration::ZERO;
    if let Some((tx, other)) = &live.filler {
        // the system task is busy: the channel is full of another source's reports
        while tx.try_send(MsgForSystem::Unreachable(*other)).is_ok() {
            o.fillers_in += 1;
        }
        o.channel_full_at_timer = tx.capacity() == 0;
    }
    let bp = live.filler.is_some();
    fire(&live.wait);

    // phase 1: the timer's effect — a datagram on the wire, a message, or the end of the task
    let t0 = std::time::Instant::now();
    let mut rounds = 0u32;
    let mut buf = [0u8; 2048];
    loop {
        round(live).await;
        match io.server.recv_from(&mut buf) {
            Ok((n, from)) => {
                let k = live.clock.load(Ordering::SeqCst).wrapping_sub(1);
                match parse_req(&buf[..n], from, k) {
                    Some(r) => {
                        o.req = Some(r);
                        break;
                    }
                    None => o.odd_datagrams += 1,
                }
            }
            Err(e) if e.kind() == std::io::ErrorKind::WouldBlock => {}
            Err(e) => {
                o.stuck = Some(format!("server socket: {e}"));
                break;
            }
        }
        // (the task has just been polled with the channel as it was; only now the system task
        // gets round to reading)
        while let Ok(m) = live.msgs.try_recv() {
            let k = msg_kind(&m, live.index);
            if bp && k == MsgKind::ForeignId {
                o.fillers_out += 1;
            } else {
                o.msgs.push(k);
            }
        }
        if !o.msgs.is_empty() || (live.fut.is_none() && !(bp && o.fillers_out < o.fillers_in)) {
            break;
        }
        rounds += 1;
        backoff(rounds);
        if t0.elapsed() > dead {
            if bp {
                // the wait for the report after the drain is rig business: cap, not a verdict
                o.sentinel_lost = Some("backpressure: timer fired, channel drained, neither datagram nor report nor end of task".to_string());
            } else {
                o.stuck = Some("timer fired: no datagram, no message, task still running".to_string());
            }
            break;
        }
    }

    // phase 2: the scripted server's reaction, then the sentinel(s)
    let mut passed = Duration::ZERO;
    if let Some(req) = o.req.clone() {
        live.task_addr = Some(req.from);
        live.last_req = Some(req.clone());
        let short0 = io.log.small_other.load(Ordering::SeqCst);
        let mut late = false;
        let mut valid: Option<(Vec<u8>, u32)> = None;
        let mut pend = Pend { recv0: io.log.recv.load(Ordering::SeqCst), from_server: 0, foreign: 0 };
        let mut rx_total = 0u32;
        for &atom in reaction {
            if atom == Atom::T {
                // time passes AFTER everything sent so far has been consumed
                if pend.from_server + pend.foreign > 0 {
                    rx_total += flush(io, live, &mut o, req.from, &mut pend, dead).await;
                }
                tokio::time::advance(Duration::from_millis(5500)).await;
                passed += Duration::from_millis(5500);
                late = true;
                o.sent.push(Sent { atom, serial: 0, via: 9, late, len: 0, rx_before: rx_total });
                continue;
            }
            let via = match atom {
                Atom::A => 1,
                Atom::P => 2,
                _ => 0,
            };
            let (bytes, serial) = match atom {
                // a repeated `V` is the very same datagram again
                Atom::V => match &valid {
                    Some((b, s)) => (b.clone(), *s),
                    None => {
                        let s = io.next_serial();
                        let b = build_answer(&req, Kind::Valid, s);
                        valid = Some((b.clone(), s));
                        (b, s)
                    }
                },
                Atom::X => (req.bytes.clone(), 0),
                _ => {
                    let s = io.next_serial();
                    let kind = match atom {
                        Atom::O => Kind::WrongOrigin,
                        Atom::D => Kind::Deny,
                        Atom::S => Kind::Rstr,
                        Atom::R => Kind::Rate,
                        Atom::U => Kind::Unknown,
                        Atom::Q | Atom::J | Atom::G | Atom::H => Kind::ValidAsking(atom.asks(max).unwrap_or(max)),
                        _ => Kind::Valid,
                    };
                    let mut b = build_answer(&req, kind, s);
                    if let Some(n) = atom.short_len() {
                        b.truncate(n);
                    }
                    (b, s)
                }
            };
            let sock = match via {
                0 => &io.server,
                1 => &io.alt_ip,
                _ => &io.alt_port,
            };
            if let Err(e) = sock.send_to(&bytes, req.from) {
                o.sentinel_lost = Some(format!("send answer: {e}"));
            }
            o.sent.push(Sent { atom, serial, via, late, len: bytes.len(), rx_before: rx_total });
            if via == 0 {
                pend.from_server += 1;
                rx_total += 1;
            } else {
                pend.foreign += 1;
            }
        }
        flush(io, live, &mut o, req.from, &mut pend, dead).await;
        o.short_logged = io.log.small_other.load(Ordering::SeqCst) - short0;
    }

    // collect
    for sock in [&io.server, &io.alt_ip, &io.alt_port] {
        loop {
            match sock.recv_from(&mut buf) {
                Ok(_) => o.extra_datagrams += 1,
                Err(_) => break,
            }
        }
    }
    while let Ok(m) = live.msgs.try_recv() {
        let k = msg_kind(&m, live.index);
        if bp && k == MsgKind::ForeignId {
            o.fillers_out += 1;
        } else {
            o.msgs.push(k);
        }
    }
    let m1 = marks(io, live);
    {
        let w = live.wait.lock().unwrap();
        o.resets = w.resets[m0.resets..].to_vec();
    }
    {
        let rec = live.rec.lock().unwrap();
        o.meas = rec.meas[m0.meas..].to_vec();
        o.usable_calls = rec.usable[m0.usable..].to_vec();
    }
    o.observes = m1.observes - m0.observes;
    o.clock_reads = m1.clock.wrapping_sub(m0.clock);
    o.timer_events = m1.timer - m0.timer;
    o.recv_events = m1.recv - m0.recv;
    o.unstamped = m1.unstamped - m0.unstamped;
    o.finished = live.fut.is_none();
    o.panicked = live.panicked.clone();
    {
        let map = live.snaps.read().unwrap();
        o.snap = map.get(&live.index).map(|s| (s.unanswered_polls, s.poll_interval.as_log(), s.address.clone()));
        o.snap_foreign_entries = map.len() - usize::from(o.snap.is_some());
    }
    // the task asked for this much time until its next poll
    if let Some(d) = o.resets.last() {
        live.pending_advance = d.saturating_sub(passed);
    }
    o.real_after = unix_now();
    o
}

/// Number of silent polls appended to every script: enough for a source that was answered in
/// the last scripted poll to miss eight polls and meet its ninth timer, plus one.
pub(super) const TAIL: usize = 10;

async fn drive(io: &mut Io, case: &Case) -> CaseObs {
    let mut out = CaseObs::default();
    let mut buf = [0u8; 2048];
    for sock in [&io.server, &io.alt_ip, &io.alt_port] {
        while sock.recv_from(&mut buf).is_ok() {
            out.stale_datagrams += 1;
        }
    }
    let cfg = case.cfg;
    let limits = PollIntervalLimits {
        min: PollInterval::from_byte(cfg.min as u8),
        max: PollInterval::from_byte(cfg.max as u8),
    };
    let source_config = SourceConfig { poll_interval_limits: limits, initial_poll_interval: limits.min };
    let pv = match cfg.ver {
        Ver::V4 => ProtocolVersion::V4,
        Ver::V5 => ProtocolVersion::V5,
        Ver::Auto => ProtocolVersion::v4_upgrading_to_v5_with_default_tries(),
    };
    let index = ClockId::new();
    out.index = Some(index);
    let rec = Arc::new(Mutex::new(Rec::default()));
    let clock = Arc::new(AtomicU32::new(0));
    let wait = Arc::new(Mutex::new(WaitShared::default()));
    let snaps: Arc<RwLock<HashMap<ClockId, ObservableSourceState>>> = Arc::new(RwLock::new(HashMap::new()));
    // the capacity the daemon gives this channel
    let (tx, rx) = tokio::sync::mpsc::channel(crate::daemon::system::MESSAGE_BUFFER_SIZE);
    let filler = if cfg.bp { Some((tx.clone(), ClockId::new())) } else { None };
    // exactly what `System::create_source` does, with a recording controller
    let manager = NtpManager::new(SynchronizationConfig::default(), Arc::new([]));
    let (source, initial) = manager.new_source(
        io.server_addr,
        source_config,
        pv,
        RecCtl { rec: rec.clone(), desired: PollInterval::from_byte(cfg.des as u8) },
        None,
        index,
    );
    let initial: Vec<ntp_proto::NtpSourceAction> = initial.collect();
    if !(initial.len() == 1 && matches!(initial[0], ntp_proto::NtpSourceAction::SetTimer(d) if d.is_zero())) {
        out.machinery = Some(format!("unexpected initial actions: {initial:?}"));
    }
    let mut task = probe::build::<SeqClock, RecCtl, ManualWait>(
        index,
        "verif".to_string(),
        io.server_addr,
        SeqClock(clock.clone()),
        match cfg.ts {
            Ts::Sw => TimestampMode::Software,
            Ts::Kr => TimestampMode::KernelRecv,
            Ts::Ka => TimestampMode::KernelAll,
        },
        SourceChannels { msg_for_system_sender: tx, source_snapshots: snaps.clone() },
        source,
    );
    let w = ManualWait(wait.clone());
    let fut: TaskFut = Box::pin(async move {
        tokio::pin!(w);
        probe::run(&mut task, w).await;
    });
    let mut live = Live {
        fut: Some(fut),
        panicked: None,
        wait,
        rec,
        clock,
        msgs: rx,
        snaps,
        index,
        task_addr: None,
        last_req: None,
        pending_advance: Duration::ZERO,
        filler,
    };
    let dead = deadman();
    let total = case.script.len() + TAIL;
    for i in 0..total {
        let none: Vec<Atom> = Vec::new();
        let reaction = case.script.get(i).unwrap_or(&none);
        let o = step(io, &mut live, reaction, cfg.max, dead).await;
        let stop = o.finished || !o.msgs.is_empty() || o.stuck.is_some() || o.sentinel_lost.is_some() || o.req.is_none();
        out.steps.push(o);
        if stop {
            break;
        }
    }
    // epilogue: after the report to the system task nothing may leave the task any more
    for _ in 0..2 {
        let o = step(io, &mut live, &[], cfg.max, Duration::from_secs(3).min(dead)).await;
        out.epilogue.push(o);
        if live.fut.is_none() {
            // a finished task cannot do anything; one probe is proof enough
            break;
        }
    }
    drop(live);
    // let the runtime release what the dropped task held (socket deregistration)
    tokio::task::yield_now().await;
    out
}

// =======================================================================================
// reference (written from the property statements, daemon-level image) and judgement
// =======================================================================================

#[derive(Clone, Debug)]
pub(super) struct Finding {
    /// "C08" | "C09" | "C10" | "C11", or "*": every module reports it under its own id
    pub prop: &'static str,
    pub class: String,
    pub what: String,
}

#[derive(Default, Clone, Debug)]
pub(super) struct Verdict {
    pub findings: Vec<Finding>,
    /// outcome classes reached (vacuity counters), name -> count
    pub tags: BTreeMap<String, u64>,
    /// hashes of the reference states passed through
    pub states: Vec<u64>,
    pub transitions: u64,
    pub machinery: Vec<String>,
    /// a dead-man expired in this case
    pub stuck: bool,
}

impl Verdict {
    fn find(&mut self, prop: &'static str, class: &str, what: String) {
        self.findings.push(Finding { prop, class: format!("{prop}:task-{class}"), what });
    }
    /// the class of a finding as module `prop` reports it
    pub(super) fn class_for(f: &Finding, prop: &str) -> Option<String> {
        if f.prop == prop {
            Some(f.class.clone())
        } else if f.prop == "*" {
            Some(f.class.replacen('*', prop, 1))
        } else {
            None
        }
    }
    fn tag(&mut self, t: &str) {
        *self.tags.entry(t.to_string()).or_insert(0) += 1;
    }
}

pub(super) fn two_pow_ns(p: i8) -> u128 {
    // what `PollInterval::as_system_duration` can represent: exponent clamped to 0..=31
    let e = p.clamp(0, 31) as u32;
    (1u128 << e) * 1_000_000_000
}

fn real_ts_ok(ts: NtpTimestamp, before: f64, after: f64) -> bool {
    let mk = |t: f64| {
        let secs = t.floor();
        NtpTimestamp::from_seconds_nanos_since_ntp_era(
            EPOCH_OFFSET.wrapping_add(secs as u64 as u32),
            ((t - secs) * 1e9) as u32,
        )
    };
    let lo = (ts - mk(before)).to_seconds();
    let hi = (mk(after) - ts).to_seconds();
    lo > -0.5 && hi > -0.5
}

/// Compare the observations of one case with the statements of C08..C11.
pub(super) fn judge(case: &Case, obs: &CaseObs) -> Verdict {
    let mut v = Verdict::default();
    let cfg = case.cfg;
    if let Some(m) = &obs.machinery {
        v.machinery.push(m.clone());
    }
    if obs.stale_datagrams > 0 {
        v.machinery.push(format!("{} stale datagrams before the case", obs.stale_datagrams));
    }
    // reference state
    let mut polls: u32 = 0;
    let mut ever = false;
    let mut since: u32 = 0;
    let mut deny = false;
    let mut floor: i8 = cfg.min;
    let mut rate_seen = false;
    // number of valid RATE answers so far, counted from the minimum ("each RATE answer lengthens
    // the interval by at least one step until the configured maximum")
    let mut steps: i8 = cfg.min;
    let mut srv_req: i8 = i8::MIN;
    let mut ended = false;

    for (i, o) in obs.steps.iter().enumerate() {
        let none: Vec<Atom> = Vec::new();
        let reaction = case.script.get(i).unwrap_or(&none);
        v.transitions += 1 + o.sent.len() as u64;
        v.states.push(common::hash_of(&(polls.min(3), ever, since.min(8), deny, floor, srv_req, steps)));
        let at = format!("poll #{} ({})", i + 1, reaction_code(reaction));
        if let Some(p) = &o.panicked {
            v.find("C11", "panicked", format!("{at}: task panicked: {p}"));
            return v;
        }
        if let Some(s) = &o.stuck {
            v.find("*", "stuck", format!("{at}: {s}"));
            v.stuck = true;
            return v;
        }
        if let Some(s) = &o.sentinel_lost {
            // the rig lost its step delimiter: nothing after this point can be judged
            v.machinery.push(format!("{at}: {s}"));
            v.stuck = true;
            return v;
        }
        if o.sentinel_unlogged {
            v.tag("machinery.sentinel-consumed-without-log-line");
            v.machinery.push(format!("{at}: a short datagram (sentinel) was taken by the task without the 'too small' log line"));
        }
        if o.extra_datagrams > 0 || o.odd_datagrams > 0 {
            v.find(
                "C11",
                "more-than-one-datagram-per-timer",
                format!("{at}: {} further / {} malformed datagrams left the task", o.extra_datagrams, o.odd_datagrams),
            );
        }
        if o.timer_events != 1 {
            v.machinery.push(format!("{at}: {} timer events for one firing", o.timer_events));
        }
        if cfg.ts != Ts::Sw && o.unstamped > 0 {
            v.tag("machinery.unstamped_datagrams");
        }
        let expect_end = (!ever && polls >= 3) || (ever && since >= 8);
        if expect_end {
            let want = if deny { MsgKind::MustDemobilize } else { MsgKind::Unreachable };
            v.tag(if !ever { "end.startup-rule" } else { "end.eight-missed-rule" });
            v.tag(if deny { "end.must-demobilize" } else { "end.unreachable" });
            if o.req.is_some() {
                v.find(
                    "C11",
                    "missing-reset",
                    format!(
                        "{at}: {} polls, {} since the last usable answer (ever answered: {ever}) — the task polled again instead of reporting {}",
                        polls,
                        since,
                        want.code()
                    ),
                );
                return v;
            }
            if cfg.bp {
                if o.channel_full_at_timer {
                    v.tag("backpressure.give-up-with-full-channel");
                } else {
                    v.machinery.push(format!("{at}: backpressure case but the channel was not full at the timer"));
                }
                if !o.msgs.is_empty() {
                    v.tag("backpressure.report-delivered-after-drain");
                }
            }
            if o.msgs.is_empty() {
                v.find(
                    "C11",
                    if cfg.bp { "report-lost-under-backpressure" } else { "ended-without-report" },
                    format!(
                        "{at}: task ended without a message to the system task (channel full at the timer: {}, {} fillers drained afterwards)",
                        o.channel_full_at_timer, o.fillers_out
                    ),
                );
            } else {
                if o.msgs.len() > 1 {
                    v.find("C11", "report-repeated", format!("{at}: messages {:?}", o.msgs));
                }
                if o.msgs[0] != want {
                    let prop = if matches!(o.msgs[0], MsgKind::Unreachable | MsgKind::MustDemobilize) { "C09" } else { "C11" };
                    v.find(
                        prop,
                        "reset-vs-demobilize",
                        format!(
                            "{at}: reported {} but deny seen since the last usable answer = {deny} (want {})",
                            o.msgs[0].code(),
                            want.code()
                        ),
                    );
                    if prop == "C09" {
                        // the same defect seen from C11's statement
                        v.find("C11", "reset-vs-demobilize", format!("{at}: reported {}, want {}", o.msgs[0].code(), want.code()));
                    }
                }
            }
            if !o.finished {
                v.find("C11", "continues-after-report", format!("{at}: the task is still running after {:?}", o.msgs));
            }
            if o.snap.is_some() {
                v.find("C11", "snapshot-left-behind", format!("{at}: published state still present after {:?}", o.msgs));
            }
            if !o.resets.is_empty() {
                v.find("C10", "timer-set-without-send", format!("{at}: poll timer set {:?} while giving up", o.resets));
            }
            if !o.meas.is_empty() {
                v.find("C08", "measurement-without-answer", format!("{at}: {} measurement calls", o.meas.len()));
            }
            ended = true;
            // after the report: nothing further
            for (j, e) in obs.epilogue.iter().enumerate() {
                v.transitions += 1;
                if e.req.is_some() || e.extra_datagrams > 0 {
                    v.find("C11", "sends-after-report", format!("timer firing #{} after the report: a datagram left the task", j + 1));
                }
                if !e.msgs.is_empty() {
                    v.find("C11", "report-repeated", format!("timer firing #{} after the report: {:?}", j + 1, e.msgs));
                }
                if !e.finished && !o.finished {
                    // already reported as continues-after-report
                }
                if let Some(p) = &e.panicked {
                    v.find("C11", "panicked", format!("after the report: {p}"));
                }
            }
            break;
        }

        // the source must poll
        let Some(req) = &o.req else {
            let what = format!(
                "{at}: {} polls, {} since the last usable answer (ever answered: {ever}) — expected a poll, got messages {:?}, finished={}",
                polls, since, o.msgs, o.finished
            );
            if o.msgs.contains(&MsgKind::MustDemobilize) {
                v.find("C09", "demobilized-while-reachable", what.clone());
            }
            v.find("C11", "spurious-reset", what);
            return v;
        };
        polls += 1;
        since += 1;
        if !o.msgs.is_empty() {
            let what = format!("{at}: message {:?} although the source polled", o.msgs);
            if o.msgs.contains(&MsgKind::MustDemobilize) {
                v.find("C09", "demobilized-while-reachable", what.clone());
            }
            v.find("C11", "spurious-reset", what);
        }
        if o.finished {
            v.find("C11", "task-ended-while-reachable", format!("{at}: the task ended after polling"));
        }
        let p = req.poll;
        // ---- C10: poll exponent on the wire, timer value
        if p < cfg.min {
            v.find("C10", "poll-below-min", format!("{at}: poll exponent {p} on the wire, configured minimum {}", cfg.min));
        }
        let cap = cfg.max.max(srv_req);
        if p > cap {
            v.find(
                "C10",
                "poll-above-max",
                format!("{at}: poll exponent {p} on the wire, configured maximum {}, largest server request {}", cfg.max, srv_req),
            );
        }
        if p == cfg.min {
            v.tag("poll.at-min");
        } else if p > cfg.max {
            v.tag("poll.above-max-by-server-request");
        } else if p == cfg.max {
            v.tag("poll.at-max");
        } else {
            v.tag("poll.between");
        }
        if p == 17 {
            v.tag("poll.exponent-17");
        } else if p > 17 {
            v.tag("poll.exponent-above-17");
        }
        if o.resets.len() != 1 {
            v.find(
                "C10",
                "timer-set-count",
                format!("{at}: the poll timer was set {} times after one poll ({:?})", o.resets.len(), o.resets),
            );
        }
        for d in &o.resets {
            let ns = d.as_nanos();
            let unit = two_pow_ns(p);
            let lo = unit * 101 / 100;
            let hi = unit * 105 / 100 + unit / 1_000_000_000 + 1;
            if ns < lo || ns > hi {
                v.find(
                    "C10",
                    "timer-out-of-range",
                    format!("{at}: poll exponent {p}, timer set to {:.6} s, allowed [{:.2}, {:.2}] s", d.as_secs_f64(), lo as f64 / 1e9, hi as f64 / 1e9),
                );
            } else {
                v.tag("timer.in-range");
            }
            // ---- C09: never faster than the RATE floor
            if rate_seen && ns < two_pow_ns(floor) * 101 / 100 {
                v.find("C09", "timer-faster-after-rate", format!("{at}: timer {:.6} s below 1.01*2^{floor} s", d.as_secs_f64()));
            }
        }
        if rate_seen && p < floor {
            v.find("C09", "poll-faster-after-rate", format!("{at}: poll exponent {p} after a RATE answer that demands at least {floor}"));
        }
        if rate_seen {
            v.tag(if floor > cfg.min { "rate.floor-above-min-in-force" } else { "rate.floor-at-min-in-force" });
        }
        // request shape (what the wire must look like for the configured source)
        let ver_ok = match cfg.ver {
            Ver::V4 => req.version == 4,
            Ver::V5 => req.version == 5,
            Ver::Auto => req.version == 4 || req.version == 5,
        };
        if !ver_ok || req.mode != 3 {
            v.find("C08", "request-shape", format!("{at}: request version {} mode {}", req.version, req.mode));
        }
        v.tag(match (req.version, req.marker) {
            (5, _) => "request.v5",
            (_, true) => "request.v4-upgrade-marker",
            _ => "request.v4",
        });

        // ---- the reaction of the scripted server to this poll, datagram by datagram
        let mut pending = true; // the request has not yet yielded a measurement
        let mut late = false;
        let mut want_calls = 0usize;
        let mut accepted: Option<usize> = None; // index into o.sent
        let mut before_accepted_from_server = 0u32; // datagrams the task received before it
        let mut full_from_server = 0u64;
        for (j, snt) in o.sent.iter().enumerate() {
            let a = snt.atom;
            v.tag(&format!("answer.{}", a.ch()));
            let answers_pending = pending && !late && snt.via == 0;
            match a {
                Atom::T => late = true,
                Atom::V | Atom::Q | Atom::J | Atom::G | Atom::H => {
                    if answers_pending {
                        want_calls += 2;
                        accepted = Some(j);
                        before_accepted_from_server = snt.rx_before;
                        pending = false;
                        ever = true;
                        since = 0;
                        deny = false;
                        if let Some(x) = a.asks(cfg.max) {
                            if req.version == 5 {
                                srv_req = srv_req.max(x);
                            }
                        }
                    } else {
                        v.tag(if late { "ignored.late-valid" } else { "ignored.duplicate-valid" });
                    }
                }
                Atom::D | Atom::S => {
                    if answers_pending {
                        deny = true;
                        v.tag("kiss.deny-or-rstr-to-plain-source");
                    } else {
                        v.tag("ignored.kiss-not-answering-a-pending-request");
                    }
                }
                Atom::R => {
                    if answers_pending {
                        rate_seen = true;
                        steps = steps.saturating_add(1).min(cfg.max);
                        floor = floor.max(p).max(steps);
                        if p > cfg.des {
                            // the interval just used was the server-imposed one, not the source's own
                            floor = floor.max(p.saturating_add(1).min(cfg.max));
                        }
                    } else {
                        v.tag("ignored.kiss-not-answering-a-pending-request");
                    }
                }
                Atom::O | Atom::X | Atom::U | Atom::A | Atom::P | Atom::Z0 | Atom::Z1 | Atom::Z2 | Atom::Z4 | Atom::Z47 => {
                    v.tag(&format!("ignored.{}", a.ch()));
                }
            }
            if snt.via == 0 && snt.len >= 48 {
                full_from_server += 1;
            }
        }
        if reaction.is_empty() {
            v.tag("answer.none");
        }
        if o.sent.len() >= 2 {
            v.tag("reaction.two-or-more-datagrams");
        }
        // ---- C08: measurements
        if o.meas.len() != want_calls {
            let has = |f: &dyn Fn(Atom) -> bool| reaction.iter().any(|a| f(*a));
            let class = if o.meas.len() < want_calls {
                "usable-answer-not-measured"
            } else if has(&|a| a.short_len().is_some()) {
                "short-datagram-used"
            } else if has(&|a| matches!(a, Atom::A | Atom::P)) {
                "foreign-address-measured"
            } else if has(&|a| a == Atom::T) {
                "late-answer-measured"
            } else if has(&|a| matches!(a, Atom::O | Atom::X)) {
                "wrong-origin-measured"
            } else if has(&|a| matches!(a, Atom::D | Atom::S | Atom::R | Atom::U)) {
                "kiss-measured"
            } else if reaction.is_empty() {
                "measurement-without-answer"
            } else {
                "duplicate-measured"
            };
            v.find(
                "C08",
                class,
                format!("{at}: {} measurement calls reached the controller, expected {want_calls}", o.meas.len()),
            );
            if o.meas.len() < want_calls {
                // the same defect seen from C11: a source that answers usably is treated as silent
                v.find("C11", "usable-answer-not-counted", format!("{at}: a usable answer did not reach the source"));
            }
        } else if let Some(j) = accepted {
            v.tag("measurement.pair-delivered");
            if j > 0 {
                v.tag("measurement.after-other-datagrams-in-the-same-poll");
            }
            let (out, inc) = (&o.meas[0], &o.meas[1]);
            let serial = o.sent[j].serial;
            let want_recv = NtpTimestamp::from_seconds_nanos_since_ntp_era(RECV_BASE + serial, 0);
            let want_xmit = NtpTimestamp::from_seconds_nanos_since_ntp_era(XMIT_BASE + serial, 0);
            let mut bad = Vec::new();
            if out.sender_id != ClockId::SYSTEM || Some(out.receiver_id) != obs.index {
                bad.push("outgoing ids".to_string());
            }
            if inc.receiver_id != ClockId::SYSTEM || inc.sender_id != out.receiver_id {
                bad.push("incoming ids".to_string());
            }
            if out.receiver_ts != want_recv {
                bad.push("server receive time stamp is not the one of this answer".to_string());
            }
            if inc.sender_ts != want_xmit {
                bad.push("server transmit time stamp is not the one of this answer".to_string());
            }
            match cfg.ts {
                Ts::Sw | Ts::Kr => {
                    if out.sender_ts != SeqClock::reading(req.clock_k) {
                        bad.push(format!(
                            "send time stamp is not the clock reading #{} taken when this request was sent",
                            req.clock_k
                        ));
                    }
                }
                Ts::Ka => {
                    if !real_ts_ok(out.sender_ts, o.real_before, o.real_after) {
                        bad.push("kernel send time stamp outside the step's real-time window".to_string());
                    }
                }
            }
            match cfg.ts {
                Ts::Sw => {
                    // one clock reading per datagram the task received before this one
                    let k = req.clock_k.wrapping_add(1).wrapping_add(before_accepted_from_server);
                    if inc.receiver_ts != SeqClock::reading(k) {
                        bad.push("receive time stamp is not the clock reading taken when this answer arrived".to_string());
                    }
                }
                Ts::Kr | Ts::Ka => {
                    if o.unstamped == 0 && !real_ts_ok(inc.receiver_ts, o.real_before, o.real_after) {
                        bad.push("kernel receive time stamp outside the step's real-time window".to_string());
                    }
                }
            }
            if !bad.is_empty() {
                v.find("C08", "measurement-not-of-this-exchange", format!("{at}: {}", bad.join("; ")));
            }
        }
        // datagrams shorter than 48 bytes must not reach the library at all (one published
        // snapshot per timer and per full-size datagram from the server address)
        if !o.finished && o.observes > 1 + full_from_server {
            v.tag("machinery.more-snapshots-than-full-size-datagrams");
        }
        // ---- C11 / C08 / C10: published state
        match &o.snap {
            None => v.find("C11", "snapshot-missing", format!("{at}: no published state for a live source")),
            Some((missed, sp, addr)) => {
                if ever {
                    let want = since.min(8);
                    if *missed != want {
                        let prop = if o.sent.len() > usize::from(accepted.is_some()) { "C08" } else { "C11" };
                        v.find(
                            prop,
                            "missed-polls",
                            format!("{at}: published missed polls {missed}, polls since the last usable answer {want}"),
                        );
                        if prop == "C08" {
                            v.find("C11", "missed-polls", format!("{at}: published missed polls {missed}, want {want}"));
                        }
                    } else {
                        v.tag(match want {
                            0 => "missed.0",
                            1..=3 => "missed.1-3",
                            4..=7 => "missed.4-7",
                            _ => "missed.8",
                        });
                    }
                } else {
                    v.tag("missed.before-first-answer-not-judged");
                }
                if *sp != p {
                    v.find("C10", "snapshot-poll", format!("{at}: published poll exponent {sp}, on the wire {p}"));
                }
                if addr.is_empty() {
                    v.machinery.push("empty address in snapshot".to_string());
                }
            }
        }
        if o.snap_foreign_entries > 0 {
            v.find("C11", "snapshot-foreign-entry", format!("{at}: {} entries under other ids", o.snap_foreign_entries));
        }
    }
    if !ended && v.findings.is_empty() {
        // every script ends with TAIL silent polls, so the source must have given up
        v.find(
            "C11",
            "missing-reset",
            format!("{} polls, {} since the last usable answer: the source never gave up", polls, since),
        );
    }
    v
}

/// Canonical, run-independent text of an observation (random identifiers, jitter and real time
/// are reduced to what the statements speak about).
pub(super) fn obs_text(case: &Case, obs: &CaseObs) -> String {
    let mut s = String::new();
    let mut one = |o: &StepObs, s: &mut String| {
        match &o.req {
            Some(r) => s.push_str(&format!("v{}m{}p{}{}", r.version, r.mode, r.poll, if r.marker { "u" } else { "" })),
            None => s.push('-'),
        }
        for d in &o.resets {
            let p = o.req.as_ref().map(|r| r.poll).unwrap_or(0);
            let unit = two_pow_ns(p);
            let ns = d.as_nanos();
            s.push_str(if ns < unit * 101 / 100 {
                " t<"
            } else if ns > unit * 105 / 100 + unit / 1_000_000_000 + 1 {
                " t>"
            } else {
                " t="
            });
        }
        s.push_str(&format!(" m{}", o.meas.len()));
        match &o.snap {
            Some((missed, p, _)) => s.push_str(&format!(" s{missed}/{p}")),
            None => s.push_str(" s-"),
        }
        for m in &o.msgs {
            s.push_str(&format!(" !{}", m.code()));
        }
        if o.finished {
            s.push_str(" end");
        }
        if o.extra_datagrams + o.odd_datagrams > 0 {
            s.push_str(&format!(" x{}", o.extra_datagrams + o.odd_datagrams));
        }
        if let Some(st) = &o.stuck {
            s.push_str(&format!(" STUCK({st})"));
        }
        if o.sentinel_lost.is_some() {
            s.push_str(" SENTINEL-LOST");
        }
        if o.sentinel_unlogged {
            s.push_str(" sentinel-unlogged");
        }
        if let Some(p) = &o.panicked {
            s.push_str(&format!(" PANIC({p})"));
        }
    };
    s.push_str(&case.trace());
    s.push_str(" => ");
    for (i, o) in obs.steps.iter().enumerate() {
        if i > 0 {
            s.push_str(" | ");
        }
        let none: Vec<Atom> = Vec::new();
        s.push_str(&reaction_code(case.script.get(i).unwrap_or(&none)));
        s.push(':');
        one(o, &mut s);
    }
    s.push_str(" || after:");
    for o in &obs.epilogue {
        s.push(' ');
        one(o, &mut s);
        s.push(';');
    }
    s
}

// =======================================================================================
// enumeration driver shared by the four modules
// =======================================================================================

/// All reactions (sequences of atoms) of length 0..=k over `atoms`, shortest first.
pub(super) fn reactions(atoms: &[Atom], k: usize) -> Vec<Vec<Atom>> {
    let mut out: Vec<Vec<Atom>> = vec![Vec::new()];
    let mut level: Vec<Vec<Atom>> = vec![Vec::new()];
    for _ in 0..k {
        let mut next = Vec::new();
        for r in &level {
            for a in atoms {
                let mut n = r.clone();
                n.push(*a);
                next.push(n);
            }
        }
        out.extend(next.iter().cloned());
        level = next;
    }
    out
}

/// Every script of exactly `polls` reactions, each reaction any sequence of at most `per_poll`
/// atoms (in every order). Shorter scripts are prefixes: silence follows every script anyway.
pub(super) struct Plan {
    pub cfg: Cfg,
    pub atoms: Vec<Atom>,
    pub per_poll: usize,
    pub polls: usize,
}

pub(super) fn plan(cfg: Cfg, letters: &str, per_poll: usize, polls: usize) -> Plan {
    Plan { cfg, atoms: atoms(letters).into_iter().filter(|a| a.applies(cfg.ver)).collect(), per_poll, polls }
}

/// Run every script of every plan against a fresh real task, judge it, and report the findings
/// that belong to `prop` (findings of the sibling properties are counted, not reported here:
/// their own modules report them).
pub(super) fn explore(ctx: &Ctx, prop: &'static str, plans: &[Plan]) {
    let mut offsets = Vec::new();
    let mut reacts: Vec<Vec<Vec<Atom>>> = Vec::new();
    let mut total = 0u64;
    for p in plans {
        offsets.push(total);
        let r = reactions(&p.atoms, p.per_poll);
        total += common::pow(r.len(), p.polls);
        reacts.push(r);
    }
    ctx.set("cases_planned", total);
    let tally: Mutex<BTreeMap<String, u64>> = Mutex::new(BTreeMap::new());
    let states: Mutex<std::collections::HashSet<u64>> = Mutex::new(Default::default());
    let behaviours: Mutex<std::collections::HashSet<u64>> = Mutex::new(Default::default());
    let failed_workers = AtomicU64::new(0);
    // dead-man expiries: after three the exploration stops (reported, never a hang)
    let stuck = AtomicU64::new(0);
    common::par_for_with(
        total,
        8,
        || match Worker::new() {
            Ok(w) => Some(w),
            Err(e) => {
                if failed_workers.fetch_add(1, Ordering::SeqCst) == 0 {
                    ctx.cap_hit(&format!("worker could not start: {e}"));
                }
                None
            }
        },
        |w, idx| {
            let Some(w) = w.as_mut() else {
                ctx.inc("cases_not_run");
                return;
            };
            if stuck.load(Ordering::SeqCst) >= 3 {
                ctx.inc("cases_not_run");
                return;
            }
            let pi = offsets.partition_point(|o| *o <= idx) - 1;
            let plan = &plans[pi];
            let word = common::word_of(idx - offsets[pi], reacts[pi].len(), plan.polls);
            let case = Case { cfg: plan.cfg, script: word.iter().map(|i| reacts[pi][*i].clone()).collect() };
            let obs = w.run(&case);
            let verdict = judge(&case, &obs);
            if verdict.stuck && stuck.fetch_add(1, Ordering::SeqCst) == 2 {
                ctx.cap_hit("three dead-man expiries: the remaining cases were not run (see the violations / machinery notes for the traces)");
            }
            report(ctx, prop, idx, &case, &obs, &verdict, &tally, &states, &behaviours);
        },
    );
    let t = tally.into_inner().unwrap();
    for (k, n) in &t {
        ctx.set(k, *n);
    }
    ctx.set("states", states.into_inner().unwrap().len() as u64);
    ctx.set("distinct_behaviours", behaviours.into_inner().unwrap().len() as u64);
    if failed_workers.load(Ordering::SeqCst) > 0 || ctx.get("cases_not_run") > 0 || ctx.get("machinery_notes") > 0 {
        ctx.exhaustive(false);
    } else {
        ctx.exhaustive(ctx.get("evaluations") == total);
    }
}

pub(super) fn report(
    ctx: &Ctx,
    prop: &'static str,
    idx: u64,
    case: &Case,
    obs: &CaseObs,
    verdict: &Verdict,
    tally: &Mutex<BTreeMap<String, u64>>,
    states: &Mutex<std::collections::HashSet<u64>>,
    behaviours: &Mutex<std::collections::HashSet<u64>>,
) {
    ctx.inc("evaluations");
    ctx.add("transitions", verdict.transitions);
    let text = obs_text(case, obs);
    ctx.distinct(common::hash_of(&text));
    // behaviours: the same observation without the script letters and the configuration
    let behaviour: String = text
        .split(" => ")
        .nth(1)
        .unwrap_or("")
        .split(" | ")
        .map(|s| s.split_once(':').map(|x| x.1).unwrap_or(""))
        .collect::<Vec<_>>()
        .join("|");
    behaviours.lock().unwrap().insert(common::hash_of(&behaviour));
    if idx % 4093 == 17 {
        ctx.sample(text.clone());
    }
    {
        let mut t = tally.lock().unwrap();
        for (k, n) in &verdict.tags {
            *t.entry(format!("reached.{k}")).or_insert(0) += n;
        }
        *t.entry("polls_on_the_wire".to_string()).or_insert(0) += obs.steps.iter().filter(|s| s.req.is_some()).count() as u64;
        *t.entry("datagrams_sent_to_the_task".to_string()).or_insert(0) +=
            obs.steps.iter().map(|s| s.sent.iter().filter(|x| x.via != 9).count() as u64).sum::<u64>();
        for f in &verdict.findings {
            if f.prop != prop && f.prop != "*" {
                *t.entry(format!("sibling_findings.{}", f.prop)).or_insert(0) += 1;
            }
        }
    }
    {
        let mut s = states.lock().unwrap();
        for h in &verdict.states {
            s.insert(*h);
        }
    }
    for m in &verdict.machinery {
        ctx.inc("machinery_notes");
        if ctx.get("machinery_notes") <= 3 {
            ctx.cap_hit(&format!("machinery: {m} [{}]", case.trace()));
        }
    }
    for f in &verdict.findings {
        if let Some(class) = Verdict::class_for(f, prop) {
            ctx.violation(&class, format!("{} [{}]", f.what, text), case.trace());
        }
    }
}

/// `--replay`: run exactly this trace on a fresh worker, report what the module's own property
/// says about it, return the canonical observation.
pub(super) fn replay_case(ctx: &Ctx, prop: &'static str, trace: &str) -> String {
    let Some(case) = Case::parse(trace) else {
        return format!("unparsable trace {trace:?} (want e.g. v4;4-10;kr;V.N.DV.R)");
    };
    let mut w = match Worker::new() {
        Ok(w) => w,
        Err(e) => return format!("worker: {e}"),
    };
    let obs = w.run(&case);
    let verdict = judge(&case, &obs);
    for f in &verdict.findings {
        if let Some(class) = Verdict::class_for(f, prop) {
            ctx.violation(&class, f.what.clone(), case.trace());
        }
    }
    let mut text = obs_text(&case, &obs);
    for f in &verdict.findings {
        text.push_str(&format!(" ## {}", f.class));
    }
    for m in &verdict.machinery {
        text.push_str(&format!(" ## machinery: {m}"));
    }
    text
}

pub(super) fn common_assumptions(ctx: &Ctx) {
    ctx.assume("loopback UDP delivers datagrams to one socket in the order they were sent; the sentinels (short datagrams the task ignores but logs; one more than the foreign-peer datagrams since the last synchronisation point) therefore prove that every earlier datagram has been consumed by the task or dropped by the kernel");
    ctx.assume("the task's tracing events 'wait completed' and 'accept packet' exist (they delimit the steps); 'received packet is too small' is used when present, a task that takes short datagrams without it is reported as such; a dead-man expiry is reported (task-stuck / machinery cap) and stops the exploration after three, it is never a verdict about the property and never a hang");
    ctx.assume("tokio's clock is paused: the duration handed to the poll timer is read as deadline - now exactly; the harness then advances virtual time by that duration before it fires the timer");
    ctx.assume("plain (non-NTS) sources only: SourceNtsData cannot be constructed from the ntpd crate without a real key exchange; NTS sources are covered at library level (ntp_proto c09, c13)");
    ctx.assume("the recording controller always desires the configured minimum poll interval; the real Kalman filter's desire is ntp_proto c10 part B");
}

// =======================================================================================
// C11
// =======================================================================================

fn replay(ctx: &Ctx, trace: &str) -> String {
    replay_case(ctx, "C11", trace)
}

pub(super) fn cfg(ver: Ver, min: i8, max: i8, ts: Ts) -> Cfg {
    Cfg { ver, min, max, ts, des: min, bp: false }
}

#[test]
fn check() {
    let ctx = Ctx::new("C11");
    if let Some(t) = common::replay_trace() {
        let a = replay(&ctx, &t);
        let b = replay(&ctx, &t);
        common::report_replay("C11", &a, &b, ctx.violation_count() > 0);
        return;
    }
    ctx.rule("every script of exactly n polls (shorter scripts are their prefixes: silence follows anyway) in which the scripted UDP server reacts to each poll with any sequence of at most k datagrams, in every order, over {V valid (repeated = the same datagram again), O wrong origin, X the request reflected, D DENY, A valid from another address, 2 / 7 the first 2 / 47 bytes of a valid answer, T 5.5 s pass}, played against the real SourceTask::run (fresh task per script), followed by silent polls until the task gives up; a case is distinct if its canonical observation (requests on the wire, timer class, measurements, published state, messages, end of task) differs");
    common_assumptions(&ctx);
    let quick = ctx.quick();
    let mut plans = Vec::new();
    // up to k datagrams per poll: a non-usable datagram before / after the valid answer
    plans.push(plan(cfg(Ver::V4, 4, 10, Ts::Kr), "VODA2", 2, 3));
    plans.push(plan(cfg(Ver::Auto, 4, 10, Ts::Ka), "VODX", 2, 3));
    plans.push(plan(cfg(Ver::V5, 4, 10, Ts::Sw), "VOD7", 2, if quick { 2 } else { 3 }));
    if !quick {
        plans.push(plan(cfg(Ver::V4, 4, 10, Ts::Sw), "VODA", 3, 3));
        plans.push(plan(cfg(Ver::V4, 4, 4, Ts::Ka), "VODA2", 2, 4));
    }
    // one datagram per poll, longer scripts
    let n = if quick { 5 } else { 7 };
    plans.push(plan(cfg(Ver::V4, 4, 10, Ts::Kr), "VODAXT", 1, n));
    plans.push(plan(cfg(Ver::V4, 4, 4, Ts::Sw), "VODA2T", 1, n));
    plans.push(plan(cfg(Ver::V5, 4, 10, Ts::Kr), "VODAT", 1, n - 1));
    plans.push(plan(cfg(Ver::Auto, 4, 10, Ts::Ka), "VODAT", 1, n - 1));
    // all answered/unanswered patterns, long enough for the eight-missed rule inside the script
    plans.push(plan(cfg(Ver::V4, 4, 10, Ts::Kr), "V", 1, if quick { 12 } else { 16 }));
    plans.push(plan(cfg(Ver::Auto, 4, 10, Ts::Kr), "VD", 1, if quick { 7 } else { 10 }));
    plans.push(plan(cfg(Ver::V5, 4, 10, Ts::Sw), "VD", 1, if quick { 7 } else { 10 }));
    // backpressure: the channel to the system task (capacity as in system.rs) is full of another
    // source's reports whenever the timer fires; the own report must arrive once it is drained
    plans.push(plan(Cfg { bp: true, ..cfg(Ver::V4, 4, 10, Ts::Kr) }, "VDO", 1, if quick { 4 } else { 6 }));
    plans.push(plan(Cfg { bp: true, ..cfg(Ver::Auto, 4, 10, Ts::Ka) }, "VD", 2, if quick { 2 } else { 3 }));
    plans.push(plan(Cfg { bp: true, ..cfg(Ver::V5, 4, 4, Ts::Sw) }, "VD", 1, if quick { 4 } else { 6 }));
    explore(&ctx, "C11", &plans);
    ctx.finish();
}
