//! Group gr probe (child of `ntpd::daemon::spawn::nts_pool::verif_probe`): READ-ONLY view of the
//! private bookkeeping of an `NtsPoolSpawner` (which names it remembers its sources under, which
//! KE-server resolutions it still holds). Used by the C35 search for its state key and to name the
//! sources in reports; the search never writes a private field (states are re-created by
//! re-executing their history through the public `Spawner` interface).
use std::net::SocketAddr;

use ntp_proto::ClockId;

use super::super::NtsPoolSpawner;

/// (current sources in order: id + the name they are remembered under,
///  known resolutions in order: KE server address + SRV record name) exactly as stored.
pub(crate) fn view(p: &NtsPoolSpawner) -> (Vec<(ClockId, String)>, Vec<(SocketAddr, Option<String>)>) {
    (
        p.current_sources.iter().map(|s| (s.id, s.remote.clone())).collect(),
        p.known_resolutions.iter().map(|r| (r.addr, r.srv_record_name.clone())).collect(),
    )
}
