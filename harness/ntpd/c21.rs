//! C21 — Server statistics account for every datagram exactly once (daemon part).
//!
//! The daemon's `ServerStats` (ntpd/src/daemon/server.rs) is the `ServerStatHandler` the
//! real `Server::handle` reports to; ntp-ctl and the metrics exporter show its counters.
//!
//! Part 1 (E-SEQ, exhaustive over the handler's input alphabet): every sequence of
//!   `register(nts, reason, response)` calls up to length 3 (quick) / 4 (thorough) over all
//!   2 x 5 x 4 = 40 argument combinations on a fresh `ServerStats`; after every call all
//!   eleven counters are compared with a reference model (BTreeMap of categories).
//! Part 2 (E-IN/E-SEQ through the real server): policies built as the daemon's own
//!   `config::ServerConfig` and converted with its `From` impl, real `ntp_proto::Server`,
//!   `ServerStats` as handler; one long request sequence per policy (address x datagram x
//!   buffer size, rate limiter off and on). After EVERY handle call:
//!     received = accepted + denied + ignored + rate-limited + nak, received == #handled,
//!     exactly one category moved and it is the one matching what was done (judged from
//!     the returned action and the answer header), NTS counters only move for requests
//!     that carry NTS fields and always move for answered ones.
//!
//! The valid NTS requests are fixtures (hex) produced by the ntp-proto half of this group
//! (`VERIF_GF_EMIT=1 <ntp_proto test binary> verif::c21::emit_fixtures`): they authenticate
//! under the key set `KeySetProvider::load` builds from id offset 1 and an all-zero key
//! (ntpd cannot encrypt: the AEAD types are not exported by ntp-proto).
use std::collections::BTreeMap;
use std::net::{IpAddr, SocketAddr};
use std::sync::Arc;
use std::time::Duration;

use ntp_proto::{
    FilterAction, FilterList, IpSubnet, KeySet, KeySetProvider, NtpClock, NtpDuration,
    NtpLeapIndicator, NtpTimestamp, NtpVersion, Server, ServerAction, ServerReason,
    ServerResponse, ServerStatHandler,
};

use super::super::config::ServerConfig;
use super::super::server::ServerStats;
use super::common::{self, Ctx};

const FIX_V4_NTS: &str = "230006000000000000000000000000000000000000000000000000000000000000000000000000000c11e4177a67004201040024a5a5a5a5a5a5a5a5a5a5a5a5a5a5a5a5a5a5a5a5a5a5a5a5a5a5a5a5a5a5a5a50204006c0000000100520b7b5ed8fa6acb11f527f67fd541cb08449fee4c44e1261f6ddead3b83e79627d3d1d59015c36693535538f84b65dfe5cef6bd8c04bfc4847c8c2e214befb46a2bc850123c5075d46834960e78672c92f41fd347922bc25a9b408123736954eb075c04040028001000108435831e88cd6a60ac8b8ce7f346e407572a2be815c3c16cfea4cd3b02a8ac34";
const FIX_V5_NTS: &str = "2b00060000000000000000000000000000000000000000000c11e4177a6700420000000000000000000000000000000001040024a5a5a5a5a5a5a5a5a5a5a5a5a5a5a5a5a5a5a5a5a5a5a5a5a5a5a5a5a5a5a5a50204006c0000000100520b7b5ed8fa6acb11f527f67fd541cb08449fee4c44e1261f6ddead3b83e79627d3d1d59015c36693535538f84b65dfe5cef6bd8c04bfc4847c8c2e214befb46a2bc850123c5075d46834960e78672c92f41fd347922bc25a9b408123736954eb075cf5ff001b64726166742d696574662d6e74702d6e747076352d30390004040028001000108b169535eef8dca533c424604e8154225b4d98c11075ed6d8fd22aa54293d41f";

const DRAFT: &str = "draft-ietf-ntp-ntpv5-09";

// ------------------------------ counters and model -------------------------------

const NAMES: [&str; 11] = [
    "received",
    "accepted",
    "denied",
    "ignored",
    "rate_limited",
    "response_send_errors",
    "nts_received",
    "nts_accepted",
    "nts_denied",
    "nts_rate_limited",
    "nts_nak",
];

fn snap(s: &ServerStats) -> [u64; 11] {
    [
        s.received_packets.get(),
        s.accepted_packets.get(),
        s.denied_packets.get(),
        s.ignored_packets.get(),
        s.rate_limited_packets.get(),
        s.response_send_errors.get(),
        s.nts_received_packets.get(),
        s.nts_accepted_packets.get(),
        s.nts_denied_packets.get(),
        s.nts_rate_limited_packets.get(),
        s.nts_nak_packets.get(),
    ]
}

fn fmt_snap(a: &[u64; 11]) -> String {
    NAMES.iter().zip(a).map(|(n, v)| format!("{n}={v}")).collect::<Vec<_>>().join(" ")
}

/// What a datagram ended as, in the statement's terms.
#[derive(Clone, Copy, PartialEq, Eq, Debug)]
enum Cat {
    Accepted,
    Denied,
    Ignored,
    RateLimited,
    Nak,
}

fn cat_index(c: Cat) -> usize {
    match c {
        Cat::Accepted => 1,
        Cat::Denied => 2,
        Cat::Ignored => 3,
        Cat::RateLimited => 4,
        Cat::Nak => 10,
    }
}

const REASONS: [ServerReason; 5] = [
    ServerReason::RateLimit,
    ServerReason::ParseError,
    ServerReason::InvalidCrypto,
    ServerReason::InternalError,
    ServerReason::Policy,
];
const RESPONSES: [ServerResponse; 4] = [
    ServerResponse::NTSNak,
    ServerResponse::Deny,
    ServerResponse::Ignore,
    ServerResponse::ProvideTime,
];

/// Reference: which counters one statistics entry must move (from the counter names:
/// the five top-level categories partition `received`; the `nts_*` ones count the NTS
/// flagged subset of received / accepted / denied / rate-limited).
fn model_apply(m: &mut [u64; 11], nts: bool, reason: ServerReason, response: ServerResponse) -> Cat {
    let cat = match response {
        ServerResponse::ProvideTime => Cat::Accepted,
        ServerResponse::Deny => Cat::Denied,
        ServerResponse::NTSNak => Cat::Nak,
        ServerResponse::Ignore => {
            if reason == ServerReason::RateLimit {
                Cat::RateLimited
            } else {
                Cat::Ignored
            }
        }
    };
    m[0] += 1;
    m[cat_index(cat)] += 1;
    if nts {
        m[6] += 1;
        match cat {
            Cat::Accepted => m[7] += 1,
            Cat::Denied => m[8] += 1,
            Cat::RateLimited => m[9] += 1,
            Cat::Ignored | Cat::Nak => {}
        }
    }
    cat
}

fn sum_ok(a: &[u64; 11]) -> bool {
    a[0] == a[1] + a[2] + a[3] + a[4] + a[10]
}

fn sym_text(s: usize) -> String {
    let (nts, reason, response) = sym(s);
    format!("{}/{:?}/{:?}", if nts { "nts" } else { "plain" }, reason, response)
}

fn sym(s: usize) -> (bool, ServerReason, ServerResponse) {
    (s / 20 == 1, REASONS[(s / 4) % 5], RESPONSES[s % 4])
}

fn run_register_word(ctx: &Ctx, word: &[usize], judge_all: bool) -> String {
    let mut stats = ServerStats::default();
    let mut model = [0u64; 11];
    let mut obs = Vec::new();
    for (i, s) in word.iter().enumerate() {
        let (nts, reason, response) = sym(*s);
        stats.register(4, nts, reason, response);
        model_apply(&mut model, nts, reason, response);
        let got = snap(&stats);
        if judge_all || i + 1 == word.len() {
            let trace = || format!("reg;{}", word[..=i].iter().map(|s| s.to_string()).collect::<Vec<_>>().join(","));
            if !sum_ok(&got) {
                ctx.violation(
                    "C21:counters-do-not-add-up",
                    format!("after {}: {}", word[..=i].iter().map(|s| sym_text(*s)).collect::<Vec<_>>().join(", "), fmt_snap(&got)),
                    trace(),
                );
            }
            if got != model {
                let diff: Vec<String> = (0..11)
                    .filter(|k| got[*k] != model[*k])
                    .map(|k| format!("{}={} (expected {})", NAMES[k], got[k], model[k]))
                    .collect();
                ctx.violation(
                    &format!("C21:counter-mapping:{}", NAMES[(0..11).find(|k| got[*k] != model[*k]).unwrap()]),
                    format!("after {}: {}", word[..=i].iter().map(|s| sym_text(*s)).collect::<Vec<_>>().join(", "), diff.join(", ")),
                    trace(),
                );
            }
        }
        obs.push(fmt_snap(&got));
    }
    obs.join(" | ")
}

fn part1(ctx: &Ctx, max_len: usize) {
    for len in 1..=max_len {
        let n = common::pow(40, len);
        common::par_for(n, 4096, |i| {
            let word = common::word_of(i, 40, len);
            // every prefix is its own word of a shorter length: judge only the last step
            run_register_word(ctx, &word, false);
        });
        ctx.add("reg.sequences", n);
        ctx.add("evaluations", n);
        ctx.add("transitions", n * len as u64);
        ctx.add("states", n);
    }
    // all 40 single entries are distinct, non-trivial cases
    for s in 0..40u64 {
        ctx.distinct(common::hash_of(&("reg", s)));
    }
    ctx.set("reg.max_len", max_len as u64);
}

// ------------------------------- part 2: real server -----------------------------

#[derive(Clone)]
struct Clock;

impl NtpClock for Clock {
    type Error = std::io::Error;
    fn now(&self) -> Result<NtpTimestamp, Self::Error> {
        Ok(NtpTimestamp::from_seconds_nanos_since_ntp_era(1000, 500))
    }
    fn set_frequency(&self, _f: f64) -> Result<NtpTimestamp, Self::Error> {
        panic!("verif: server steered the clock");
    }
    fn get_frequency(&self) -> Result<f64, Self::Error> {
        Ok(0.0)
    }
    fn step_clock(&self, _o: NtpDuration) -> Result<NtpTimestamp, Self::Error> {
        panic!("verif: server stepped the clock");
    }
    fn disable_ntp_algorithm(&self) -> Result<(), Self::Error> {
        panic!("verif: server touched the clock discipline");
    }
    fn error_estimate_update(&self, _e: NtpDuration, _m: NtpDuration) -> Result<(), Self::Error> {
        panic!("verif: server updated error estimates");
    }
    fn status_update(&self, _l: NtpLeapIndicator) -> Result<(), Self::Error> {
        panic!("verif: server updated clock status");
    }
}

fn keyset() -> Arc<KeySet> {
    let mut raw = Vec::new();
    raw.extend_from_slice(&0u64.to_be_bytes());
    raw.extend_from_slice(&1u32.to_be_bytes()); // id offset
    raw.extend_from_slice(&0u32.to_be_bytes()); // primary
    raw.extend_from_slice(&1u32.to_be_bytes()); // one key
    raw.extend_from_slice(&[0u8; 64]);
    KeySetProvider::load(&mut &raw[..], 1).expect("keyset").0.get()
}

#[derive(Clone)]
struct Dg {
    name: String,
    bytes: Vec<u8>,
    /// carries NTS fields
    nts: bool,
}

fn hdr34(version: u8, mode: u8) -> Vec<u8> {
    let mut b = vec![0u8; 48];
    b[0] = (version << 3) | mode;
    b[2] = 6;
    b[40..48].copy_from_slice(&0x0C11_E417_7A67_0042u64.to_be_bytes());
    b
}

fn hdr5(mode: u8) -> Vec<u8> {
    let mut b = vec![0u8; 48];
    b[0] = (5 << 3) | mode;
    b[2] = 6;
    b[24..32].copy_from_slice(&0x0C11_E417_7A67_0042u64.to_be_bytes());
    // draft identification field (v5 framing: length = header + body, wire padded to 4)
    b.extend_from_slice(&0xF5FFu16.to_be_bytes());
    b.extend_from_slice(&((4 + DRAFT.len()) as u16).to_be_bytes());
    b.extend_from_slice(DRAFT.as_bytes());
    while b.len() % 4 != 0 {
        b.push(0);
    }
    b
}

fn datagrams() -> Vec<Dg> {
    let mut v = Vec::new();
    let mut push = |name: &str, bytes: Vec<u8>, nts: bool| {
        v.push(Dg {
            name: name.to_string(),
            bytes,
            nts,
        })
    };
    for mode in [3u8, 0, 1, 2, 4, 5, 6, 7] {
        push(&format!("v3.plain.m{mode}"), hdr34(3, mode), false);
        push(&format!("v4.plain.m{mode}"), hdr34(4, mode), false);
        push(&format!("v5.plain.m{mode}"), hdr5(mode), false);
    }
    let mut p = hdr34(4, 3);
    p.extend_from_slice(&[0x01, 0x04, 0x00, 0x24]);
    p.extend_from_slice(&[0xA5; 32]);
    push("v4.plain.uid", p, false);
    let mut p = hdr34(4, 3);
    p.extend_from_slice(&[0x5A; 20]);
    push("v4.plain.mac20", p, false);
    push("empty", vec![], false);
    push("v4.trunc47", hdr34(4, 3)[..47].to_vec(), false);
    push("ver7.m3", hdr34(7, 3), false);
    push("garbage-ff120", vec![0xFF; 120], false);
    let mut p = hdr34(4, 3);
    p.extend_from_slice(&[0x01, 0x04, 0x00, 0x40]);
    p.extend_from_slice(&[0xA5; 32]);
    push("v4.ext-len-overrun", p, false);
    let v4 = common::unhex(FIX_V4_NTS).expect("fixture");
    let v5 = common::unhex(FIX_V5_NTS).expect("fixture");
    push("v4.nts.ok.m3", v4.clone(), true);
    push("v5.nts.ok.m3", v5.clone(), true);
    let mut p = v4.clone();
    let n = p.len();
    p[n - 1] ^= 1;
    push("v4.nts.badtag.m3", p.clone(), true);
    p[0] = (4 << 3) | 4;
    push("v4.nts.badtag.m4", p, true);
    let mut p = v5.clone();
    let n = p.len();
    p[n - 1] ^= 1;
    push("v5.nts.badtag.m3", p, true);
    let mut p = v4.clone();
    p[0] = (4 << 3) | 4; // header is associated data: no longer authenticates, and not client mode
    push("v4.nts.aad-mode4", p, true);
    v
}

#[derive(Clone, Copy, PartialEq, Eq, Debug)]
enum Did {
    Nothing,
    Time,
    Deny,
    Nak,
    Odd,
}

fn classify(resp: Option<&[u8]>, req: &[u8]) -> Did {
    let Some(r) = resp else { return Did::Nothing };
    if r.len() < 48 || req.is_empty() {
        return Did::Odd;
    }
    let version = (r[0] >> 3) & 7;
    if version != (req[0] >> 3) & 7 || r[0] & 7 != 4 {
        return Did::Odd;
    }
    if r[1] != 0 {
        return Did::Time;
    }
    if version == 5 {
        match (r[15] & 4 != 0, r[2] == 0x7F) {
            (true, false) => Did::Nak,
            (false, true) => Did::Deny,
            _ => Did::Odd,
        }
    } else {
        match &r[12..16] {
            b"DENY" => Did::Deny,
            b"NTSN" => Did::Nak,
            _ => Did::Odd,
        }
    }
}

#[derive(Clone)]
struct Pol {
    name: String,
    cfg: ServerConfig,
    rl: bool,
}

fn subnet(s: &str) -> IpSubnet {
    s.parse().expect("subnet")
}

fn policies() -> Vec<Pol> {
    let mut v = Vec::new();
    let denies: [(&str, Vec<IpSubnet>); 2] = [("none", vec![]), ("d24", vec![subnet("10.1.2.0/24")])];
    let allows: [(&str, Vec<IpSubnet>); 2] = [
        ("all", vec![subnet("::/0"), subnet("0.0.0.0/0")]),
        ("a16", vec![subnet("10.1.0.0/16"), subnet("2001:db8::/32")]),
    ];
    let acts = [("i", FilterAction::Ignore), ("d", FilterAction::Deny)];
    let rn = [("n", None), ("i", Some(FilterAction::Ignore)), ("d", Some(FilterAction::Deny))];
    let vers = [("4", vec![NtpVersion::V4]), ("345", vec![NtpVersion::V3, NtpVersion::V4, NtpVersion::V5])];
    for (dn, dl) in &denies {
        for (dan, da) in &acts {
            for (an, al) in &allows {
                for (aan, aa) in &acts {
                    for (rnn, r) in &rn {
                        for (vn, vs) in &vers {
                            for rl in [false, true] {
                                // the daemon's own configuration type; converted with its From impl below
                                let cfg = ServerConfig {
                                    listen: SocketAddr::new("127.0.0.1".parse().unwrap(), 123),
                                    denylist: FilterList {
                                        filter: dl.clone(),
                                        action: *da,
                                    },
                                    allowlist: FilterList {
                                        filter: al.clone(),
                                        action: *aa,
                                    },
                                    rate_limiting_cache_size: if rl { 4 } else { 0 },
                                    rate_limiting_cutoff: if rl { Duration::from_secs(3600) } else { Duration::ZERO },
                                    require_nts: *r,
                                    accept_ntp_versions: vs.clone(),
                                };
                                v.push(Pol {
                                    name: format!("deny={dn}:{dan};allow={an}:{aan};nts={rnn};ver={vn};rl={}", rl as u8),
                                    cfg,
                                    rl,
                                });
                            }
                        }
                    }
                }
            }
        }
    }
    v
}

fn addresses(thorough: bool) -> Vec<IpAddr> {
    let mut v = vec!["10.1.2.3", "10.1.9.9", "192.0.2.1", "2001:db8::1", "::ffff:10.1.2.3"];
    if thorough {
        v.extend(["10.1.3.0", "2001:db9::1", "::ffff:192.0.2.1", "::1"]);
    }
    v.into_iter().map(|s| s.parse().unwrap()).collect()
}

/// The request sequence of one policy: (address index, datagram index, buffer size).
fn sequence(order: usize, na: usize, dgs: &[Dg]) -> Vec<(usize, usize, usize)> {
    let mut v = Vec::new();
    let bufs = |d: &Dg| [0usize, 47, d.bytes.len(), 4096];
    match order {
        0 => {
            for a in 0..na {
                for (di, d) in dgs.iter().enumerate() {
                    for b in bufs(d) {
                        v.push((a, di, b));
                    }
                }
            }
        }
        _ => {
            for (di, d) in dgs.iter().enumerate() {
                for b in bufs(d) {
                    for a in 0..na {
                        v.push((a, di, b));
                    }
                }
            }
        }
    }
    v
}

/// Run a policy's sequence (optionally only the first `limit` steps); returns the
/// observation of the last step for replay.
fn run_policy(ctx: &Ctx, pol: &Pol, order: usize, addrs: &[IpAddr], dgs: &[Dg], limit: Option<usize>, tally: &mut BTreeMap<String, u64>) -> String {
    let ks = keyset();
    let mut server = Server::new_internal(pol.cfg.clone().into(), Clock, Arc::default(), ks);
    let mut stats = ServerStats::default();
    let seq = sequence(order, addrs.len(), dgs);
    let mut prev = snap(&stats);
    let mut seen_addr: Vec<bool> = vec![false; addrs.len()];
    let mut last = String::new();
    let mut buf4096 = vec![0u8; 4096];
    for (step, (ai, di, bs)) in seq.iter().enumerate() {
        if let Some(l) = limit {
            if step >= l {
                break;
            }
        }
        let d = &dgs[*di];
        let addr = addrs[*ai];
        let trace = || format!("srv;{};order={order};steps={}", pol.name, step + 1);
        let buf = &mut buf4096[..*bs];
        let r = common::catch(|| {
            match server.handle(addr, NtpTimestamp::from_seconds_nanos_since_ntp_era(999, 7), &d.bytes, buf, &mut stats) {
                ServerAction::Ignore => None,
                ServerAction::Respond { message } => Some(message.to_vec()),
            }
        });
        let resp = match r {
            Ok(x) => x,
            Err(e) => {
                ctx.violation("C21:handle-panic", format!("Server::handle panicked: {e}"), trace());
                return format!("panic {e}");
            }
        };
        let did = classify(resp.as_deref(), &d.bytes);
        let now = snap(&stats);
        let delta: Vec<i64> = (0..11).map(|k| now[k] as i64 - prev[k] as i64).collect();
        let describe = || {
            format!(
                "step {} ({} from {addr}, buffer {bs}): did {:?}; counters moved: {}",
                step + 1,
                d.name,
                did,
                (0..11).filter(|k| delta[*k] != 0).map(|k| format!("{}{:+}", NAMES[k], delta[k])).collect::<Vec<_>>().join(" ")
            )
        };
        // received counts every datagram exactly once
        if now[0] != (step + 1) as u64 || delta[0] != 1 {
            ctx.violation("C21:received-not-once", describe(), trace());
        }
        if !sum_ok(&now) {
            ctx.violation("C21:counters-do-not-add-up", format!("{}; {}", describe(), fmt_snap(&now)), trace());
        }
        // exactly one category moved, by one, and it is the right one
        let cats = [1usize, 2, 3, 4, 10];
        let moved: Vec<usize> = cats.iter().copied().filter(|k| delta[*k] != 0).collect();
        let allowed: &[usize] = match did {
            Did::Time => &[1],
            Did::Deny => &[2],
            Did::Nak => &[10],
            Did::Nothing => &[3, 4],
            Did::Odd => &[],
        };
        if moved.len() != 1 || delta[moved[0]] != 1 || !allowed.contains(&moved[0]) {
            ctx.violation(
                &format!("C21:category-mismatch:did-{}", format!("{did:?}").to_lowercase()),
                describe(),
                trace(),
            );
        } else if moved[0] == 4 && !(pol.rl && seen_addr[*ai]) {
            // rate-limited needs the limiter on and an earlier request from this address
            ctx.violation("C21:rate-limited-counted-without-limiter", describe(), trace());
        }
        if delta[5] != 0 {
            ctx.violation("C21:send-errors-moved", describe(), trace());
        }
        // NTS counters
        let nts_moved = delta[6];
        if !d.nts && (nts_moved != 0 || delta[7] != 0 || delta[8] != 0 || delta[9] != 0) {
            ctx.violation("C21:nts-counter-on-plain-request", describe(), trace());
        }
        if d.nts && resp.is_some() && nts_moved != 1 {
            ctx.violation(
                if did == Did::Deny && (d.name.contains("bad") || d.name.contains("aad")) {
                    "C21:nts-flag-missing-on-denied-undecryptable"
                } else {
                    "C21:nts-counter-missing-on-answered-nts"
                },
                describe(),
                trace(),
            );
        }
        // nts sub-counters follow their parents
        let want7 = (nts_moved == 1 && delta[1] == 1) as i64;
        let want8 = (nts_moved == 1 && delta[2] == 1) as i64;
        let want9 = (nts_moved == 1 && delta[4] == 1) as i64;
        if delta[7] != want7 || delta[8] != want8 || delta[9] != want9 || !(0..=1).contains(&nts_moved) {
            ctx.violation("C21:nts-subcounter-mismatch", describe(), trace());
        }
        let key = format!(
            "srv.{}.{}",
            format!("{did:?}").to_lowercase(),
            moved.first().map(|k| NAMES[*k]).unwrap_or("none")
        );
        *tally.entry(key).or_insert(0) += 1;
        if d.nts && nts_moved == 1 {
            *tally.entry(format!("srv.nts.{}", format!("{did:?}").to_lowercase())).or_insert(0) += 1;
        }
        seen_addr[*ai] = true;
        prev = now;
        last = format!("{} -> {}", describe(), fmt_snap(&now));
    }
    last
}

fn part2(ctx: &Ctx) {
    let thorough = !ctx.quick();
    let pols = policies();
    let addrs = addresses(thorough);
    let dgs = datagrams();
    let orders: usize = if thorough { 2 } else { 1 };
    ctx.set("srv.policies", pols.len() as u64);
    ctx.set("srv.addresses", addrs.len() as u64);
    ctx.set("srv.datagrams", dgs.len() as u64);
    let per = sequence(0, addrs.len(), &dgs).len() as u64;
    common::par_for(pols.len() as u64 * orders as u64, 1, |i| {
        let pol = &pols[(i / orders as u64) as usize];
        let order = (i % orders as u64) as usize;
        let mut tally = BTreeMap::new();
        let last = run_policy(ctx, pol, order, &addrs, &dgs, None, &mut tally);
        for (k, n) in tally {
            ctx.add(&k, n);
        }
        ctx.add("evaluations", per);
        ctx.add("transitions", per);
        ctx.add("states", per);
        ctx.distinct(common::hash_of(&("srv", &pol.name, order)));
        if i % 37 == 3 {
            ctx.sample(format!("{};order={order}: last {}", pol.name, last));
        }
    });
}

fn replay(ctx: &Ctx, trace: &str) -> String {
    if let Some(rest) = trace.strip_prefix("reg;") {
        let word: Vec<usize> = rest.split(',').filter_map(|s| s.trim().parse().ok()).filter(|s| *s < 40).collect();
        if word.is_empty() {
            return "empty register word".into();
        }
        return run_register_word(ctx, &word, true);
    }
    // srv;<policy name>;order=<o>;steps=<n>
    let Some(rest) = trace.strip_prefix("srv;") else {
        return format!("unknown trace {trace:?}");
    };
    let mut order = 0usize;
    let mut steps = None;
    let mut name_parts = Vec::new();
    for part in rest.split(';') {
        if let Some(o) = part.strip_prefix("order=") {
            order = o.parse().unwrap_or(0);
        } else if let Some(s) = part.strip_prefix("steps=") {
            steps = s.parse().ok();
        } else {
            name_parts.push(part);
        }
    }
    let name = name_parts.join(";");
    let Some(pol) = policies().into_iter().find(|p| p.name == name) else {
        return format!("unknown policy {name:?}");
    };
    // the trace may come from either tier: use the address set that contains the step
    let dgs = datagrams();
    let addrs = addresses(std::env::var("VERIF_TIER").as_deref() == Ok("thorough"));
    let mut tally = BTreeMap::new();
    run_policy(ctx, &pol, order, &addrs, &dgs, steps, &mut tally)
}

#[test]
fn check() {
    let ctx = Ctx::new("C21");
    if let Some(t) = common::replay_trace() {
        let a = replay(&ctx, &t);
        let b = replay(&ctx, &t);
        common::report_replay("C21", &a, &b, ctx.violation_count() > 0);
        return;
    }
    let max_len = if ctx.quick() { 3 } else { 4 };
    ctx.rule(&format!(
        "Part 1: every sequence of length <= {max_len} over all 40 (nts flag, reason, response) statistics entries on a fresh \
         ServerStats, all eleven counters compared with a reference model after the last entry of each sequence. Part 2: 192 daemon \
         ServerConfig policies (deny list x action x allow list x action x require-nts x accepted versions x rate limiter off/on) \
         converted with the daemon's From impl, real ntp_proto::Server with ServerStats as handler, one request sequence per policy \
         over addresses x 38 byte-built datagrams (plain v3/v4/v5 in every mode, fields, MAC, malformed, NTS valid (fixtures) and \
         undecryptable) x buffer size {{0,47,request length,4096}}{}; invariants checked after every handle call. Distinct & \
         non-trivial = each of the 40 entries (Part 1) and each (policy, order) sequence (Part 2).",
        if ctx.quick() { "" } else { " in two orders (address-major, datagram-major)" }
    ));
    ctx.assume("the five top-level categories partition received; nts_* count the NTS-flagged subset of received/accepted/denied/rate-limited (reading of the counter names)");
    ctx.assume("ServerTask::serve passes &mut self.stats to Server::handle for every received datagram and registers once itself for datagrams without a timestamp (read, not executed: needs real sockets)");
    ctx.assume("NTS fixtures authenticate under the all-zero key set; if ntp-proto changes its cookie format they must be re-emitted");
    part1(&ctx, max_len);
    part2(&ctx);
    // vacuity: the fixtures must actually have been accepted as NTS
    if ctx.get("srv.nts.time") == 0 {
        ctx.cap_hit("machinery: no NTS fixture was accepted (fixtures stale?) - NTS accepted path not exercised");
        ctx.exhaustive(false);
    } else {
        ctx.exhaustive(true);
    }
    ctx.finish();
}
